"""C01 — a step never runs more invocations at once than its worker limit.

Decided: the reducer (a sequential fold) can never hold more than num_workers in-progress
entries per step, each on a distinct id in [0, num_workers), and a worker task is created
Also (R3) an entry is re-run on its own slot only when it is the execution selected by the worker id of the step-result tick being
reduced (its invocation has ended); a re-run of a still-running entry is a second invocation invisible in in_progress.
only for such an entry.  Not decided: overlap of a cancelled-but-unfinished task with its
successor at shutdown; sync steps in executor threads.
"""

from __future__ import annotations

import ast
import itertools

from ..absint import Interp, Raised, Record, Unsupported
from ..astx import attr_writes, call_name, calls_named, dotted, enclosing_stmt, expand, facts_at, has_fact, kwarg, last
from ..cfg import CFG
from ..index import AnchorError, FuncNode, enclosing_function, loc, parent, qualname_of
from ..selftest import Twin, multi

EXPLANATION = (
    "Static necessary-condition rules over the reducer in workflows/runtime/control_loop.py: "
    "R1 every growth of `in_progress` anywhere in the workflows package is dominated by the capacity test "
    "`len(S.in_progress) < S.config.num_workers` on the same receiver, once per test; R2 the worker id given to the new entry is, "
    "for every in-use set and num_workers 1..4 (exhaustive finite domain, AST evaluation of the id expression only), a member of "
    "[0,n) not in use; R3 every CommandRunWorker is built for an entry appended under R1 with the same id, or re-uses the id of an "
    "entry that stays in progress; R4 worker coroutines are created only from the CommandRunWorker branch of process_command; "
    "R5 drains pop the queue only under the capacity test."
)
TECHNIQUE = 'static analysis: CFG guard dominance (capacity test) + who-may-create + finite-domain AST evaluation of the worker-id expression'
TRUSTED = ["CPython ast", "the control loop applies reducer results sequentially (C11)"]
CL = "workflows.runtime.control_loop"
PKG_PREFIX = "workflows"

GROW = {"mutcall:append", "mutcall:insert", "mutcall:extend", "augassign", "substore"}


def _receiver(attr: ast.Attribute) -> str:
    return ast.unparse(attr.value)


def run(chk) -> None:
    repo = chk.repo
    from ._engine import engine_view
    chk.extra["helpers_inlined"] = engine_view(repo)
    m = repo.module(CL)

    # ---------------------------------------------------------------- R1: guarded growth
    grow_sites = []
    for mod in list(repo.by_rel.values()):
        if not mod.name.startswith(PKG_PREFIX):
            continue
        for node, kind in attr_writes(mod.tree, "in_progress"):
            fn = enclosing_function(node)
            if fn is None:
                continue
            if kind == "assign":
                # `x.in_progress = []` / `= list()` is a reset, anything else a growth
                st = enclosing_stmt(node)
                val = getattr(st, "value", None)
                empty = isinstance(val, (ast.List, ast.Tuple)) and not val.elts or (isinstance(val, ast.Call) and call_name(val) == "list" and not val.args)
                # a selection from the list itself (`[w for w in x.in_progress if …]`, one generator, the element unchanged) can only shrink it
                recv0 = ast.unparse(node.value) if isinstance(node, ast.Attribute) else ""
                shrink = (isinstance(val, ast.ListComp) and len(val.generators) == 1 and isinstance(val.elt, ast.Name) and isinstance(val.generators[0].target, ast.Name)
                          and val.elt.id == val.generators[0].target.id and ast.unparse(val.generators[0].iter) == f"{recv0}.in_progress")
                if empty or shrink:
                    continue
                grow_sites.append((mod, fn, node, kind))
            elif kind in GROW:
                grow_sites.append((mod, fn, node, kind))
    repo.consulted.add(m.rel)
    chk.floor("C01.R1", "growth sites of in_progress", len(grow_sites), 1)
    appended_ids: dict[int, tuple[ast.AST, ast.AST]] = {}
    for mod, fn, node, kind in grow_sites:
        cfg = CFG(fn)
        recv = _receiver(node)
        st = enclosing_stmt(node)
        ok = False
        reason = ""
        for n in cfg.nodes_of(st):
            facts = facts_at(cfg, n)
            want = f"len({recv}.in_progress) < {recv}.config.num_workers"
            if has_fact(facts, want):
                # once per test: no path from the append back to itself that avoids the guarding test
                guard_nodes = [t for t, lab in cfg.guards(n) if t.kind == "test" and lab == "T"]
                loops_back = n in cfg.reach([n], blocked=guard_nodes, include_starts=False)
                ok = not loops_back
                reason = "the append can repeat without re-testing capacity" if loops_back else ""
            else:
                reason = f"no dominating test `{want}`; facts on all paths: {sorted(f for f in facts)[:6]}"
        chk.ob("C01.R1", f"growth of `{recv}.in_progress` ({kind}) is dominated by the capacity test on the same receiver", ok,
               m=mod, node=node, fn=fn, instance=f"grow:{kind}", reason=reason)
        if kind == "mutcall:append":
            call = parent(parent(node))
            if isinstance(call, ast.Call) and call.args and isinstance(call.args[0], ast.Call):
                wid = kwarg(call.args[0], "worker_id")
                if wid is not None:
                    appended_ids[id(fn)] = (wid, st)

    # ---------------------------------------------------------------- R2: id in [0,n) \ in-use  (finite, exhaustive)
    check_worker_id(chk, "C01.R2", appended_ids)

    # ---------------------------------------------------------------- R3: CommandRunWorker only for a live entry
    rw = []
    for mod in repo.by_rel.values():
        if not mod.name.startswith(PKG_PREFIX):
            continue
        for c in calls_named(mod.tree, "CommandRunWorker", shallow=False):
            fn = enclosing_function(c)
            if fn is not None:
                rw.append((mod, fn, c))
    chk.floor("C01.R3", "CommandRunWorker constructions", len(rw), 2)
    for mod, fn, c in rw:
        idv = kwarg(c, "id")
        cfg = CFG(fn)
        st = enclosing_stmt(c)
        ok, reason = False, ""
        # (a) same block as a guarded append using the same id expression
        sib = [s for s in ast.walk(fn) if isinstance(s, ast.Call) and last(call_name(s)) == "append" and isinstance(s.func, ast.Attribute)
               and isinstance(s.func.value, ast.Attribute) and s.func.value.attr == "in_progress"]
        for a in sib:
            if a.args and isinstance(a.args[0], ast.Call):
                w = kwarg(a.args[0], "worker_id")
                if w is not None and idv is not None and ast.unparse(w) == ast.unparse(idv):
                    an = cfg.nodes_of(enclosing_stmt(a))
                    cn = cfg.nodes_of(st)
                    # the append dominates the command: command unreachable when the append is blocked
                    if an and cn and all(x not in cfg.reach([cfg.entry], blocked=an) for x in cn):
                        ok = True
        # (b) re-use of an existing entry's id on a path on which the entry is not removed
        if not ok and idv is not None and isinstance(idv, ast.Attribute) and idv.attr == "worker_id":
            holder = ast.unparse(idv.value)
            removes = [n for n in ast.walk(fn) if isinstance(n, ast.Call) and isinstance(n.func, ast.Attribute) and n.func.attr in ("remove", "pop", "clear")
                       and isinstance(n.func.value, ast.Attribute) and n.func.value.attr == "in_progress"]
            src_def = expand(ast.Name(id=holder, ctx=ast.Load()), st)
            from_live = "in_progress" in ast.unparse(src_def)
            if not from_live and isinstance(idv.value, ast.Name):
                # looked up with a loop instead of next(...): the entry is drawn from in_progress by iteration
                from ..astx import dep_slice as _ds
                _sl = _ds(fn, idv.value.id)
                from_live = any(a.endswith(".in_progress") for a in _sl.attrs()) and not any(last(call_name(c_) or "") == "InProgressState" for c_ in _sl.calls())
            flag_ok = True
            for r in removes:
                rn = cfg.nodes_of(enclosing_stmt(r))
                cn = cfg.nodes_of(st)
                # path-sensitive on the monotone flag: the statement must assign a flag False which the removal tests
                flag_ok = flag_ok and _removal_excluded_by_flag(fn, st, r)
            ok = from_live and flag_ok
            reason = "" if ok else f"re-used id of `{holder}` but the entry can be removed on the same path (from_live={from_live}, flag={flag_ok})"
            # the slot of a live entry is free for a re-run only when the invocation occupying it has just reported: the entry
            # must be the one selected by the worker id of the step-result tick being reduced
            if ok:
                from ..astx import dep_slice
                result_ticks = [a.arg for a in fn.args.posonlyargs + fn.args.args + fn.args.kwonlyargs if a.annotation is not None and "TickStepResult" in ast.unparse(a.annotation)]
                sl = dep_slice(fn, idv.value) if not isinstance(idv.value, ast.Name) else dep_slice(fn, idv.value.id)
                finished = any(f"{t}.worker_id" in sl.attrs() for t in result_ticks)
                chk.ob("C01.R3", "an entry is re-run on its own slot only when it is the execution whose result is being reduced (its invocation has ended)", finished, m=mod, node=c, fn=fn,
                       instance=f"run-worker:slot-free:{ast.unparse(idv)}",
                       reason=f"`{holder}` is not selected by the worker id of a step-result tick ({'no TickStepResult parameter in ' + fn.name if not result_ticks else 'selection: ' + sl.text()[:160]}): "
                              f"its invocation may still be running, so the command starts a second invocation on an occupied slot (more than num_workers at once, invisible in in_progress)")
        elif not ok:
            reason = "id is neither the id of an entry appended on every path to this command nor the id of a live entry"
        chk.ob("C01.R3", "CommandRunWorker is issued only for an entry that is in progress with that id", ok, m=mod, node=c, fn=fn,
               instance=f"run-worker:{ast.unparse(idv) if idv is not None else '?'}", reason=reason)

    # a re-run re-binds the entry's snapshot; the staleness test that triggers the re-run must read the snapshot as it is *now*,
    # or a second stale buffer in the same tick re-runs the same entry again (two invocations on one slot, invisible in in_progress)
    from ..astx import stale_alias_reads
    _msr, _sr = repo.func(f"{CL}:_process_step_result_tick")
    _stale = stale_alias_reads(CFG(_sr), "shared_state")
    chk.ob("C01.R3", "the re-run of an entry is decided against the entry's current snapshot (no alias captured before the snapshot was refreshed)", not _stale, m=_msr,
           node=_stale[0][2] if _stale else _sr, fn=_sr, instance="run-worker:once-per-tick",
           reason=(f"`{ast.unparse(_stale[0][0])[:70]}` is read after `{ast.unparse(_stale[0][1])[:60]}`: the same entry can be re-run twice in one tick") if _stale else "")
    # ---------------------------------------------------------------- R4: who creates worker coroutines
    mr, runner = repo.cls(f"{CL}:_ControlLoopRunner")
    callers = []
    for mod in repo.by_rel.values():
        if not mod.name.startswith(PKG_PREFIX):
            continue
        for c in calls_named(mod.tree, "run_worker", shallow=False):
            if isinstance(c.func, ast.Attribute):
                callers.append((mod, enclosing_function(c), c))
    chk.floor("C01.R4", "callers of run_worker", len(callers), 1)
    for mod, fn, c in callers:
        cfg = CFG(fn)
        ok = False
        for n in cfg.nodes_of(enclosing_stmt(c)):
            for t, lab in cfg.guards(n):
                if t.kind == "test" and lab == "T" and "CommandRunWorker" in ast.unparse(t.ast.test) and "isinstance" in ast.unparse(t.ast.test):
                    ok = True
        chk.ob("C01.R4", "run_worker is called only under isinstance(command, CommandRunWorker)", ok, m=mod, node=c, fn=fn,
               instance="run_worker-caller", reason="call is not dominated by the CommandRunWorker dispatch test")
    # PendingWorker construction only inside run_worker
    pw = []
    for mod in repo.by_rel.values():
        if mod.name.startswith(PKG_PREFIX):
            for c in calls_named(mod.tree, "PendingWorker", shallow=False):
                fn = enclosing_function(c)
                if fn is not None and not _in_class(fn, "PendingWorker"):
                    pw.append((mod, fn, c))
    chk.floor("C01.R4", "PendingWorker constructions", len(pw), 1)
    for mod, fn, c in pw:
        ok = qualname_of(fn).endswith("_ControlLoopRunner.run_worker")
        chk.ob("C01.R4", "worker coroutines (PendingWorker) are created only by _ControlLoopRunner.run_worker", ok, m=mod, node=c, fn=fn,
               instance="pending-worker", reason=f"created in {qualname_of(fn)}")

    # ---------------------------------------------------------------- R5: drains pop only under capacity
    drains = 0
    for ref in (f"{CL}:_process_step_result_tick", f"{CL}:rewind_in_progress"):
        mod, fn = repo.func(ref)
        cfg = CFG(fn)
        for c in ast.walk(fn):
            if isinstance(c, ast.Call) and isinstance(c.func, ast.Attribute) and c.func.attr == "pop" and isinstance(c.func.value, ast.Attribute) and c.func.value.attr == "queue":
                drains += 1
                recv = ast.unparse(c.func.value.value)
                ok = False
                for n in cfg.nodes_of(enclosing_stmt(c)):
                    ok = has_fact(facts_at(cfg, n), f"len({recv}.in_progress) < {recv}.config.num_workers")
                chk.ob("C01.R5", f"`{recv}.queue.pop` (drain) happens only under the capacity test", ok, m=mod, node=c, fn=fn,
                       instance="drain", reason="queue element popped without a dominating capacity test")
    chk.floor("C01.R5", "drain loops", drains, 2)


def appended_worker_ids(repo) -> dict:
    """id(fn) -> (worker_id expression, statement) for every `X.in_progress.append(InProgressState(worker_id=…))`."""
    out = {}
    for mod in list(repo.by_rel.values()):
        if not mod.name.startswith(PKG_PREFIX):
            continue
        for node, kind in attr_writes(mod.tree, "in_progress"):
            fn = enclosing_function(node)
            if fn is None or kind != "mutcall:append":
                continue
            call = parent(parent(node))
            if isinstance(call, ast.Call) and call.args and isinstance(call.args[0], ast.Call):
                wid = kwarg(call.args[0], "worker_id")
                if wid is not None:
                    out[id(fn)] = (wid, enclosing_stmt(node))
    return out


def check_worker_id(chk, rule: str, appended_ids: dict | None = None) -> None:
    """The worker id given to a new in-progress entry is, for every in-use set and num_workers 1..4, in [0,n) and not in use."""
    repo = chk.repo
    appended_ids = appended_ids if appended_ids is not None else appended_worker_ids(repo)
    mm, add_fn = repo.func(f"{CL}:_add_or_enqueue_event")
    if id(add_fn) not in appended_ids:
        raise AnchorError(f"{rule}: `_add_or_enqueue_event` does not append an InProgressState(worker_id=…)")
    wid_expr, at_stmt = appended_ids[id(add_fn)]
    full = expand(wid_expr, at_stmt)
    state_param = add_fn.args.args[2].arg if len(add_fn.args.args) >= 3 else "state"
    cases = bad = 0
    sample = []
    reason = ""
    all_params = [a.arg for a in add_fn.args.posonlyargs + add_fn.args.args + add_fn.args.kwonlyargs]
    other_params = sorted({x.id for x in ast.walk(full) if isinstance(x, ast.Name) and x.id in all_params and x.id != state_param})
    try:
        for n in range(1, 5):
            for k in range(0, n):  # capacity test holds: fewer than n in progress
                for used in itertools.combinations(range(n), k):
                    st = Record("InternalStepWorkerState", in_progress=[Record("InProgressState", worker_id=u) for u in used],
                                config=Record("StepConfig", num_workers=n))
                    # other parameters the id expression reads (an id hint handed in by the caller, …): the function's contract
                    # is on the state alone, so the id must be free whatever such a parameter holds
                    for extra in itertools.product([None] + list(range(n)), repeat=len(other_params)):
                        env = {state_param: st, **dict(zip(other_params, extra))}
                        cases += 1
                        hint = f", {dict(zip(other_params, extra))}" if other_params else ""
                        try:
                            v = Interp(dict(env)).eval(full, dict(env))
                        except Raised as r:
                            bad += 1
                            reason = reason or f"num_workers={n}, in use {used}{hint}: raises {r}"
                            continue
                        if len(sample) < 4:
                            sample.append({"num_workers": n, "in_use": list(used), "id": v})
                        if not (isinstance(v, int) and 0 <= v < n and v not in used):
                            bad += 1
                            reason = reason or f"num_workers={n}, in use {used}{hint}: id expression gives {v!r}"
    except Unsupported as e:
        raise AnchorError(f"{rule}: id expression `{ast.unparse(full)[:80]}` uses an unsupported construct: {e}")
    chk.ob(rule, f"worker id `{ast.unparse(full)[:90]}` ∈ [0,n) \\ in-use for all {cases} (n, in-use) combinations, n=1..4", bad == 0,
           m=mm, node=wid_expr, fn=add_fn, instance="worker-id", reason=reason)
    chk.extra["id_enumeration"] = {"cases": cases, "bad": bad, "samples": sample}
    chk.exhaustive = True


def _in_class(fn: ast.AST, name: str) -> bool:
    p = parent(fn)
    return isinstance(p, ast.ClassDef) and p.name == name


def _removal_excluded_by_flag(fn: ast.AST, cmd_stmt: ast.AST, removal_call: ast.AST) -> bool:
    """The block holding the command assigns a boolean flag False, and the removal is guarded by that flag
    (monotone flag: initialised True, only ever re-assigned False)."""
    from ..astx import stmt_list_of

    locn = stmt_list_of(cmd_stmt)
    if locn is None:
        return False
    block, _i = locn
    flags = set()
    for s in block:
        if isinstance(s, ast.Assign) and len(s.targets) == 1 and isinstance(s.targets[0], ast.Name) and isinstance(s.value, ast.Constant) and s.value.value is False:
            flags.add(s.targets[0].id)
    if not flags:
        return False
    cfg = CFG(fn)
    rs = enclosing_stmt(removal_call)
    for n in cfg.nodes_of(rs):
        for t, lab in cfg.guards(n):
            if t.kind == "test" and lab == "T" and isinstance(t.ast.test, ast.Name) and t.ast.test.id in flags:
                name = t.ast.test.id
                # monotone: every assignment to the flag in fn is a constant, and only the initial one is True
                vals = [s.value.value for s in ast.walk(fn) if isinstance(s, ast.Assign) and len(s.targets) == 1 and isinstance(s.targets[0], ast.Name)
                        and s.targets[0].id == name and isinstance(s.value, ast.Constant)]
                allc = all(isinstance(s.value, ast.Constant) for s in ast.walk(fn) if isinstance(s, ast.Assign) and len(s.targets) == 1
                           and isinstance(s.targets[0], ast.Name) and s.targets[0].id == name)
                if allc and vals.count(True) <= 1:
                    return True
    return False


_P = "packages/llama-index-workflows/src/workflows/runtime/control_loop.py"
TWINS = [
    Twin("waiter replay re-runs a still-running execution on its own slot", _P, "                wait_condition.resolved_event = tick.event\n",
         "                wait_condition.resolved_event = tick.event\n                _running = next((w for w in state.workers[step_name].in_progress if w.event == wait_condition.event), None)\n"
         "                if _running is not None:\n                    commands.append(CommandRunWorker(step_name=step_name, event=_running.event, id=_running.worker_id))\n                    continue\n", "C01.R3"),
    Twin("benign: finished execution looked up with a loop", _P, "    this_execution = next(\n        (w for w in worker_state.in_progress if w.worker_id == tick.worker_id), None\n    )\n",
         "    this_execution = None\n    for _w in worker_state.in_progress:\n        if _w.worker_id == tick.worker_id:\n            this_execution = _w\n            break\n", None),
    Twin("sent snapshot hoisted out of the result loop", _P, *multi(_P, [("    output_event_name: str | None = None\n", "    output_event_name: str | None = None\n    _sent_state = this_execution.shared_state\n"), ("            sent_events = this_execution.shared_state.collected_events.get(\n                result.event_id, []\n            )", "            sent_events = _sent_state.collected_events.get(\n                result.event_id, []\n            )")]), "C01.R3"),
    Twin("capacity off by one", _P, "has_space = len(state.in_progress) < state.config.num_workers", "has_space = len(state.in_progress) <= state.config.num_workers", "C01.R1"),
    Twin("capacity test dropped", _P, "    if has_space:\n        # Assign the smallest", "    if True:\n        # Assign the smallest", "C01.R1"),
    Twin("id from length", _P, "id = id_candidates[0]", "id = len(state.in_progress)", "C01.R2"),
    Twin("id candidates ignore in-use", _P, "if i not in used]", "]", "C01.R2"),
    Twin("drain ignores capacity", _P, "            len(worker_state.queue) > 0\n            and len(worker_state.in_progress) < worker_state.config.num_workers", "            len(worker_state.queue) > 0", "C01.R5"),
    Twin("collect rerun also frees the slot", _P, "                step_no_longer_in_progress = False\n", "                pass\n", "C01.R3"),
    Twin("run worker for non-command", _P, "        elif isinstance(command, CommandRunWorker):\n            self.run_worker(command)", "        elif isinstance(command, (CommandRunWorker, CommandScheduleIdleCheck)):\n            self.run_worker(command)", None),
    Twin("benign: reversed comparison", _P, "has_space = len(state.in_progress) < state.config.num_workers", "has_space = state.config.num_workers > len(state.in_progress)", None),
    Twin("benign: inline guard", _P, "    if has_space:\n        # Assign the smallest", "    if not (len(state.in_progress) >= state.config.num_workers):\n        # Assign the smallest", None),
    Twin("benign: next() id", _P, "id = id_candidates[0]", "id = next(iter(id_candidates))", None),
    Twin("benign: min-difference id", _P, "id = id_candidates[0]", "id = min(set(range(state.config.num_workers)) - used)", None),
]
