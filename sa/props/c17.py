"""C17 — the client's auto-reconnecting event stream delivers each event once.

Decided (necessary conditions, all read from the syntax of client.py and _api.py):
  R1  framing agreement between the server's SSE frame templates and the client's line classifier
      (field prefixes, order id-before-data, slice offsets, line terminators, comment frames, and the
      line-boundary alphabet of the client's line source against the characters the payload writer leaves raw);
      plus an AST interpretation of the client's parser over frames instantiated from the server's template,
      with a connection drop at every character position (finite domain, enumerated exhaustively).
  R2  cursor def-use: the reconnect request resumes from the loop-carried cursor; the cursor advances only
      from a parsed id and only together with the hand-over of that event; EventStream publishes the
      sequence of an item before yielding it and nobody else writes it.
  R3  reconnect budget: the handler that reconnects covers mid-stream transport errors, tolerates
      `max_reconnect_attempts` consecutive drops, and leads back to a fresh request without touching the cursor.
  R4  server cursor chain: request parameter -> subscribe_events unchanged (the handler is interpreted for each kind of
      numeric cursor x store state; renamed locals / if-else vs conditional expression / split guards read alike; bindings
      on the copy chain that are not copies must sit under `<cursor> is None`); emitted id is the sequence of the
      stored event whose envelope is the payload of the same frame.
  R5  resume positions: the request inputs whose value flows into the server's replay cursor are inventoried from
      _stream_events (today: query `after_sequence`, header `last-event-id`, the header winning); every entry of the
      client's stream request (params / headers, through named mappings, in-place fills, update(), module constants)
      that the server reads as such a position must be the reader's cursor — the variable advanced when an event is
      queued — converted only by str/int/f"{}", and evaluated for this request (no cursor assignment on a path from its
      evaluation to the request that does not re-evaluate it).  The consumer-side cursor (EventStream's published
      attribute, advanced when the iterator yields), the initial position, a constant or a value computed once before
      the retry loop are violations: the server would replay events that are already queued.  Entries under names the
      server does not read into its cursor are ignored.
Not decided: default headers of a caller-supplied httpx client; what httpx does with the bytes of a dropped connection (trusted: a partial line is never yielded as a
line), the stores' `sequence > after` semantics (C16), asyncio.Queue being FIFO, timing.
"""

from __future__ import annotations

import ast
import copy
import importlib.util
import json
from pathlib import Path

from ..absint import Interp, Raised, Record, Unsupported, _Return
from ..astx import assigned_names, atoms, attr_writes, call_name, dotted, enclosing_stmt, expand, facts_at, has_fact, kwarg, last, reaching_def
from ..cfg import CFG
from ..index import AnchorError, FuncNode, enclosing_class, enclosing_function, parent, qualname_of
from ..selftest import Twin

EXPLANATION = (
    "Static necessary-condition rules for WorkflowClient.get_workflow_events / EventStream (client.py) against "
    "_WorkflowAPI._stream_events.format_stream and _resolve_event_stream (_api.py). "
    "R1 framing: every string the server yields in SSE mode is tokenised into lines and slots; the event frame must carry exactly one "
    "line the client classifies as its id field followed by one it classifies as its data field, each slot on one line, terminated; "
    "the client's slice offsets must equal the length of the prefix it tested; comment frames (heartbeat) must not be classified as a field; "
    "the characters the payload writer leaves unescaped must contain no character that the client's line source treats as a line boundary; "
    "and the client's parser AST is interpreted (no repo code is run) on frames instantiated from the server template for 3 event logs x every single "
    "drop position x representative double drops: the hand-over must be each later event exactly once, in order, each with its own sequence. "
    "Which field a statement of the line loop handles is read from path facts (the prefix test known true there), so if/elif arms and `continue` guards over literal or module-constant prefixes read alike. "
    "R2 cursor: the `after_sequence` request parameter is the loop-carried cursor itself (no arithmetic), assigned inside the line loop only from the parsed id (through temporaries of the loop, or kept) and "
    "on every path handed over (queue.put of an item carrying that cursor) before the next line is read; EventStream writes its published sequence from "
    "the queued item on every path from queue.get to yield and has no other writer. "
    "R3 budget: the first handler that covers a mid-stream transport error reconnects; its body, interpreted for max_reconnect_attempts 0..3, tolerates "
    "that many consecutive drops; the path back to the request writes neither the cursor nor the queue. "
    "R4 server chain: query parameter -> int -> _resolve_event_stream -> subscribe_events unchanged; the last link is decided by value, not by variable name: the handler's AST is interpreted (no repo code is run) "
    "for the numeric cursors -1, 0, 1, last, beyond-last over an empty, a live and a finished event log (store modelled as `sequence > after`), and whenever later events exist or can still arrive the sequence handed to "
    "subscribe_events must be exactly the number received (0 and -1 are numbers, not `now`); for numbers outside that domain every binding on the copy chain from the parameter to subscribe_events must be a plain copy or "
    "be made where the cursor is known to be None (`now`, whose resolution is C16's). The id slot is the stored event's sequence and the data slot "
    "the dump of the same stored event's envelope. "
    "R5 resume positions: the request inputs that flow (data dependence through locals of _stream_events; tests and comparisons are not followed) into the cursor handed to _resolve_event_stream are "
    "inventoried (query `after_sequence` and header `last-event-id` today); every entry of the `params=`/`headers=` mappings of the client's stream request (dict literals, `**` spreads, named mappings with "
    "their in-place fills and update() calls, module-level constants; `json=`/`data=`/`**kwargs`/a position inside the URL give an analysis error) whose name the server reads as a position (header names compared "
    "case-insensitively) must denote the reader's own cursor — the variable the reader advances when it queues an event — through str/int/f-string only and through temporaries, and must be evaluated for this request: "
    "on no CFG path from the statement that evaluates it to the request does the cursor move without the value being computed afresh. A position taken from the consumer-side cursor (the EventStream attribute its iterator "
    "writes when it yields, or the property returning it), from the initial position, a constant, or computed once before the retry loop makes the server replay events already queued (duplicates, out of order) and is reported; "
    "entries the server does not read into its cursor are not judged. "
    "NOT decided: default headers of a caller-supplied httpx client, byte-level behaviour of httpx on a dropped connection, store cursor semantics (C16), scheduling."
)
TRUSTED = [
    "CPython ast",
    "httpx.Response.aiter_lines yields only complete lines and splits like str.splitlines (read from the installed httpx source when present)",
    "pydantic model_dump_json escapes only C0 controls, quote and backslash; json.dumps default escapes all non-ASCII",
    "asyncio.Queue is FIFO",
    "stores deliver exactly the events with sequence > after_sequence, in order (C16)",
]
TECHNIQUE = "writer/reader template agreement + def-use/CFG must-pass + AST interpretation of the client parser over server frames with exhaustive drop points"

CLIENT = "llama_agents.client.client"
SERVER = "llama_agents.server._api"

SPLITLINES = "\n\r\x0b\x0c\x1c\x1d\x1e\x85\u2028\u2029"

# httpx exception hierarchy (trusted, names only): class -> ancestors
HTTPX_UP = {
    "ReadError": ["NetworkError", "TransportError", "RequestError", "HTTPError", "Exception", "BaseException"],
    "RemoteProtocolError": ["ProtocolError", "TransportError", "RequestError", "HTTPError", "Exception", "BaseException"],
    "ConnectError": ["NetworkError", "TransportError", "RequestError", "HTTPError", "Exception", "BaseException"],
}


# ============================================================================ small helpers


def _name_set(e: ast.AST) -> set[str]:
    return {n.id for n in ast.walk(e) if isinstance(n, ast.Name)}


def _handler_names(h: ast.ExceptHandler) -> list[str]:
    if h.type is None:
        return ["BaseException"]
    return [ast.unparse(e).split(".")[-1] for e in (h.type.elts if isinstance(h.type, ast.Tuple) else [h.type])]


def _covers(h: ast.ExceptHandler, exc: str) -> bool:
    names = _handler_names(h)
    return exc in names or any(a in names for a in HTTPX_UP.get(exc, []))


def _tokens(e: ast.AST, at: ast.AST, depth: int = 3) -> list[tuple[str, object]]:
    """A string-building expression as ('lit', text) / ('slot', expr) tokens."""
    if isinstance(e, ast.Constant) and isinstance(e.value, str):
        return [("lit", e.value)]
    if isinstance(e, ast.JoinedStr):
        out: list[tuple[str, object]] = []
        for v in e.values:
            if isinstance(v, ast.Constant):
                out.append(("lit", str(v.value)))
            else:
                if v.format_spec is not None or v.conversion not in (-1, ord("s")):
                    raise AnchorError(f"C17.R1: format spec / conversion in frame template `{ast.unparse(e)[:60]}` is not modelled")
                out.append(("slot", v.value))
        return out
    if isinstance(e, ast.BinOp) and isinstance(e.op, ast.Add):
        return _tokens(e.left, at, depth) + _tokens(e.right, at, depth)
    if isinstance(e, ast.Call) and call_name(e) == "str" and len(e.args) == 1:
        return [("slot", e.args[0])]
    if isinstance(e, ast.Name) and depth > 0:
        d = reaching_def(e.id, at)
        if d is not None and isinstance(d, (ast.JoinedStr, ast.BinOp)) or (isinstance(d, ast.Constant) and isinstance(d.value, str)):
            return _tokens(d, d, depth - 1)
        return [("slot", e)]
    raise AnchorError(f"C17.R1: cannot read `{ast.unparse(e)[:60]}` as a frame template")


def _binds(n, name: str) -> bool:
    """Does this CFG node (a simple statement, or the header of a compound one) bind ``name``?"""
    a = n.ast
    if a is None:
        return False
    if n.kind == "stmt" and not isinstance(a, (ast.If, ast.While, ast.For, ast.AsyncFor, ast.With, ast.AsyncWith, ast.Try, ast.Match)):
        return name in assigned_names(a)
    hdr: list[ast.AST] = []
    if isinstance(a, (ast.If, ast.While)):
        hdr = [a.test]
    elif isinstance(a, (ast.For, ast.AsyncFor)):
        hdr = [a.target, a.iter]
    elif isinstance(a, (ast.With, ast.AsyncWith)):
        hdr = [x for it in a.items for x in (it.context_expr, it.optional_vars) if x is not None]
    elif isinstance(a, ast.ExceptHandler):
        return a.name == name
    elif isinstance(a, ast.Match):
        hdr = [a.subject]
    elif isinstance(a, ast.match_case):
        return any(getattr(x, "name", None) == name or getattr(x, "rest", None) == name for x in ast.walk(a.pattern)) or (a.guard is not None and name in assigned_names(a.guard))
    else:
        return name in assigned_names(a)
    return any(name in assigned_names(h) for h in hdr)


def _path_defs(cfg: CFG, fn: ast.AST, name: str, use: ast.AST) -> list[tuple[ast.AST, set[tuple[str, bool]]]] | None:
    """Path-wise reaching definitions of the local ``name`` at the statement ``use``: the plain assignments
    `name = <expr>` from which the use is reached on some CFG path that passes no other binding of the name, each
    with the atomic facts of the branch edges that all such paths traverse between the definition and the use.
    None when this cannot be said: some path reaches the use without any binding (parameter, closure variable),
    a reaching binding is not a plain single-target assignment (loop target, `with … as`, augmented / unpacking
    assignment, walrus), or the name is declared nonlocal/global."""
    if any(isinstance(x, (ast.Nonlocal, ast.Global)) and name in x.names for x in ast.walk(fn)):
        return None
    starts = cfg.nodes_of(use)
    if not starts:
        return None
    found: list = []
    seen: set = set()
    stack = [p for st in starts for p in cfg.pred[st]]
    while stack:
        label, n = stack.pop()
        if n is cfg.entry:
            return None
        # a statement left through its exception edge has not (necessarily) completed its binding: look through it
        if _binds(n, name) and label not in ("exc", "cancel"):
            if n not in found:
                found.append(n)
            continue
        if n in seen:
            continue
        seen.add(n)
        stack.extend(cfg.pred[n])
    binders = [n for n in cfg.nodes if _binds(n, name)]
    out = []
    for n in found:
        a = n.ast
        plain = n.kind == "stmt" and ((isinstance(a, ast.Assign) and len(a.targets) == 1 and isinstance(a.targets[0], ast.Name) and a.targets[0].id == name)
                                      or (isinstance(a, ast.AnnAssign) and isinstance(a.target, ast.Name) and a.target.id == name and a.value is not None))
        if not plain:
            return None
        # branch edges that every binding-free path from this definition to the use traverses (`x = A` / `if c: x = B` / use:
        # the default reaches the use only over the false edge of `c`)
        facts: set[tuple[str, bool]] = set()
        through = cfg.reach([n], blocked=binders, include_starts=False)
        for t in through:
            if t.kind != "test":
                continue
            for label in ("T", "F"):
                r = cfg.reach([n], blocked=binders, blocked_edges=[(t, label)], include_starts=False)
                if not any(u in r for u in starts):
                    for variant in (t.ast.test, expand(t.ast.test, t.ast)):
                        facts.update(atoms(variant, label == "T"))
        out.append((a, facts))
    return sorted(out, key=lambda d: (d[0].lineno, d[0].col_offset)) or None


def _lines(tokens: list[tuple[str, object]]) -> tuple[list[list[tuple[str, object]]], bool]:
    lines: list[list[tuple[str, object]]] = [[]]
    for kind, v in tokens:
        if kind == "lit":
            for i, p in enumerate(str(v).split("\n")):
                if i > 0:
                    lines.append([])
                if p:
                    lines[-1].append(("lit", p))
        else:
            lines[-1].append((kind, v))
    terminated = lines[-1] == []
    if terminated:
        lines.pop()
    return lines, terminated


def _head(line: list[tuple[str, object]]) -> str:
    return str(line[0][1]) if line and line[0][0] == "lit" else ""


def _httpx_newlines() -> tuple[str, str]:
    """Line-boundary alphabet of httpx's LineDecoder, read from the installed source (AST, not imported)."""
    try:
        spec = importlib.util.find_spec("httpx")
        if spec and spec.submodule_search_locations:
            p = Path(list(spec.submodule_search_locations)[0]) / "_decoders.py"
            tree = ast.parse(p.read_text(encoding="utf-8"))
            for n in ast.walk(tree):
                if isinstance(n, ast.ClassDef) and n.name == "LineDecoder":
                    for a in ast.walk(n):
                        if isinstance(a, ast.Assign) and any(isinstance(t, ast.Name) and "NEWLINE" in t.id for t in a.targets) and isinstance(a.value, ast.Constant) and isinstance(a.value.value, str):
                            return a.value.value, f"read from {p.name} of the installed httpx"
                    if any(isinstance(a, ast.Attribute) and a.attr == "splitlines" for a in ast.walk(n)):
                        return SPLITLINES, f"{p.name}: LineDecoder uses str.splitlines"
    except Exception:
        pass
    return SPLITLINES, "httpx source not available; documented behaviour (str.splitlines) assumed"


def _helper_newlines(helper: ast.AST) -> tuple[str, str]:
    """Line-boundary alphabet of a line-splitting helper: the separator constants it splits on."""
    if any(isinstance(a, ast.Attribute) and a.attr == "splitlines" for a in ast.walk(helper)):
        return SPLITLINES, f"{helper.name} uses str.splitlines"
    seps: set[str] = set()
    for n in ast.walk(helper):
        if isinstance(n, ast.Call) and isinstance(n.func, ast.Attribute) and n.func.attr in ("split", "rsplit", "partition", "rpartition", "find", "index") and n.args and isinstance(n.args[0], ast.Constant):
            seps.add(n.args[0].value.decode("latin-1") if isinstance(n.args[0].value, bytes) else str(n.args[0].value))
        if isinstance(n, ast.Compare) and len(n.ops) == 1 and isinstance(n.ops[0], (ast.In, ast.NotIn)) and isinstance(n.left, ast.Constant) and isinstance(n.left.value, (str, bytes)):
            seps.add(n.left.value.decode("latin-1") if isinstance(n.left.value, bytes) else n.left.value)
    if not seps or any(len(x) > 2 for x in seps):
        raise AnchorError(f"C17.R1: cannot read the separators of line helper `{helper.name}` (found {sorted(seps)})")
    return "".join(sorted(set("".join(seps)))), f"{helper.name} splits on {sorted(seps)!r} (assumed: it yields only completed lines)"


# ============================================================================ binding: client


class _Client:
    pass


def _bind_client(repo) -> _Client:
    c = _Client()
    c.m = m = repo.module(CLIENT)
    _, gwe = repo.func(f"{CLIENT}:WorkflowClient.get_workflow_events")
    c.gwe = gwe
    withs = [n for n in ast.walk(gwe) if isinstance(n, (ast.AsyncWith, ast.With)) and any(isinstance(i.context_expr, ast.Call) and isinstance(i.context_expr.func, ast.Attribute) and i.context_expr.func.attr == "stream" for i in n.items)]
    if len(withs) != 1:
        raise AnchorError(f"C17: expected one `async with <client>.stream(...)` in get_workflow_events, found {len(withs)}")
    c.stream_with = sw = withs[0]
    item = next(i for i in sw.items if isinstance(i.context_expr, ast.Call) and getattr(i.context_expr.func, "attr", "") == "stream")
    c.stream_call = item.context_expr
    if not isinstance(item.optional_vars, ast.Name):
        raise AnchorError("C17: the streamed response is not bound to a name")
    c.resp = item.optional_vars.id
    c.reader = enclosing_function(sw)
    if c.reader is None:
        raise AnchorError("C17: stream request is not inside a function")
    # request parameter
    params = kwarg(c.stream_call, "params")
    if isinstance(params, ast.Name):
        params = reaching_def(params.id, sw)
    if not isinstance(params, ast.Dict):
        raise AnchorError("C17.R2: `params=` of the stream request is not a dict literal")
    c.after_expr = None
    for k, v in zip(params.keys, params.values):
        if isinstance(k, ast.Constant) and k.value == "after_sequence":
            c.after_expr = v
    if c.after_expr is None:
        raise AnchorError("C17.R2: the stream request passes no `after_sequence` parameter")
    # line loop: over httpx's aiter_lines(), or over a line-splitting helper of the client module (one call deep)
    loops = []
    for n in ast.walk(sw):
        if isinstance(n, (ast.AsyncFor, ast.For)) and isinstance(n.iter, ast.Call):
            ln = last(call_name(n.iter))
            if ln in ("aiter_lines", "iter_lines"):
                loops.append((n, ln, None))
            else:
                helper = next((f for q, f in m.functions.items() if q.rsplit(".", 1)[-1] == ln and any(isinstance(x, ast.Call) and last(call_name(x)) in ("aiter_text", "aiter_bytes", "aiter_raw", "iter_text") for x in ast.walk(f))), None)
                if helper is not None:
                    loops.append((n, ln, helper))
    if len(loops) != 1:
        other = [ast.unparse(n.iter)[:50] for n in ast.walk(sw) if isinstance(n, (ast.AsyncFor, ast.For))]
        raise AnchorError(f"C17.R1: expected one loop over <response>.aiter_lines() or a line-splitting helper in the reader, found {len(loops)} (loops: {other})")
    c.loop, c.line_source, c.line_helper = loops[0]
    loop = c.loop
    if not isinstance(loop.target, ast.Name):
        raise AnchorError("C17.R1: line loop target is not a name")
    c.line = loop.target.id
    # aliases of the line (line.strip())
    c.aliases = {c.line}
    for s in ast.walk(loop):
        if isinstance(s, ast.Assign) and len(s.targets) == 1 and isinstance(s.targets[0], ast.Name) and _name_set(s.value) <= c.aliases and _name_set(s.value):
            v = s.value
            if isinstance(v, ast.Call) and isinstance(v.func, ast.Attribute) and v.func.attr in ("strip", "rstrip", "lstrip") and dotted(v.func.value) in c.aliases:
                c.aliases.add(s.targets[0].id)
    # prefix tests: <alias>.startswith(<string literal or module-level string constant>) anywhere in the line loop
    c.prefix_tests = []  # (prefix, startswith call, base name)
    c.prefix_atoms = {}  # normalised atom text of the test -> prefix
    for t in ast.walk(loop):
        if isinstance(t, ast.Call) and isinstance(t.func, ast.Attribute) and t.func.attr == "startswith" and dotted(t.func.value) in c.aliases and len(t.args) == 1:
            pv = _const_str(c, t.args[0])
            if pv is not None:
                c.prefix_tests.append((pv, t, dotted(t.func.value)))
                c.prefix_atoms[atoms(t, True)[0][0]] = pv
    c.cfg = CFG(c.reader)
    c.branch_cache = {}
    # enqueue of an event: <q>.put(<Cls>(sequence=..., event=...)); the item may be built into a local first
    c.puts = []
    c.items = {}  # id(put call) -> the item constructor call
    for n in ast.walk(loop):
        if isinstance(n, ast.Call) and isinstance(n.func, ast.Attribute) and n.func.attr in ("put", "put_nowait") and n.args:
            item = n.args[0]
            if isinstance(item, ast.Name):
                item = reaching_def(item.id, n)
            if isinstance(item, ast.Call) and kwarg(item, "sequence") is not None:
                c.puts.append(n)
                c.items[id(n)] = item
    if not c.puts:
        raise AnchorError("C17.R2: no `<queue>.put(<Item>(sequence=…, …))` inside the line loop")
    c.event_cls = call_name(c.items[id(c.puts[0])])
    c.queue = dotted(c.puts[0].func.value)
    return c


def _module_consts(m) -> dict[str, object]:
    """Module-level names bound exactly once to a str/int literal."""
    seen: dict[str, list] = {}
    for st in m.tree.body:
        tg = st.targets if isinstance(st, ast.Assign) else [st.target] if isinstance(st, ast.AnnAssign) and st.value is not None else []
        for t in tg:
            if isinstance(t, ast.Name):
                seen.setdefault(t.id, []).append(st.value)
    return {k: v[0].value for k, v in seen.items() if len(v) == 1 and isinstance(v[0], ast.Constant) and isinstance(v[0].value, (str, int)) and not isinstance(v[0].value, bool)}


def _const_str(c: _Client, e: ast.AST) -> str | None:
    """A string literal, or a module-level string constant that the enclosing functions do not rebind."""
    if isinstance(e, ast.Constant) and isinstance(e.value, str):
        return e.value
    if isinstance(e, ast.Name):
        if not hasattr(c, "consts"):
            c.consts = _module_consts(c.m)
            c.local_names = {n.id for n in ast.walk(c.gwe) if isinstance(n, ast.Name) and isinstance(n.ctx, ast.Store)} | {a.arg for f in ast.walk(c.gwe) if isinstance(f, FuncNode) for a in f.args.args + f.args.kwonlyargs}
        v = c.consts.get(e.id)
        if isinstance(v, str) and e.id not in c.local_names:
            return v
    return None


def _branch_of(c: _Client, node: ast.AST) -> str | None:
    """The field prefix the current line is known to start with where `node` executes: path facts (dominating branch
    edges of the reader's CFG, so `if p: …`, `elif`, `if not p: continue` and a local holding the test all read alike).
    When several prefix tests are known true the longest (most specific) prefix is the branch."""
    st = node if isinstance(node, ast.stmt) else enclosing_stmt(node)
    if id(st) not in c.branch_cache:
        ns = c.cfg.nodes_of(st)
        known = None
        for n in ns:
            f = {c.prefix_atoms[t] for t, pol in facts_at(c.cfg, n) if pol and t in c.prefix_atoms}
            known = f if known is None else known & f
        c.branch_cache[id(st)] = max(known, key=len) if known else None
    return c.branch_cache[id(st)]


# ============================================================================ binding: server


class _Server:
    pass


def _bind_server(repo) -> _Server:
    s = _Server()
    s.m = m = repo.module(SERVER)
    _, se = repo.func(f"{SERVER}:_WorkflowAPI._stream_events")
    s.stream_events = se
    # the mode flag: local assigned from the "sse" query parameter
    flag = None
    for a in ast.walk(se):
        if isinstance(a, ast.Assign) and len(a.targets) == 1 and isinstance(a.targets[0], ast.Name) and any(isinstance(k, ast.Constant) and k.value == "sse" for k in ast.walk(a.value)):
            flag = a.targets[0].id
    if flag is None:
        raise AnchorError("C17.R1: `_stream_events` reads no `sse` query parameter")
    s.flag = flag
    # yields of strings, in generator functions nested in _stream_events
    s.yields = []  # (fn, yield node, tokens, mode, node where the template is evaluated) mode in sse|plain|both
    for fn in ast.walk(se):
        if not isinstance(fn, FuncNode) or fn is se:
            continue
        ys = [n for n in ast.walk(fn) if isinstance(n, ast.Yield) and enclosing_function(n) is fn and n.value is not None]
        if not ys:
            continue
        cfg = CFG(fn)
        flag_rebound = flag in assigned_names(fn)

        def polarity(st: ast.AST) -> set[bool]:
            return {pol for n in cfg.nodes_of(st) for pol in (True, False) if (flag, pol) in facts_at(cfg, n)}

        for y in ys:
            st = enclosing_stmt(y)
            # where the frame text is put together: the yield itself, or — when a local is yielded that the branches before it
            # bind differently (`if sse: frame = … else: frame = …; yield frame`) — every definition that reaches the yield
            sites: list[tuple[ast.AST, ast.AST, set]] = [(y.value, y, set())]
            if isinstance(y.value, ast.Name) and reaching_def(y.value.id, y) is None:
                defs = _path_defs(cfg, fn, y.value.id, st)
                if defs is not None:
                    sites = [(d.value, d, facts) for d, facts in defs]
            for expr, at, between in sites:
                try:
                    toks = _tokens(expr, at)
                except AnchorError:
                    if isinstance(expr, (ast.Tuple,)):
                        continue
                    raise
                pols = polarity(st) | (polarity(at) if at is not y else set()) | {pol for pol in (True, False) if (flag, pol) in between}
                if pols and flag_rebound:
                    raise AnchorError(f"C17.R1: the mode flag `{flag}` is rebound inside the frame generator; the mode of `{ast.unparse(expr)[:40]}` cannot be decided")
                if len(pols) == 2:
                    continue  # bound under one mode, yielded under the other: no run takes this path
                mode = "both" if not pols else "sse" if True in pols else "plain"
                s.yields.append((fn, y, toks, mode, at))
    s.sse = [(fn, y, t, at) for fn, y, t, mode, at in s.yields if mode in ("sse", "both")]
    return s


# ============================================================================ simulation (AST interpretation of the client's parser)


class _Drop(Exception):
    pass


def _strip(n):
    """Copy of an AST without parent links in which `await x` is x and `async for` is `for`
    (context-manager effects are not modelled)."""
    if isinstance(n, list):
        return [_strip(x) for x in n]
    if not isinstance(n, ast.AST):
        return n
    if isinstance(n, ast.Await):
        return _strip(n.value)
    cls = ast.For if isinstance(n, ast.AsyncFor) else type(n)
    new = cls(**{f: _strip(getattr(n, f, None)) for f in n._fields})
    for a in ("lineno", "col_offset", "end_lineno", "end_col_offset"):
        if hasattr(n, a):
            setattr(new, a, getattr(n, a))
    return new


class _Sim(Interp):
    def __init__(self, env, client: _Client, lines_fn, deliver):
        super().__init__(env)
        self.c = client
        self.lines_fn = lines_fn
        self.deliver = deliver
        self.fields = {}
        for q, cls in client.m.classes.items():
            self.fields[q] = [b.target.id for b in cls.body if isinstance(b, ast.AnnAssign) and isinstance(b.target, ast.Name)]

    def e_Call(self, e, env):
        name = call_name(e) or ""
        ln = last(name)
        if ln in ("aiter_lines", "iter_lines") or ln == self.c.line_source:
            return self.lines_fn()
        if ln in ("put", "put_nowait") and dotted(getattr(e.func, "value", None)) == self.c.queue:
            self.deliver(self.eval(e.args[0], env))
            return None
        if ln in ("model_validate_json", "model_validate", "loads"):
            txt = self.eval(e.args[0], env)
            try:
                json.loads(txt)
            except (TypeError, ValueError) as x:
                raise Raised("ValidationError", f"invalid JSON {str(txt)[:40]!r}: {x}")
            return ("EVENT", txt)
        if ln in ("_raise_for_status_with_body", "raise_for_status"):
            return None
        if name in self.fields:
            args = [self.eval(a, env) for a in e.args]
            kw = {k.arg: self.eval(k.value, env) for k in e.keywords if k.arg}
            return Record(name, **{**dict(zip(self.fields[name], args)), **kw})
        return super().e_Call(e, env)


def _simulate(c: _Client, frames_fn, events: list[tuple[int, str]], cursor0: int, cuts: list[int | None], boundaries: str) -> tuple[list[tuple[object, object]], str | None]:
    """Interpret the reader's per-connection body over the frame text the server template yields.
    cuts[i] = number of characters of connection i that arrive before the connection drops (None: no drop)."""
    if not hasattr(c, "sim_body"):
        c.sim_body = _strip(c.stream_with.body)
    body = c.sim_body
    delivered: list[Record] = []
    env: dict = {**_module_consts(c.m), c.queue: Record("Queue"), "httpx": Record("httpx"), "asyncio": Record("asyncio")}
    # parameters of get_workflow_events, then the reader's straight-line prologue (cursor initialisation …)
    a = c.gwe.args
    for p in a.args + a.kwonlyargs:
        env[p.arg] = "h" if p.arg == "handler_id" else False
    env["after_sequence"] = cursor0
    env["max_reconnect_attempts"] = 3
    itp = _Sim(env, c, None, delivered.append)
    for st in c.reader.body:
        if isinstance(st, (ast.Assign, ast.AnnAssign)):
            try:
                itp.exec(st, env)
            except Unsupported:
                pass
    conn = 0
    while True:
        if conn > len(cuts) + 1:
            return [], "no progress"
        after_txt = itp.eval(c.after_expr, env)
        try:
            after = int(after_txt)
        except (TypeError, ValueError):
            return [], f"request parameter {after_txt!r} is not a number"
        text = frames_fn([(s, p) for s, p in events if s > after])
        cut = cuts[conn] if conn < len(cuts) else None
        if cut is not None and cut > len(text):
            cut = None
        got = text if cut is None else text[:cut]
        parts = _splitlines(got, boundaries)

        def lines_fn(parts=parts, cut=cut):
            for ln, complete in parts:
                if complete or cut is None:
                    yield ln
            if cut is not None:
                raise _Drop()

        itp.lines_fn = lines_fn
        env[c.resp] = Record("Response", status_code=200)
        conn += 1
        try:
            itp.exec_block(body, env)
        except _Drop:
            continue
        except _Return:
            break
        except Raised as r:
            return [(getattr(d, "sequence", None), getattr(d, "event", None)) for d in delivered if d._cls == c.event_cls], f"reader raises {r}"
        break
    out = [(getattr(d, "sequence", None), getattr(d, "event", None)) for d in delivered if d._cls == c.event_cls]
    return out, None


def _splitlines(text: str, boundaries: str) -> list[tuple[str, bool]]:
    out, cur = [], []
    i = 0
    while i < len(text):
        ch = text[i]
        if ch in boundaries:
            if ch == "\r" and i + 1 < len(text) and text[i + 1] == "\n":
                i += 1
            out.append(("".join(cur), True))
            cur = []
        else:
            cur.append(ch)
        i += 1
    if cur:
        out.append(("".join(cur), False))
    return out


# ============================================================================ the check


def run(chk) -> None:
    repo = chk.repo
    c = _bind_client(repo)
    s = _bind_server(repo)
    m, sm = c.m, s.m
    chk.note_fn(m, c.reader)

    # ------------------------------------------------------------------ R1 framing agreement
    chk.floor("C17.R1", "string yields of the server in SSE mode", len(s.sse), 2)
    roles = sorted({p for p, _i, _b in c.prefix_tests})
    chk.floor("C17.R1", "field prefixes the client's line classifier tests", len(roles), 2)
    # which prefix is the id field / the data field (by what the branch does)
    id_prefix = data_prefix = None
    for p in c.puts:
        data_prefix = _branch_of(c, p) or data_prefix
    if data_prefix is None:
        raise AnchorError("C17.R1: no prefix branch of the line classifier hands an event over")
    # cursor variable (needed to find the id variable)
    cur_names = _name_set(c.after_expr) - {"str", "int", "repr", "format"}
    if len(cur_names) != 1:
        raise AnchorError(f"C17.R2: cannot identify the cursor in `{ast.unparse(c.after_expr)}`")
    V = next(iter(cur_names))
    seq_kw = kwarg(c.items[id(c.puts[0])], "sequence")
    cursor_assigns_in_loop = [a for a in ast.walk(c.loop) if isinstance(a, (ast.Assign, ast.AnnAssign)) and any(isinstance(t, ast.Name) and t.id == V for t in (a.targets if isinstance(a, ast.Assign) else [a.target]))]
    # the variable holding the parsed id: what the queued item's sequence is computed from (through locals of the loop,
    # stopping at the line itself)
    loop_assigns = [a for a in ast.walk(c.loop) if isinstance(a, (ast.Assign, ast.AnnAssign)) and a.value is not None]
    seq_src = _name_set(seq_kw) - {"int", "str"}
    grew = True
    while grew:
        grew = False
        for a in loop_assigns:
            if any(isinstance(t, ast.Name) and t.id in seq_src and t.id not in c.aliases for t in (a.targets if isinstance(a, ast.Assign) else [a.target])):
                more = (_name_set(a.value) - {"int", "str"}) - seq_src
                if more:
                    seq_src, grew = seq_src | more, True
    id_vars = set()
    for a in loop_assigns:
        if isinstance(a, ast.Assign) and any(isinstance(t, ast.Name) and t.id in seq_src for t in a.targets) and _name_set(a.value) & c.aliases:
            br = _branch_of(c, a)
            if br is not None and br != data_prefix:
                id_prefix = br
                id_vars |= {t.id for t in a.targets if isinstance(t, ast.Name)}
    if id_prefix is None:
        # the sequence may be parsed directly in the data branch from a remembered line … not an idiom we know
        chk.ob("C17.R1", "the client has a branch that records the id field of a frame", False, m=m, node=c.loop, fn=c.reader, instance="id-branch",
               reason=f"no prefix branch assigns a variable ({sorted(seq_src)}) that the event's sequence is computed from")
    chk.extra["client_fields"] = {"id": id_prefix, "data": data_prefix, "line_source": c.line_source}

    # (a) slice offsets equal the tested prefix
    nslices = 0
    for sub in ast.walk(c.loop):
        if isinstance(sub, ast.Subscript) and dotted(sub.value) in c.aliases and isinstance(sub.slice, ast.Slice):
            prefix = _branch_of(c, sub)
            if prefix is None:
                continue
            lo = sub.slice.lower
            val = None
            if isinstance(lo, ast.Constant) and isinstance(lo.value, int):
                val = lo.value
            elif isinstance(lo, ast.Name) and _const_str(c, lo) is None and isinstance(c.consts.get(lo.id), int) and lo.id not in c.local_names:
                val = c.consts[lo.id]
            elif isinstance(lo, ast.Call) and call_name(lo) == "len" and len(lo.args) == 1 and _const_str(c, lo.args[0]) is not None:
                val = len(_const_str(c, lo.args[0]))
            if val is None or sub.slice.upper is not None:
                raise AnchorError(f"C17.R1: slice `{ast.unparse(sub)}` in the `{prefix}` branch is not a constant prefix cut")
            nslices += 1
            chk.ob("C17.R1", f"the `{prefix}` branch cuts exactly the prefix it tested (`{ast.unparse(sub)}`, len({prefix!r}) = {len(prefix)})", val == len(prefix),
                   m=m, node=sub, fn=c.reader, instance=f"slice:{prefix}", reason=f"offset {val} != {len(prefix)}: the value keeps or loses characters, so the id does not parse / the payload is damaged")
    chk.extra["prefix_slices"] = nslices

    # (b) classify server lines with the client's own prefixes
    def classify(line) -> str | None:
        if not line:
            return None  # blank line
        if line[0][0] != "lit":
            return "?slot-first"
        h = _head(line).strip()
        for p in roles:
            if h.startswith(p):
                return p
        return None

    event_frames = []
    for fn, y, toks, at in s.sse:
        lines, terminated = _lines(toks)
        shown = y.value if at is y else at.value
        has_slot = any(k == "slot" for k, _v in toks)
        kinds = [classify(l) for l in lines]
        if "?slot-first" in kinds:
            raise AnchorError(f"C17.R1: a server line starts with a computed value (`{ast.unparse(shown)[:60]}`), field cannot be decided")
        if not has_slot:
            bad = [k for k, l in zip(kinds, lines) if k is not None and l]
            chk.ob("C17.R1", f"constant SSE frame `{ast.unparse(shown)[:40]}` (keep-alive/comment) is not classified as a field by the client and ends with a line terminator", not bad and terminated,
                   m=sm, node=y, fn=fn, instance="comment-frame", reason=f"client would treat it as field {bad}" if bad else "frame is not newline-terminated: it merges with the next frame's first line")
            continue
        event_frames.append((fn, y, toks, lines, kinds, terminated, at))
    if len(event_frames) != 1:
        raise AnchorError(f"C17.R1: expected exactly one slotted SSE frame template in _stream_events, found {len(event_frames)}")
    fn, y, toks, lines, kinds, terminated, frame_at = event_frames[0]
    s.frame_fn, s.frame_yield = fn, y
    idx_id = [i for i, k in enumerate(kinds) if k == id_prefix and id_prefix is not None]
    idx_data = [i for i, k in enumerate(kinds) if k == data_prefix]
    ok = len(idx_id) == 1 and len(idx_data) == 1 and idx_id[0] < idx_data[0]
    chk.ob("C17.R1", f"the event frame carries one `{id_prefix}` line followed by one `{data_prefix}` line (the client dispatches on the data line and uses the id seen before it)", ok,
           m=sm, node=y, fn=fn, instance="frame-order", reason=f"lines classified by the client's prefixes: {kinds}")
    chk.ob("C17.R1", "the event frame ends with a line terminator, so the data line is complete when the frame has been sent", terminated, m=sm, node=y, fn=fn,
           instance="frame-terminated", reason="no trailing newline: the client sees the data line only when the next frame arrives")
    id_slot = data_slot = None
    if ok:
        for role, i in (("id", idx_id[0]), ("data", idx_data[0])):
            line = lines[i]
            slots = [v for k, v in line if k == "slot"]
            prefix = id_prefix if role == "id" else data_prefix
            lit_rest = _head(line).strip()[len(prefix):] + "".join(str(v) for k, v in line[1:] if k == "lit")
            good = len(slots) == 1 and lit_rest.strip() == ""
            chk.ob("C17.R1", f"the `{prefix}` line is the prefix, optional blanks and one value slot (`{ast.unparse(slots[0]) if slots else '-'}`)", good, m=sm, node=y, fn=fn,
                   instance=f"line:{role}", reason=f"{len(slots)} slots, extra literal text {lit_rest!r}: after the client's cut and strip the value is not the bare id / payload")
            if good:
                if role == "id":
                    id_slot = slots[0]
                else:
                    data_slot = slots[0]
    if id_slot is None or data_slot is None:
        return  # frame shape already reported; the remaining rules need the slots

    # (c) line-boundary alphabet: characters the payload writer leaves raw vs boundaries of the client's line source
    pay = expand(data_slot, frame_at)  # (the slots are read where the template is evaluated, not where the text is yielded)
    pcalls = [n for n in ast.walk(pay) if isinstance(n, ast.Call)]
    writer = None
    for n in pcalls:
        ln = last(call_name(n))
        if ln == "model_dump_json":
            ea = kwarg(n, "ensure_ascii")
            if kwarg(n, "indent") is not None and not (isinstance(kwarg(n, "indent"), ast.Constant) and kwarg(n, "indent").value is None):
                writer = ("pydantic-json-indented", "\n\x85\u2028\u2029")
            elif isinstance(ea, ast.Constant) and ea.value is True:
                writer = ("pydantic-json-ascii", "")
            else:
                writer = ("pydantic-json", "\x85\u2028\u2029")
            break
        if ln == "dumps":
            ea = kwarg(n, "ensure_ascii")
            ind = kwarg(n, "indent")
            raw = "" if not (isinstance(ea, ast.Constant) and ea.value is False) else "\x85\u2028\u2029"
            if ind is not None and not (isinstance(ind, ast.Constant) and ind.value is None):
                raw += "\n"
            writer = ("json.dumps", raw)
            break
    if writer is None:
        raise AnchorError(f"C17.R1: payload producer `{ast.unparse(pay)[:70]}` is not a JSON writer this rule knows")
    # escapes applied on top of the writer: <json>.translate(TABLE) / .replace("c", "\\uXXXX")
    escaped: set[str] = set()
    for n in pcalls:
        if isinstance(n.func, ast.Attribute) and n.func.attr == "translate" and len(n.args) == 1:
            tbl = n.args[0]
            if isinstance(tbl, ast.Name):
                tbl = next((a.value for a in sm.tree.body if isinstance(a, (ast.Assign, ast.AnnAssign)) and a.value is not None and any(isinstance(t, ast.Name) and t.id == tbl.id for t in (a.targets if isinstance(a, ast.Assign) else [a.target]))), None)
            if not isinstance(tbl, ast.Dict):
                raise AnchorError("C17.R1: translate() table of the payload is not a dict literal")
            for k, v in zip(tbl.keys, tbl.values):
                ch = chr(k.value) if isinstance(k, ast.Constant) and isinstance(k.value, int) else k.value if isinstance(k, ast.Constant) and isinstance(k.value, str) and len(k.value) == 1 else None
                if ch is None or not (isinstance(v, ast.Constant) and isinstance(v.value, str)):
                    raise AnchorError("C17.R1: translate() table entry is not `char: string`")
                if not set(v.value) & set(SPLITLINES):
                    escaped.add(ch)
        if isinstance(n.func, ast.Attribute) and n.func.attr == "replace" and len(n.args) == 2 and all(isinstance(a, ast.Constant) and isinstance(a.value, str) for a in n.args):
            if len(n.args[0].value) == 1 and not set(n.args[1].value) & set(SPLITLINES):
                escaped.add(n.args[0].value)
    if escaped:
        writer = (writer[0] + " + escapes " + ",".join(f"U+{ord(ch):04X}" for ch in sorted(escaped)), "".join(ch for ch in writer[1] if ch not in escaped))
    boundaries, how = _httpx_newlines() if c.line_helper is None else _helper_newlines(c.line_helper)
    chk.ob("C17.R1", f"the payload writer ({writer[0]}) emits the payload on one line (no indentation requested)", "\n" not in writer[1], m=sm, node=y, fn=fn, instance="payload-single-line",
           reason="an indented JSON document spans several lines; the client parses the first `data:` line alone")
    clash = sorted((set(writer[1]) - {"\n"}) & set(boundaries))

    # frame text from the template
    def frames_fn(evs, hb=True):
        out = []
        comments = ["".join(str(v) for _k, v in t) for _f, _y, t, _at in s.sse if not any(k == "slot" for k, _v in t)]
        for seq, payload in evs:
            if hb:
                out.extend(comments)
            for k, v in toks:
                out.append(str(v) if k == "lit" else (str(seq) if v is id_slot else payload if v is data_slot else "?"))
        if hb:
            out.extend(comments)
        return "".join(out)

    demo = ""
    if clash:
        evs = [(0, '{"value":{"msg":"a"}}'), (1, '{"value":{"msg":"one' + clash[-1] + 'two"}}'), (2, '{"value":{"msg":"c"}}')]
        try:
            got, err = _simulate(c, frames_fn, evs, -1, [], boundaries)
            demo = f"; interpreting the client's parser on 3 frames whose 2nd payload contains U+{ord(clash[-1]):04X}: handed over sequences {[g[0] for g in got]}, {err or 'payload split: ' + repr([g[1] for g in got][1:2])}"
        except (Unsupported, AnchorError) as e:
            demo = f"; (demonstration not available: {e})"
    chk.ob("C17.R1", f"no character that the payload writer ({writer[0]}) leaves unescaped is a line boundary for the client's line source ({c.line_source}: {how})", not clash,
           m=sm, node=data_slot if hasattr(data_slot, "lineno") else y, fn=fn, instance="line-boundary-alphabet",
           reason="raw in the payload and a line boundary for the reader: " + ", ".join(f"U+{ord(ch):04X}" for ch in clash) + " — the data line is split, the JSON fragment fails to parse and the stream ends with an error instead of delivering the event" + demo)

    # (d) interpretation of the client's parser over server frames, drop at every position
    logs = [
        ([(0, '{"value":{"msg":"a"},"type":"Event"}'), (1, '{"value":{"msg":"id: 99 data: {}"},"type":"Event"}'), (2, '{"value":{},"type":"StopEvent"}')], -1),
        ([(3, '{"v":1}'), (5, '{"v":"data: x"}'), (6, '{"v":3}'), (9, '{"v":4}')], 3),
        ([(0, '{"v":0}'), (1, '{"v":1}')], 1),
    ]
    sims = bad = 0
    first_bad = ""
    try:
        for evs, cur0 in logs:
            want = [(sq, ("EVENT", p)) for sq, p in evs if sq > cur0]
            full = frames_fn([(sq, p) for sq, p in evs if sq > cur0])
            plans: list[list[int | None]] = [[]] + [[k] for k in range(len(full) + 1)]
            rep = _rep_points(full)[:10]
            for k1 in rep:
                for k2 in rep:
                    plans.append([k1, k2])
            for cuts in plans:
                got, err = _simulate(c, frames_fn, evs, cur0, cuts, boundaries)
                sims += 1
                if err or got != want:
                    bad += 1
                    first_bad = first_bad or f"log {[e[0] for e in evs]} from cursor {cur0}, drops after {cuts} characters: handed over {[(g[0]) for g in got]} (want {[w[0] for w in want]}){' — ' + err if err else ''}"
    except Unsupported as e:
        raise AnchorError(f"C17.R1: the reader's connection body uses a construct the interpreter does not support: {e}")
    chk.ob("C17.R1", f"client parser (AST-interpreted) on server frames: {sims} runs = 3 logs x every single drop position + representative double drops, heartbeats interleaved; each later event handed over once, in order, with its own sequence",
           bad == 0, m=m, node=c.loop, fn=c.reader, instance="parser-simulation", reason=f"{bad} of {sims} runs differ; first: {first_bad}")
    chk.extra["simulation"] = {"runs": sims, "bad": bad}
    chk.exhaustive = True

    # ------------------------------------------------------------------ R2 cursor def-use (client)
    ae = c.after_expr
    pure = (isinstance(ae, ast.Name) or (isinstance(ae, ast.Call) and call_name(ae) in ("str", "int") and len(ae.args) == 1 and isinstance(ae.args[0], ast.Name))
            or (isinstance(ae, ast.JoinedStr) and len(ae.values) == 1 and isinstance(ae.values[0], ast.FormattedValue) and isinstance(ae.values[0].value, ast.Name)))
    chk.ob("C17.R2", f"the reconnect request resumes from the cursor itself (`after_sequence = {ast.unparse(ae)}`)", pure, m=m, node=ae, fn=c.reader, instance="resume-param",
           reason="the cursor is transformed before it is sent: resuming strictly after the last handed-over id needs the id itself")
    all_assigns = [a for a in ast.walk(c.reader) if isinstance(a, (ast.Assign, ast.AnnAssign, ast.AugAssign)) and any(isinstance(t, ast.Name) and t.id == V for t in (a.targets if isinstance(a, ast.Assign) else [a.target]))]
    chk.ob("C17.R2", f"the cursor `{V}` is carried across connections and advanced inside the line loop", bool(cursor_assigns_in_loop), m=m, node=ae, fn=c.reader, instance="cursor-advances",
           reason=f"`{V}` is never assigned while lines are read: every reconnect replays from the initial position (duplicates)")
    if not cursor_assigns_in_loop:
        return
    chk.floor("C17.R2", "cursor assignments inside the line loop", len(cursor_assigns_in_loop), 1)
    # the request is inside the retry loop, the initial assignment outside
    outer_loops = [w for w in ast.walk(c.reader) if isinstance(w, ast.While) and any(x is c.stream_with for x in ast.walk(w))]
    if not outer_loops:
        raise AnchorError("C17.R2: the stream request is not inside a retry loop")
    retry_loop = outer_loops[-1]
    for a in all_assigns:
        if any(x is a for x in ast.walk(c.loop)):
            continue
        inside_retry = any(x is a for x in ast.walk(retry_loop))
        chk.ob("C17.R2", f"outside the line loop the cursor is only initialised before the retry loop (`{ast.unparse(a)[:60]}`)", not inside_retry and not isinstance(a, ast.AugAssign), m=m, node=a, fn=c.reader,
               instance="cursor-init", reason="the cursor is rewritten on every reconnect")
    cfg = c.cfg
    iter_nodes = cfg.nodes_of(c.loop)
    put_nodes = []
    good_puts = 0
    for p in c.puts:
        item = c.items[id(p)]
        sk = kwarg(item, "sequence")
        st = enclosing_stmt(p)
        uses_cursor = isinstance(sk, ast.Name) and sk.id == V
        if not uses_cursor and sk is not None:
            # same expression as the value the cursor was just given
            uses_cursor = any(ast.dump(sk) == ast.dump(a.value) for a in cursor_assigns_in_loop)
        why_item = "the sequence handed to EventStream is not the cursor the reconnect resumes from"
        if uses_cursor and item is not p.args[0]:
            # the item was built into a local first: the cursor must not move between building and queueing it
            ist = enclosing_stmt(item)
            moved = {n for a in cursor_assigns_in_loop for n in cfg.nodes_of(a)}
            for n in cfg.nodes_of(ist):
                starts = [t for lab, t in cfg.succ[n] if lab not in ("exc", "cancel")]
                if moved & cfg.reach(starts, blocked=cfg.nodes_of(st)):
                    uses_cursor = False
                    why_item = "the item is built before the cursor advances and queued after it: it carries the previous cursor"
        chk.ob("C17.R2", f"the queued item carries the cursor value (`sequence={ast.unparse(sk)}`)", uses_cursor, m=m, node=p, fn=c.reader, instance="item-sequence",
               reason=why_item)
        if uses_cursor:
            good_puts += 1
            put_nodes += cfg.nodes_of(st)
    chk.floor("C17.R2", "event hand-overs (queue.put of an item with a sequence) in the line loop", len(c.puts), 1)
    # building the item into a local first: the constructor of a plain record class of the module (no __init__/__post_init__/__new__)
    # applied to names and literals cannot raise, so that statement has no exceptional exit towards the reconnect handler
    quiet_edges = []
    for p in c.puts:
        item = c.items[id(p)]
        icls = c.m.classes.get(call_name(item) or "")
        if item is not p.args[0] and icls is not None and not any(isinstance(f, FuncNode) and f.name in ("__init__", "__post_init__", "__new__") for f in icls.body) \
                and all(isinstance(x, (ast.Name, ast.Constant)) for x in item.args + [k.value for k in item.keywords]) and isinstance(enclosing_stmt(item), ast.Assign):
            quiet_edges += [(n, "exc") for n in cfg.nodes_of(enclosing_stmt(item))]
    for a in cursor_assigns_in_loop:
        br = _branch_of(c, a)
        # every value that can flow into the assignment through temporaries of the loop: a plain conversion of the id variable, or the cursor itself (kept)
        srcs = _sources(a.value, loop_assigns, id_vars | {V})
        src_ok = bool(srcs) and any(not (isinstance(x, ast.Name) and x.id == V) for x in srcs) and all(
            (isinstance(x, ast.Name) and x.id == V) or (bool(_name_set(x) - {"int", "str"}) and (_name_set(x) - {"int", "str"}) <= id_vars and not any(isinstance(y, ast.BinOp) for y in ast.walk(x)))
            for x in srcs)
        chk.ob("C17.R2", f"the cursor is assigned only from the parsed id of the frame (`{ast.unparse(a)[:60]}`)", src_ok, m=m, node=a, fn=c.reader, instance="cursor-source",
               reason=f"value is not a plain conversion of the id variable {sorted(id_vars)}")
        lost = False
        path: list = []
        for n in cfg.nodes_of(a):
            starts = [t for lab, t in cfg.succ[n] if lab not in ("exc", "cancel")]
            r = cfg.reach(starts, blocked=put_nodes, blocked_edges=quiet_edges)
            hit = [t for t in iter_nodes if t in r]
            if hit:
                lost = True
                for st0 in starts:
                    pth = cfg.path(st0, hit[0], blocked=put_nodes)
                    if pth:
                        path = cfg.describe_path([n] + pth)
                        break
        chk.ob("C17.R2", f"after the cursor advances (in the `{br}` branch) the event is handed over before the next line is read", not lost, m=m, node=a, fn=c.reader,
               instance=f"advance-then-handover:{br}", reason="a path from the cursor assignment reaches the next line read without queue.put: a drop there resumes after an event that was never delivered (lost event), or the item was queued before the cursor moved (stale sequence)", path=path)

    # EventStream side
    mcls, es = repo.cls(f"{CLIENT}:EventStream")
    prop = next((f for f in es.body if isinstance(f, FuncNode) and f.name == "last_sequence"), None)
    if prop is None:
        raise AnchorError("C17.R2: EventStream.last_sequence not found")
    rets = [r.value for r in ast.walk(prop) if isinstance(r, ast.Return) and r.value is not None]
    if len(rets) != 1 or not (isinstance(rets[0], ast.Attribute) and dotted(rets[0].value) == "self"):
        raise AnchorError("C17.R2: EventStream.last_sequence does not return a plain attribute of self")
    F = rets[0].attr
    gens = [f for f in es.body if isinstance(f, FuncNode) and any(isinstance(y2, ast.Yield) and enclosing_function(y2) is f for y2 in ast.walk(f))]
    if len(gens) != 1:
        raise AnchorError(f"C17.R2: expected one generator method in EventStream, found {len(gens)}")
    gen = gens[0]
    gcfg = CFG(gen)
    ys = [y2 for y2 in ast.walk(gen) if isinstance(y2, ast.Yield) and enclosing_function(y2) is gen]
    chk.floor("C17.R2", "yields of EventStream's generator", len(ys), 1)
    gets = [a for a in ast.walk(gen) if isinstance(a, ast.Assign) and any(isinstance(x, ast.Call) and last(call_name(x)) in ("get", "get_nowait") for x in ast.walk(a.value))]
    if not gets:
        raise AnchorError("C17.R2: EventStream's generator does not take items from a queue")
    for y2 in ys:
        yv = expand(y2.value, y2) if y2.value is not None else None
        base = dotted(yv.value) if isinstance(yv, ast.Attribute) else None
        writes = []
        for a in ast.walk(gen):
            if isinstance(a, ast.Assign) and any(isinstance(t, ast.Attribute) and t.attr == F and dotted(t.value) == "self" for t in a.targets):
                av = expand(a.value, a)
                if isinstance(av, ast.Attribute) and av.attr == "sequence" and dotted(av.value) == base:
                    writes.append(a)
        wnodes = [n for a in writes for n in gcfg.nodes_of(a)]
        ynodes = gcfg.nodes_of(enclosing_stmt(y2))
        gnodes = [n for a in gets for n in gcfg.nodes_of(a)]
        off = gcfg.must_pass(gnodes, ynodes, wnodes, include_starts=False) if base else ynodes
        chk.ob("C17.R2", f"EventStream writes `self.{F}` from the queued item's sequence on every path from queue.get to `yield {ast.unparse(y2.value) if y2.value else ''}`", not off and bool(writes),
               m=mcls, node=y2, fn=gen, instance="publish-before-yield", reason="the consumer can observe the event while last_sequence still names the previous one (a resume from it re-delivers the event)")
    wr = attr_writes(mcls.tree, F)
    chk.floor("C17.R2", f"writers of EventStream.{F}", len(wr), 2)
    for node, kind in wr:
        f2 = enclosing_function(node)
        ok2 = f2 is not None and enclosing_class(f2) is es and (f2.name == "__init__" or f2 is gen)
        chk.ob("C17.R2", f"`.{F}` is written only by EventStream.__init__ and its generator", ok2, m=mcls, node=node, fn=f2, instance=f"writer:{qualname_of(f2) if f2 else '<module>'}",
               reason="another writer can make last_sequence differ from the last yielded event")

    # ------------------------------------------------------------------ R3 reconnect budget
    tries = [t for t in ast.walk(c.reader) if isinstance(t, ast.Try) and any(x is c.stream_with for st in t.body for x in ast.walk(st))]
    if not tries:
        raise AnchorError("C17.R3: the stream request is not inside a try")
    inner = tries[-1]  # innermost try containing the request (ast.walk is breadth-first: last = deepest)
    first = {}
    for exc in ("ReadError", "RemoteProtocolError"):
        for t in reversed(tries):  # innermost first
            h = next((h for h in t.handlers if _covers(h, exc)), None)
            if h is not None:
                first[exc] = (t, h)
                break
    handlers = {id(h): (t, h) for t, h in first.values()}
    chk.floor("C17.R3", "handlers reached by a mid-stream transport error", len(first), 2)
    limit_param = next((p.arg for p in c.gwe.args.args + c.gwe.args.kwonlyargs if "reconnect" in p.arg or "retries" in p.arg or "attempts" in p.arg), None)
    if limit_param is None:
        raise AnchorError("C17.R3: get_workflow_events has no reconnect-limit parameter")
    for exc, (t, h) in sorted(first.items()):
        hn = [n for n in cfg.nodes if n.ast is h]
        heads = [n for w in [retry_loop] for n in cfg.nodes_of(w)]
        swn = cfg.nodes_of(c.stream_with)
        back = bool(hn) and t is inner and any(x in cfg.reach(hn) for x in swn)
        chk.ob("C17.R3", f"a mid-stream {exc} is caught around the request and the handler leads back to a new request", back, m=m, node=h, fn=c.reader, instance=f"reconnects:{exc}",
               reason=f"first matching handler is `except {ast.unparse(h.type) if h.type else ''}` which never returns to the request: the drop ends the stream")
    for _k, (t, h) in handlers.items():
        if not any(x in cfg.reach([n for n in cfg.nodes if n.ast is h]) for x in cfg.nodes_of(c.stream_with)):
            continue
        # the way back writes neither cursor nor queue
        touched = [x for st in h.body for x in ast.walk(st) if (isinstance(x, ast.Name) and x.id == V and isinstance(x.ctx, ast.Store)) or (isinstance(x, ast.Call) and isinstance(x.func, ast.Attribute) and x.func.attr in ("put", "put_nowait"))]
        chk.ob("C17.R3", "the reconnect handler neither moves the cursor nor queues anything", not touched, m=m, node=h, fn=c.reader, instance="handler-pure",
               reason=f"handler contains `{ast.unparse(touched[0])[:50]}`" if touched else "")
        # budget: interpret the handler body for limits 0..3
        counters = {n.id for st in h.body for cmp_ in ast.walk(st) if isinstance(cmp_, ast.Compare) and limit_param in _name_set(cmp_) for n in ast.walk(cmp_) if isinstance(n, ast.Name) and n.id != limit_param}
        if len(counters) != 1:
            raise AnchorError(f"C17.R3: cannot identify the attempt counter compared with `{limit_param}` in the reconnect handler")
        counter = next(iter(counters))
        init = [a.value.value for a in ast.walk(c.reader) if isinstance(a, ast.Assign) and any(isinstance(tg, ast.Name) and tg.id == counter for tg in a.targets) and isinstance(a.value, ast.Constant)]
        if not init or len(set(init)) != 1:
            raise AnchorError(f"C17.R3: counter `{counter}` has no unique constant initial/reset value")
        bad_at = None
        never = True
        try:
            for limit in range(0, 4):
                env = {counter: init[0], limit_param: limit, "handler_id": "h"}
                itp = Interp(env)
                for k in range(1, limit + 3):
                    try:
                        itp.exec_block(h.body, env)
                    except Raised:
                        never = False
                        if k <= limit and bad_at is None:
                            bad_at = (limit, k)
                        break
                    except _Return:
                        if k <= limit and bad_at is None:
                            bad_at = (limit, k)
                        break
        except Unsupported as e:
            raise AnchorError(f"C17.R3: reconnect handler body not interpretable: {e}")
        chk.ob("C17.R3", f"the handler (interpreted for {limit_param} = 0..3, counter `{counter}` from {init[0]}) tolerates {limit_param} consecutive drops before giving up", bad_at is None,
               m=m, node=h, fn=c.reader, instance="budget", reason=f"with {limit_param}={bad_at[0]} the handler gives up at consecutive drop #{bad_at[1]}" if bad_at else "")
        if never:
            chk.observe(f"C17.R3: the reconnect handler never gives up for {limit_param} in 0..3 (unbounded reconnects)")
    resets = [a for a in ast.walk(c.stream_with) if isinstance(a, ast.Assign) and any(isinstance(tg, ast.Name) and tg.id in locals().get("counters", set()) for tg in a.targets)]
    chk.observe(f"C17.R3: the attempt counter is reset {len(resets)} time(s) after a successful connect — the limit counts consecutive failures (not required by the statement, recorded only)")

    # ------------------------------------------------------------------ R4 server cursor chain
    se = s.stream_events
    rcalls = [n for n in ast.walk(se) if isinstance(n, ast.Call) and last(call_name(n)) == "_resolve_event_stream"]
    if len(rcalls) != 1:
        raise AnchorError("C17.R4: `_stream_events` does not call `_resolve_event_stream` exactly once")
    av = kwarg(rcalls[0], "after_sequence", 1)
    if not isinstance(av, ast.Name):
        raise AnchorError("C17.R4: after_sequence argument of _resolve_event_stream is not a local name")
    A = av.id
    links = 0
    qp_names = set()
    for a in ast.walk(se):
        if isinstance(a, ast.Assign) and len(a.targets) == 1 and isinstance(a.targets[0], ast.Name):
            consts = {k.value for k in ast.walk(a.value) if isinstance(k, ast.Constant) and isinstance(k.value, str)}
            if consts & {"after_sequence", "last-event-id", "Last-Event-ID"} and any(isinstance(x, ast.Call) and last(call_name(x)) == "get" for x in ast.walk(a.value)):
                qp_names.add(a.targets[0].id)
    if not qp_names:
        raise AnchorError("C17.R4: `_stream_events` reads no after_sequence query parameter")
    for a in ast.walk(se):
        tg = a.targets if isinstance(a, ast.Assign) else [a.target] if isinstance(a, (ast.AnnAssign, ast.AugAssign)) else []
        if any(isinstance(t, ast.Name) and t.id == A for t in tg) and enclosing_function(a) is se:
            v = a.value
            if v is None:
                continue
            links += 1
            okv = (isinstance(v, ast.Constant) and v.value is None) or (isinstance(v, ast.Call) and call_name(v) == "int" and len(v.args) == 1 and isinstance(v.args[0], ast.Name) and v.args[0].id in qp_names)
            chk.ob("C17.R4", f"the server's cursor is the request's number unchanged (`{ast.unparse(a)[:60]}`)", okv and not isinstance(a, ast.AugAssign), m=sm, node=a, fn=se, instance="server-cursor-parse",
                   reason="the cursor sent by the client is transformed before it selects the events to replay")
    _, res = repo.func(f"{SERVER}:_WorkflowAPI._resolve_event_stream")
    subs = [n for n in ast.walk(res) if isinstance(n, ast.Call) and last(call_name(n)) == "subscribe_events"]
    if len(subs) != 1:
        raise AnchorError("C17.R4: `_resolve_event_stream` does not call subscribe_events exactly once")
    sub_after = kwarg(subs[0], "after_sequence", 1)
    # which parameter of _resolve_event_stream receives the request's cursor: read from the call in _stream_events
    pall = [p.arg for p in res.args.posonlyargs + res.args.args + res.args.kwonlyargs]
    P = next((k.arg for k in rcalls[0].keywords if k.value is av), None)
    if P is None and av in rcalls[0].args:
        pos = [p.arg for p in res.args.posonlyargs + res.args.args][1:]
        i = rcalls[0].args.index(av)
        P = pos[i] if i < len(pos) else None
    if P is None or P not in pall:
        raise AnchorError("C17.R4: cannot tell which parameter of `_resolve_event_stream` receives the request's cursor")
    # (a) evaluation: the handler's AST is interpreted for every numeric cursor kind x store state; what reaches
    #     subscribe_events must be that number (-1 and 0 are numbers, not `now`; `None` = `now` is C16's business)
    bad = _subscribe_cursor_failures(res, sm, P)
    links += 1
    chk.ob("C17.R4", f"for every numeric `{P}` (-1, 0, 1, last, beyond last; interpreted over an empty / live / finished event log) the handler subscribes from exactly that number whenever later events exist or can still arrive",
           not bad, m=sm, node=subs[0], fn=enclosing_function(subs[0]), instance="subscribe-cursor", reason=bad[0] if bad else "")
    # (b) dependence, for the numbers the finite domain does not contain: every binding of a variable that carries the
    #     parameter towards subscribe_events is either a plain copy of it or made where the cursor is known to be `now`
    if sub_after is not None:
        for a, arm, guarded in _cursor_rebinds(res, sub_after, subs[0], P):
            links += 1
            chk.ob("C17.R4", f"the cursor handed to subscribe_events is bound to something other than the client's number (`{ast.unparse(arm)[:50]}`) only to resolve the `now` cursor (where `{P}` is known to be None)", guarded,
                   m=sm, node=a, fn=enclosing_function(a) if not isinstance(a, FuncNode) else a, instance="now-resolution", reason="a numeric cursor from the client can be replaced")
    # producer tuple and the frame's slots
    gens2 = [f for f in ast.walk(res) if isinstance(f, FuncNode) and f is not res and any(x is subs[0] for x in ast.walk(f))]
    if not gens2:
        raise AnchorError("C17.R4: subscribe_events is not consumed by a nested generator")
    eg = gens2[-1]
    loops2 = [l for l in ast.walk(eg) if isinstance(l, (ast.AsyncFor, ast.For)) and any(x is subs[0] for x in ast.walk(l.iter))]
    if len(loops2) != 1 or not isinstance(loops2[0].target, ast.Name):
        raise AnchorError("C17.R4: the loop over subscribe_events is not recognised")
    sv = loops2[0].target.id
    tys = [y3 for y3 in ast.walk(eg) if isinstance(y3, ast.Yield) and isinstance(y3.value, ast.Tuple) and len(y3.value.elts) == 2]
    chk.floor("C17.R4", "(sequence, envelope) yields of the stored-event generator", len(tys), 1)
    for y3 in tys:
        e0, e1 = y3.value.elts
        x0 = expand(e0, y3)
        ok0 = isinstance(x0, ast.Attribute) and x0.attr == "sequence" and dotted(x0.value) == sv
        # envelope: every definition reaching the yield derives from <sv>.event
        ok1 = _derives_from(e1, y3, sv, "event", eg)
        links += 1
        chk.ob("C17.R4", f"the generator pairs each stored event's own sequence with its own envelope (`yield {ast.unparse(y3.value)}`)", ok0 and ok1, m=sm, node=y3, fn=eg, instance="pairing",
               reason=f"first element is `{ast.unparse(x0)}` (want `{sv}.sequence`), second derives from `{sv}.event`: {ok1}")
    # slots of the frame: unpacked from the same queue item, in the same order
    ff = s.frame_fn
    unp = [a for a in ast.walk(ff) if isinstance(a, ast.Assign) and len(a.targets) == 1 and isinstance(a.targets[0], ast.Tuple) and len(a.targets[0].elts) == 2 and all(isinstance(e, ast.Name) for e in a.targets[0].elts)]
    idn = expand(id_slot, frame_at)
    dn = expand(data_slot, frame_at)
    ok_slots = False
    why = "no `(sequence, envelope) = item` unpacking found"
    for a in unp:
        n0, n1 = (e.id for e in a.targets[0].elts)
        first_is_id = isinstance(idn, ast.Name) and idn.id == n0
        second_is_payload = n1 in _name_set(dn) and n0 not in _name_set(dn)
        if first_is_id or second_is_payload:
            ok_slots = first_is_id and second_is_payload
            why = f"unpacked as ({n0}, {n1}); id slot is `{ast.unparse(idn)}`, data slot is `{ast.unparse(dn)[:50]}`"
    links += 1
    chk.ob("C17.R4", "the frame's id slot is the first and its data slot the dump of the second element of the same queued (sequence, envelope) item", ok_slots, m=sm, node=s.frame_yield, fn=ff,
           instance="slots", reason=why)
    chk.floor("C17.R4", "links of the server cursor chain", links, 5)

    # ------------------------------------------------------------------ R5 every resume position sent is the reader's cursor
    # server side: the request inputs whose value can flow (data dependence through locals) into the cursor handed to
    # _resolve_event_stream; client side: the entries of every mapping the stream request carries; each entry the server reads
    # as a position must be the reader's cursor, evaluated for this request.
    inputs = _server_resume_inputs(se, A)
    chk.floor("C17.R5", "request inputs that flow into the server's replay cursor (query `after_sequence`, header `last-event-id`)", len(inputs), 2)
    for part, key, node in inputs:
        if part not in ("query", "header"):
            raise AnchorError(f"C17.R5: the server reads its replay cursor from the request {part} (`{ast.unparse(node)[:50]}`), which this rule does not model")
    if any(k.arg is None for k in c.stream_call.keywords):
        raise AnchorError("C17.R5: the stream request is called with `**kwargs`; what it sends cannot be inventoried")
    for kwn in ("json", "data", "content", "cookies", "files"):
        if kwarg(c.stream_call, kwn) is not None and not (isinstance(kwarg(c.stream_call, kwn), ast.Constant) and kwarg(c.stream_call, kwn).value is None):
            raise AnchorError(f"C17.R5: the stream request carries `{kwn}=`, which this rule does not inventory")
    rs = _Resume(c.gwe, c.cfg, V, c.stream_with, {prop.name, F}, lambda e: _const_str(c, e), c.m.tree)
    q_entries = _entries(rs, kwarg(c.stream_call, "params"), c.stream_with, [c.stream_with])
    h_entries = _entries(rs, kwarg(c.stream_call, "headers"), c.stream_with, [c.stream_with])
    chk.floor("C17.R5", "entries of the stream request inventoried (3 query parameters + 1 header)", len(q_entries) + len(h_entries), 4)
    url_e = c.stream_call.args[1] if len(c.stream_call.args) > 1 else kwarg(c.stream_call, "url")
    if url_e is not None:
        try:
            url_lits = [str(v) for k_, v in _tokens(url_e, c.stream_with) if k_ == "lit"]
        except AnchorError:
            url_lits = []
            chk.observe(f"C17.R5: the request URL `{ast.unparse(url_e)[:50]}` is not a readable template; a position embedded in it is not decided")
        for part, key, _n in inputs:
            if part == "query" and any(f"{key}=" in lit for lit in url_lits):
                raise AnchorError(f"C17.R5: the request URL embeds `{key}=`; a resume position inside the URL is not modelled")
    sent = 0
    for part, key, snode in inputs:
        if part == "query":
            mine = [x for x in q_entries if x[0] == key]
        else:
            mine = [x for x in h_entries if x[0].lower() == key.lower()]
        for k_, val, site, kills in mine:
            sent += 1
            lab = _position_origins(rs, val, site, kills)
            ok5 = lab == {"cursor"}
            chk.ob("C17.R5", f"the {part} `{k_}` of the stream request — read by the server into the cursor it replays from (`{ast.unparse(snode)[:50]}`) — is the reader's cursor `{V}` "
                             f"as it stands when the request is made (`{ast.unparse(val)[:60]}`)", ok5, m=m, node=val, fn=c.reader, instance=f"resume-position:{part}:{key.lower()}",
                   reason=_position_reason(lab, V, part, k_))
    chk.floor("C17.R5", "resume positions the stream request sends (query `after_sequence`)", sent, 1)

    # ------------------------------------------------------------------ fixture: planted positives must be reported
    _fixture_selfcheck(chk)


# ============================================================================ R4 helpers: the cursor the subscription starts from

_TERMINAL_STATUSES = {"completed", "failed", "cancelled"}


class _ResolveSim(Interp):
    """Interpreter for `_resolve_event_stream`: nested (async) defs are closures; calling a nested generator function gives a
    suspended generator (nothing of its body runs until it is iterated, and it then sees the enclosing variables as they are at
    that time, like Python's late-binding closures); a name that is not a local is looked up among the module's own top-level assignments."""

    def __init__(self, env, hooks, tree):
        super().__init__(env, hooks)
        self.tree = tree

    def exec(self, s, env):
        if isinstance(s, FuncNode):
            env[s.name] = ("__fn__", s, env)
            return
        super().exec(s, env)

    def e_Name(self, e, env):
        try:
            return super().e_Name(e, env)
        except Unsupported:
            vals = [st.value for st in self.tree.body if isinstance(st, (ast.Assign, ast.AnnAssign)) and st.value is not None
                    and any(isinstance(t, ast.Name) and t.id == e.id for t in (st.targets if isinstance(st, ast.Assign) else [st.target]))]
            if len(vals) != 1:
                raise
            return self.eval(vals[0], dict(self.globals))

    def apply(self, f, args, kw):
        if isinstance(f, tuple) and f and f[0] == "__fn__" and any(isinstance(y, (ast.Yield, ast.YieldFrom)) and enclosing_function(y) is f[1] for y in ast.walk(f[1])):
            names = [p.arg for p in f[1].args.args]
            return ("__gen__", f[1], f[2], {**dict(zip(names, args)), **kw})
        return super().apply(f, args, kw)


def _resolve_once(res: ast.AST, mod, P: str, log: list[tuple[int, bool]], status: str, cursor) -> tuple:
    """Interpret the handler once.  Model (trusted, C16): the store holds one handler (run `r`, the given status) and the given
    event log [(sequence, is terminal event)]; query_events returns the events after the given sequence (all for None);
    subscribe_events records the sequence it is asked to start after.  Result: ("sub", [cursors subscribed from]) |
    ("none",) | ("raised", name)."""
    seen: list = []
    events = [Record("StoredEvent", run_id="r", sequence=q, _terminal=t,
                     event=Record("EventEnvelopeWithMetadata", type="StopEvent" if t else "Event", types=None, qualified_name="q", value={})) for q, t in log]
    handler = Record("PersistentHandler", handler_id="h", run_id="r", status=status, workflow_name="w")

    def query_events(run_id, after_sequence=None, limit=None):
        out = [e for e in events if run_id == "r" and (after_sequence is None or e.sequence > after_sequence)]
        return list(out if limit is None else out[:limit])

    def subscribe_events(run_id, after_sequence=-1):
        seen.append(after_sequence)
        return []

    def is_terminal_event(ev):
        return bool(ev._terminal)

    store = Record("WorkflowStore", query=lambda q: [handler], query_events=query_events, subscribe_events=subscribe_events, _is_terminal_event=is_terminal_event)
    api = Record("_WorkflowAPI", _service=Record("WorkflowService", store=store, _store=store), _store=store, store=store)
    hooks = {
        "HandlerQuery": lambda *a, **k: Record("HandlerQuery", **k),
        "is_terminal_status": lambda st: st in _TERMINAL_STATUSES,
        "AbstractWorkflowStore._is_terminal_event": is_terminal_event,
    }
    genv = {"InternalDispatchEvent": Record("type", __name__="InternalDispatchEvent"), "AbstractWorkflowStore": Record("type", _is_terminal_event=is_terminal_event)}
    args: dict[str, object] = {}
    a = res.args
    for i, p in enumerate(a.posonlyargs + a.args + a.kwonlyargs):
        ann = ast.unparse(p.annotation) if p.annotation is not None else ""
        if i == 0 and p.arg == "self":
            args[p.arg] = api
        elif p.arg == P:
            args[p.arg] = cursor
        elif ann == "bool":
            args[p.arg] = True  # include_internal / include_qualified_name: nothing is filtered
        elif ann == "str":
            args[p.arg] = "h"
    sim = _ResolveSim(genv, hooks, mod.tree)
    try:
        out = sim.call_function(res, args)
        if isinstance(out, tuple) and out and out[0] == "__gen__":
            _, gfn, cenv, gargs = out
            _ResolveSim(cenv, hooks, mod.tree).call_generator(gfn, gargs)
            return ("sub", seen)
        if out is None:
            return ("none",) if not seen else ("sub", seen)
    except Raised as r:
        return ("raised", r.name)
    except Unsupported as u:
        raise AnchorError(f"C17.R4: `_resolve_event_stream` cannot be interpreted ({u}); the cursor its subscription starts from is not decided")
    raise AnchorError(f"C17.R4: `_resolve_event_stream` returns something that is neither None nor a call of its nested generator ({out!r:.60})")


def _subscribe_cursor_failures(res: ast.AST, mod, P: str) -> list[str]:
    states = [
        ("a live run with no events yet", [], "running"),
        ("a live run with events 0..3", [(0, False), (1, False), (2, False), (3, False)], "running"),
        ("a finished run (events 0..3, the last terminal, status still running)", [(0, False), (1, False), (2, False), (3, True)], "running"),
        ("a finished run (events 0..3, the last terminal, status completed)", [(0, False), (1, False), (2, False), (3, True)], "completed"),
    ]
    bad: list[str] = []
    for what, log, status in states:
        live = status not in _TERMINAL_STATUSES and not (log and log[-1][1])
        for cursor in (-1, 0, 1, 3, 7):
            later = [q for q, _t in log if q > cursor]
            got = _resolve_once(res, mod, P, log, status, cursor)
            if got == ("sub", [cursor]):
                continue
            if got == ("none",) and not live and not later:
                continue  # everything consumed and nothing can follow: no stream (204)
            said = "no subscription is made" if got == ("none",) else f"the handler raises {got[1]}" if got[0] == "raised" else f"subscribe_events is asked to start after {got[1]!r}"
            bad.append(f"{P}={cursor} on {what}: {said}; events {later if later else 'yet to come'} are owed to the client from cursor {cursor}")
    return bad


def _cursor_rebinds(res: ast.AST, E: ast.AST, call: ast.AST, P: str) -> list[tuple[ast.AST, ast.AST, bool]]:
    """(site, value arm, guarded) for every binding on the may-dependence chain parameter -> subscribe_events whose value is not a
    plain copy of a variable that carries the parameter.  `carriers` = P and every local some binding copies a carrier into
    (conditional expressions are read arm by arm, each arm under the facts of its test).  Judged: every non-copy arm bound to a
    carrier, and the argument expression itself when it is not a carrier.  guarded = a carrier is known to be None there."""
    binds: list[tuple[str, ast.AST, ast.AST]] = []
    for a in ast.walk(res):
        if isinstance(a, ast.Assign):
            tgs, v = a.targets, a.value
        elif isinstance(a, (ast.AnnAssign, ast.AugAssign)) and a.value is not None:
            tgs, v = [a.target], (a.value if isinstance(a, ast.AnnAssign) else a)
        elif isinstance(a, ast.NamedExpr):
            tgs, v = [a.target], a.value
        else:
            continue
        for t in tgs:
            for n in ast.walk(t):
                if isinstance(n, ast.Name):
                    binds.append((n.id, v if isinstance(t, ast.Name) else a, a))

    def arms(v: ast.AST, facts: frozenset) -> list[tuple[ast.AST, frozenset]]:
        if isinstance(v, ast.IfExp):
            return arms(v.body, facts | frozenset(atoms(v.test, True))) + arms(v.orelse, facts | frozenset(atoms(v.test, False)))
        return [(v, facts)]

    carriers = {P}
    grew = True
    while grew:
        grew = False
        for name, v, _a in binds:
            if name not in carriers and any(isinstance(x, ast.Name) and x.id in carriers for x, _f in arms(v, frozenset())):
                carriers.add(name)
                grew = True
    cfgs: dict[int, CFG] = {}

    def facts_of(site: ast.AST) -> set:
        fn = enclosing_function(site)
        st = site if isinstance(site, ast.stmt) else enclosing_stmt(site)
        if fn is None or st is None:
            return set()
        cfg = cfgs.setdefault(id(fn), CFG(fn))
        ns = cfg.nodes_of(st)
        out = None
        for n in ns:
            f = facts_at(cfg, n)
            out = f if out is None else out & f
        return out or set()

    def now_known(facts: set) -> bool:
        return any(has_fact(facts, f"{x} is None") for x in carriers)

    out: list[tuple[ast.AST, ast.AST, bool]] = []
    for name, v, a in binds:
        if name not in carriers:
            continue
        base = facts_of(a)
        for arm, f in arms(v, frozenset()):
            if isinstance(arm, ast.Name) and arm.id in carriers:
                continue
            out.append((a, arm, now_known(base | set(f))))
    base = facts_of(call)
    for arm, f in arms(E, frozenset()):
        if isinstance(arm, ast.Name) and arm.id in carriers:
            continue
        out.append((call, arm, now_known(base | set(f))))
    return out


# ============================================================================ R5 helpers: resume positions


class _Resume:
    """What R5 needs of a reader: the function whose bindings are searched, the reader's CFG, the cursor variable, the request
    statement, the attribute names of the consumer-side cursor, a resolver of constant keys, the module tree."""

    def __init__(self, scope, cfg, V, request, consumer_attrs, const_str, module_tree=None):
        self.scope, self.cfg, self.V, self.request, self.consumer_attrs, self.const_str, self.module_tree = scope, cfg, V, request, set(consumer_attrs), const_str, module_tree
        self.vnodes = [n for a in ast.walk(scope) if isinstance(a, (ast.Assign, ast.AnnAssign, ast.AugAssign)) and getattr(a, "value", None) is not None
                       and any(isinstance(t, ast.Name) and t.id == V for t in (a.targets if isinstance(a, ast.Assign) else [a.target])) for n in cfg.nodes_of(a)]


def _data_parts(e: ast.AST, stop):
    """Sub-expressions whose *value* can flow into the value of e: tests of conditional expressions and comparisons yield
    truth values, not positions, and are skipped; nodes accepted by `stop` are yielded and not entered."""
    if e is None:
        return
    if stop(e):
        yield e
        return
    if isinstance(e, ast.Compare):
        return
    yield e
    for fld, val in ast.iter_fields(e):
        if isinstance(e, ast.IfExp) and fld == "test":
            continue
        for v in (val if isinstance(val, list) else [val]):
            if isinstance(v, ast.AST):
                yield from _data_parts(v, stop)


_REQ_PARTS = {"query_params": "query", "headers": "header", "cookies": "cookie", "path_params": "path"}


def _request_read(e: ast.AST, req: str):
    """(part, key) when e reads one named input of the request object `req`; ('body', '*') for the body readers."""
    if isinstance(e, ast.Await):
        e = e.value
    base = key = None
    if isinstance(e, ast.Call) and isinstance(e.func, ast.Attribute) and e.func.attr in ("get", "getlist", "__getitem__") and e.args:
        base, key = e.func.value, e.args[0]
    elif isinstance(e, ast.Subscript):
        base, key = e.value, e.slice
    elif isinstance(e, ast.Call) and isinstance(e.func, ast.Attribute) and e.func.attr in ("json", "body", "form", "stream") and dotted(e.func.value) == req:
        return ("body", "*")
    if isinstance(base, ast.Attribute) and dotted(base.value) == req and base.attr in _REQ_PARTS:
        if not (isinstance(key, ast.Constant) and isinstance(key.value, str)):
            raise AnchorError(f"C17.R5: the server reads a request input under a computed name (`{ast.unparse(e)[:60]}`)")
        return (_REQ_PARTS[base.attr], key.value)
    return None


def _server_resume_inputs(se: ast.AST, cursor: str) -> list[tuple[str, str, ast.AST]]:
    """Request inputs whose value can flow into the local `cursor` of the endpoint `se`, through locals of `se`."""
    params = [a.arg for a in se.args.posonlyargs + se.args.args if a.arg not in ("self", "cls")]
    if not params:
        raise AnchorError("C17.R5: the streaming endpoint has no request parameter")
    req = params[0]
    todo, seen, out = [cursor], set(), []
    while todo:
        nm = todo.pop()
        if nm in seen:
            continue
        seen.add(nm)
        if nm == req:
            raise AnchorError("C17.R5: the whole request object flows into the server's replay cursor; its inputs cannot be inventoried")
        for a in ast.walk(se):
            if enclosing_function(a) is not se:
                continue
            vals = []
            if isinstance(a, ast.Assign) and any(isinstance(x, ast.Name) and x.id == nm for t in a.targets for x in ([t] if isinstance(t, ast.Name) else t.elts if isinstance(t, (ast.Tuple, ast.List)) else [])):
                vals = [a.value]
            elif isinstance(a, (ast.AnnAssign, ast.AugAssign)) and isinstance(a.target, ast.Name) and a.target.id == nm and a.value is not None:
                vals = [a.value]
            elif isinstance(a, ast.NamedExpr) and a.target.id == nm:
                vals = [a.value]
            for v in vals:
                for sub in _data_parts(v, lambda x: _request_read(x, req) is not None):
                    r = _request_read(sub, req)
                    if r is not None:
                        if not any(o[0] == r[0] and o[1].lower() == r[1].lower() for o in out):
                            out.append((r[0], r[1], sub))
                    elif isinstance(sub, ast.Name) and isinstance(sub.ctx, ast.Load):
                        todo.append(sub.id)
    return out


def _binders(rs: _Resume, name: str) -> list[ast.AST]:
    """Statements of the scope that (re)bind the plain name."""
    out = []
    for a in ast.walk(rs.scope):
        if isinstance(a, ast.Assign) and any(isinstance(t, ast.Name) and t.id == name for t in a.targets):
            out.append(a)
        elif isinstance(a, (ast.AnnAssign, ast.AugAssign)) and isinstance(a.target, ast.Name) and a.target.id == name and a.value is not None:
            out.append(a)
    return out


def _entries(rs: _Resume, e: ast.AST | None, site, kills: list, depth: int = 4) -> list[tuple[str, ast.AST, ast.AST | None, list]]:
    """(key, value expression, statement that evaluates the value, statements that re-evaluate it) for every entry a
    mapping expression of the request can hold; flow-insensitive over the bindings and in-place fills of a named mapping."""
    if e is None or (isinstance(e, ast.Constant) and e.value is None):
        return []
    if depth <= 0:
        raise AnchorError(f"C17.R5: request mapping `{ast.unparse(e)[:50]}` is nested too deeply to inventory")
    out: list = []
    if isinstance(e, ast.Dict):
        for k, v in zip(e.keys, e.values):
            if k is None:
                out += _entries(rs, v, site, kills, depth - 1)
                continue
            ks = rs.const_str(k)
            if ks is None:
                raise AnchorError(f"C17.R5: computed key `{ast.unparse(k)[:40]}` in a mapping of the stream request")
            out.append((ks, v, site, kills))
        return out
    if isinstance(e, ast.Call) and call_name(e) == "dict":
        for a in e.args:
            out += _entries(rs, a, site, kills, depth - 1)
        for kw in e.keywords:
            out += _entries(rs, kw.value, site, kills, depth - 1) if kw.arg is None else [(kw.arg, kw.value, site, kills)]
        return out
    if isinstance(e, ast.IfExp):
        return _entries(rs, e.body, site, kills, depth - 1) + _entries(rs, e.orelse, site, kills, depth - 1)
    if isinstance(e, ast.BinOp) and isinstance(e.op, ast.BitOr):
        return _entries(rs, e.left, site, kills, depth - 1) + _entries(rs, e.right, site, kills, depth - 1)
    if isinstance(e, ast.Name):
        binds = _binders(rs, e.id)
        if not binds:
            if rs.module_tree is not None:
                mv = [st.value for st in rs.module_tree.body if isinstance(st, (ast.Assign, ast.AnnAssign)) and st.value is not None
                      and any(isinstance(t, ast.Name) and t.id == e.id for t in (st.targets if isinstance(st, ast.Assign) else [st.target]))]
                if len(mv) == 1:
                    return _entries(rs, mv[0], None, [], depth - 1)
            raise AnchorError(f"C17.R5: cannot read what the request mapping `{e.id}` holds (no assignment in the reader or at module level)")
        for b in binds:
            if isinstance(b, ast.AugAssign) and not isinstance(b.op, ast.BitOr):
                raise AnchorError(f"C17.R5: request mapping `{e.id}` is updated by `{ast.unparse(b)[:40]}`")
            out += _entries(rs, b.value, b, binds, depth - 1)
        fills = []  # (key, value, statement)
        for st in ast.walk(rs.scope):
            if isinstance(st, ast.Assign):
                for t in st.targets:
                    if isinstance(t, ast.Subscript) and isinstance(t.value, ast.Name) and t.value.id == e.id:
                        ks = rs.const_str(t.slice)
                        if ks is None:
                            raise AnchorError(f"C17.R5: `{ast.unparse(t)[:40]}` fills the request mapping under a computed key")
                        fills.append((ks, st.value, st))
            elif isinstance(st, ast.Expr) and isinstance(st.value, ast.Call) and isinstance(st.value.func, ast.Attribute) and isinstance(st.value.func.value, ast.Name) and st.value.func.value.id == e.id:
                call = st.value
                if call.func.attr == "update":
                    for a in call.args:
                        out += _entries(rs, a, st, binds + [st], depth - 1)
                    for kw in call.keywords:
                        out += _entries(rs, kw.value, st, binds + [st], depth - 1) if kw.arg is None else [(kw.arg, kw.value, st, binds + [st])]
                elif call.func.attr == "setdefault" and len(call.args) == 2:
                    ks = rs.const_str(call.args[0])
                    if ks is None:
                        raise AnchorError(f"C17.R5: `{ast.unparse(call)[:40]}` fills the request mapping under a computed key")
                    fills.append((ks, call.args[1], st))
        for ks, v, st in fills:
            out.append((ks, v, st, binds + [s2 for k2, _v, s2 in fills if k2.lower() == ks.lower()]))
        return out
    raise AnchorError(f"C17.R5: cannot inventory the request mapping `{ast.unparse(e)[:60]}`")


def _unwrap(e: ast.AST) -> ast.AST:
    """Strip the conversions that carry a number unchanged into a request: str(x), int(x), f"{x}"."""
    while True:
        if isinstance(e, ast.Call) and call_name(e) in ("str", "int") and len(e.args) == 1 and not e.keywords:
            e = e.args[0]
        elif isinstance(e, ast.JoinedStr) and len(e.values) == 1 and isinstance(e.values[0], ast.FormattedValue) and e.values[0].format_spec is None and e.values[0].conversion in (-1, ord("s")):
            e = e.values[0].value
        else:
            return e


def _stale(rs: _Resume, site: ast.AST, kills: list, target: ast.AST) -> bool:
    """A value computed at `site` is still in use at `target` after the cursor has moved: some assignment of the cursor lies on a
    path site -> target that passes none of `kills` (the statements that compute the value afresh)."""
    if site is target:
        return False
    s_nodes, t_nodes = rs.cfg.nodes_of(site), set(rs.cfg.nodes_of(target))
    if not s_nodes or not t_nodes:
        return True  # evaluated outside the reader's control flow, i.e. once
    blocked = {n for k in kills for n in rs.cfg.nodes_of(k)}
    r1 = rs.cfg.reach(s_nodes, blocked=blocked, include_starts=False)
    moved = [n for n in rs.vnodes if n in r1]
    return bool(moved) and bool(t_nodes & rs.cfg.reach(moved, blocked=blocked, include_starts=False))


def _origins(rs: _Resume, e: ast.AST, at: ast.AST | None, depth: int = 4) -> set[str]:
    """What a position expression evaluated at statement `at` denotes: 'cursor' (the reader's cursor at that moment), 'stale'
    (the cursor as it was before it moved), 'consumer:…' (the attribute the iterator updates when it yields), or another source."""
    e = _unwrap(e)
    if isinstance(e, ast.Name):
        if e.id == rs.V:
            return {"cursor"}
        binds = _binders(rs, e.id)
        if binds and depth > 0 and not any(isinstance(b, ast.AugAssign) for b in binds):
            out: set[str] = set()
            for b in binds:
                o = _origins(rs, b.value, b, depth - 1)
                if "cursor" in o and (at is None or _stale(rs, b, binds, at)):
                    o = (o - {"cursor"}) | {"stale"}
                out |= o
            return out
        return {f"name:{e.id}"}
    if isinstance(e, ast.Attribute) and e.attr in rs.consumer_attrs:
        return {f"consumer:{ast.unparse(e)}"}
    if isinstance(e, ast.IfExp):
        return _origins(rs, e.body, at, depth) | _origins(rs, e.orelse, at, depth)
    if isinstance(e, ast.Constant):
        return {f"const:{e.value!r}"}
    return {f"expr:{ast.unparse(e)[:50]}"}


def _position_origins(rs: _Resume, val: ast.AST, site: ast.AST | None, kills: list) -> set[str]:
    lab = _origins(rs, val, site)
    if "cursor" in lab and (site is None or _stale(rs, site, kills, rs.request)):
        lab = (lab - {"cursor"}) | {"stale"}
    return lab


def _position_reason(lab: set[str], V: str, part: str, key: str) -> str:
    bad = sorted(lab - {"cursor"})
    cons = [x.split(":", 1)[1] for x in bad if x.startswith("consumer:")]
    if cons:
        return (f"the {part} `{key}` is taken from `{cons[0]}`, the consumer-side cursor (advanced when the iterator yields an event), not from the reader's cursor `{V}` "
                f"(advanced when an event is received and queued): events queued but not yet yielded when the connection drops are requested again — duplicates, out of order")
    if "stale" in bad:
        return f"the {part} `{key}` is computed from `{V}` before the cursor moves and is not computed afresh for the next request: a reconnect resumes from an older position (events delivered twice)"
    return f"the {part} `{key}` is not the reader's cursor `{V}` (it is {', '.join(bad)}): the server resumes from a position other than the last event handed over"


def _sources(e: ast.AST, assigns: list, stop: set[str], depth: int = 4) -> list[ast.AST]:
    """The expressions whose value `e` can take, looking through names that are plain temporaries assigned in the loop
    (every assignment to the temporary counts, whatever the path). Names in `stop` are kept."""
    if isinstance(e, ast.Name) and e.id not in stop and depth > 0:
        defs = [a.value for a in assigns if any(isinstance(t, ast.Name) and t.id == e.id for t in (a.targets if isinstance(a, ast.Assign) else [a.target]))]
        if defs:
            out: list[ast.AST] = []
            for d in defs:
                out += _sources(d, assigns, stop, depth - 1)
            return out
    if isinstance(e, ast.IfExp):
        return _sources(e.body, assigns, stop, depth) + _sources(e.orelse, assigns, stop, depth)
    return [e]


def _derives_from(e: ast.AST, at: ast.AST, var: str, attr: str, fn: ast.AST) -> bool:
    """Every assignment to the name e inside fn derives (directly or through itself) from <var>.<attr>."""
    if isinstance(e, ast.Attribute):
        return e.attr == attr and dotted(e.value) == var
    if not isinstance(e, ast.Name):
        return False
    defs = [a for a in ast.walk(fn) if isinstance(a, ast.Assign) and any(isinstance(t, ast.Name) and t.id == e.id for t in a.targets)]
    if not defs:
        return False
    for a in defs:
        v = a.value
        direct = isinstance(v, ast.Attribute) and v.attr == attr and dotted(v.value) == var
        via_self = any(isinstance(x, ast.Name) and x.id == e.id for x in ast.walk(v)) and not any(isinstance(x, ast.Name) and x.id not in (e.id,) and isinstance(parent(x), ast.Attribute) and parent(x).attr == attr and x.id != var for x in ast.walk(v))
        if not (direct or via_self):
            return False
    return any(isinstance(a.value, ast.Attribute) and a.value.attr == attr and dotted(a.value.value) == var for a in defs)


def _rep_points(text: str) -> list[int]:
    """Representative drop positions: start, middle and end of every line."""
    pts, start = [], 0
    for i, ch in enumerate(text):
        if ch == "\n":
            pts += [start, (start + i) // 2, i, i + 1]
            start = i + 1
    return sorted(set(p for p in pts if 0 <= p <= len(text)))


# ============================================================================ fixture self-check

FIXTURE = Path(__file__).resolve().parent.parent.parent / "fixtures" / "c17" / "planted.py"


def _fixture_selfcheck(chk) -> None:
    """The zero-expected detectors (lost-event path, publish-after-yield) must report the planted examples."""
    if not FIXTURE.is_file():
        raise AnchorError(f"C17: fixture {FIXTURE} missing")
    tree = ast.parse(FIXTURE.read_text())
    from ..index import _set_parents

    _set_parents(tree)
    fns = {f.name: f for f in ast.walk(tree) if isinstance(f, FuncNode)}
    # planted 1: cursor advanced on the id line (no hand-over before the next line)
    f1 = fns["reader_advances_on_id_line"]
    cfg = CFG(f1)
    loop = next(n for n in ast.walk(f1) if isinstance(n, ast.AsyncFor))
    puts = [n for st in [enclosing_stmt(x) for x in ast.walk(f1) if isinstance(x, ast.Call) and getattr(x.func, "attr", "") == "put"] for n in cfg.nodes_of(st)]
    found = 0
    for a in ast.walk(loop):
        if isinstance(a, ast.Assign) and any(isinstance(t, ast.Name) and t.id == "last_sequence" for t in a.targets):
            for n in cfg.nodes_of(a):
                starts = [t for lab, t in cfg.succ[n] if lab not in ("exc", "cancel")]
                if any(t in cfg.reach(starts, blocked=puts) for t in cfg.nodes_of(loop)):
                    found += 1
    # planted 2: yield before publishing the sequence
    f2 = fns["iterate_yields_first"]
    g = CFG(f2)
    y = next(n for n in ast.walk(f2) if isinstance(n, ast.Yield))
    w = [n for a in ast.walk(f2) if isinstance(a, ast.Assign) and any(isinstance(t, ast.Attribute) and t.attr == "_last_sequence" for t in a.targets) for n in g.nodes_of(a)]
    gt = [n for a in ast.walk(f2) if isinstance(a, ast.Assign) and any(isinstance(x, ast.Call) and getattr(x.func, "attr", "") == "get" for x in ast.walk(a.value)) for n in g.nodes_of(a)]
    found2 = len(g.must_pass(gt, g.nodes_of(enclosing_stmt(y)), w, include_starts=False))
    chk.floor("C17.R2", "planted lost-event paths reported on fixtures/c17/planted.py", found, 1)
    chk.floor("C17.R2", "planted yield-before-publish reported on fixtures/c17/planted.py", found2, 1)
    # planted 3/4: a resume header from the consumer-side cursor / from the reader's cursor computed once before the retry loop
    got = {}
    for fname in ("reader_resumes_from_consumer_cursor", "reader_resumes_from_stale_cursor"):
        f3 = fns[fname]
        req = next(n for n in ast.walk(f3) if isinstance(n, ast.AsyncWith))
        call = req.items[0].context_expr
        rs = _Resume(f3, CFG(f3), "last_sequence", req, {"last_sequence", "_last_sequence"}, lambda e: e.value if isinstance(e, ast.Constant) and isinstance(e.value, str) else None)
        labs = [(_position_origins(rs, v, site, kills), k) for kw in ("params", "headers") for k, v, site, kills in _entries(rs, kwarg(call, kw), req, [req])]
        got[fname] = (sum(1 for l, k in labs if k.lower() == "last-event-id" and l != {"cursor"} and any(x.startswith("consumer:") or x == "stale" for x in l)),
                      sum(1 for l, k in labs if k == "after_sequence" and l == {"cursor"}))
    chk.floor("C17.R5", "planted consumer-cursor resume header reported on fixtures/c17/planted.py (and its query position accepted)", min(got["reader_resumes_from_consumer_cursor"]), 1)
    chk.floor("C17.R5", "planted stale resume header reported on fixtures/c17/planted.py (and its query position accepted)", min(got["reader_resumes_from_stale_cursor"]), 1)


# ============================================================================ twins

_C = "packages/llama-agents-client/src/llama_agents/client/client.py"
_S = "packages/llama-agents-server/src/llama_agents/server/_api.py"


def _multi(rel: str, edits: list[tuple[str, str]]) -> tuple[str, str]:
    """(old, new) for a twin that needs several coordinated edits of one file: the anchor is the current text of the file."""
    from ..index import repo_root

    try:
        src = (repo_root() / rel).read_text(encoding="utf-8")
    except OSError:
        return "\0file missing", ""
    out = src
    for a, b in edits:
        if a not in out:
            return "\0anchor missing: " + a[:40], ""
        out = out.replace(a, b, 1)
    return src, out


_I = "                                    "  # indentation of the line loop's body
_CLASSIFIER = (
    _I + 'if stripped.startswith("id:"):\n' + _I + "    current_id = stripped[3:].strip()\n" + _I + 'elif stripped.startswith("data:"):\n'
    + _I + "    data = stripped[5:].strip()\n" + _I + "    event = EventEnvelopeWithMetadata.model_validate_json(\n" + _I + "        data\n" + _I + "    )\n"
    + _I + "    if current_id is not None:\n" + _I + "        try:\n" + _I + "            last_sequence = int(current_id)\n" + _I + "        except ValueError:\n" + _I + "            pass\n"
    + _I + "    await queue.put(\n" + _I + "        _QueuedEvent(\n" + _I + "            sequence=last_sequence,\n" + _I + "            event=event,\n" + _I + "        )\n" + _I + "    )\n"
    + _I + "    current_id = None\n"
)
_FIELD_CONSTS = ("_QueueItem = _QueuedEvent | _QueuedError | _QueuedDone\n", '_QueueItem = _QueuedEvent | _QueuedError | _QueuedDone\n\n_ID_FIELD = "id:"\n_DATA_FIELD = "data:"\n')


_NOW = "        if after_sequence is None:\n            all_current = await store.query_events(run_id)\n            after_sequence = all_current[-1].sequence if all_current else -1\n"
_REMAINING = "        remaining_events = await store.query_events(\n            run_id, after_sequence=after_sequence\n        )\n"
_SUBSCRIBE = "                run_id,\n                after_sequence=after_sequence,  # type: ignore[arg-type]\n"
_FRAME_YIELDS = '                    if sse:\n                        yield f"id: {sequence}\\ndata: {payload}\\n\\n"\n                    else:\n                        yield f"{payload}\\n"\n'


def _frame_local(sse: str = 'f"id: {sequence}\\ndata: {payload}\\n\\n"', plain: str = 'f"{payload}\\n"', pre: str = "", post: str = "") -> str:
    """The two per-mode yields of `format_stream` as one yield of a local bound in each mode's branch (benign B11_patch_2 shape)."""
    return f"{pre}                    if sse:\n                        frame = {sse}\n                    else:\n                        frame = {plain}\n{post}                    yield frame\n"


def _guard_classifier(id_cut: str = "len(_ID_FIELD)", id_extra: str = "", stale_item: bool = False) -> str:
    """The classifier as `continue` guards over module-level prefix constants, the id parsed into a temporary on every
    branch (the shape an extracted-and-folded helper leaves) and the queued item built into a local."""
    L = [
        "if stripped.startswith(_ID_FIELD):",
        f"    current_id = stripped[{id_cut}:].strip()",
        *([f"    {id_extra}"] if id_extra else []),
        "    continue",
        "if not stripped.startswith(_DATA_FIELD):",
        "    continue",
        "data = stripped[len(_DATA_FIELD):].strip()",
        "event = EventEnvelopeWithMetadata.model_validate_json(data)",
        *(["queued = _QueuedEvent(sequence=last_sequence, event=event)"] if stale_item else []),
        "if current_id is None:",
        "    parsed = last_sequence",
        "else:",
        "    try:",
        "        parsed = int(current_id)",
        "    except ValueError:",
        "        parsed = last_sequence",
        "last_sequence = parsed",
        *([] if stale_item else ["queued = _QueuedEvent(sequence=last_sequence, event=event)"]),
        "await queue.put(queued)",
        "current_id = None",
    ]
    return "".join(_I + x + "\n" for x in L)


_RETRY_I = "                    "  # indentation of the retry loop's body
_GET_CLIENT = _RETRY_I + "async with self._get_client() as client:\n                        try:\n                            async with client.stream(\n"
_HEADERS = 'headers={"Connection": "keep-alive"},'

TWINS = [
    # the classifier in guard style (prefix constants, `continue` guards, temporaries, named item)
    Twin("benign: guard-style classifier, prefix constants, named item", _C, *_multi(_C, [_FIELD_CONSTS, (_CLASSIFIER, _guard_classifier())]), None),
    Twin("guard-style: id branch cuts the other field's length", _C, *_multi(_C, [_FIELD_CONSTS, (_CLASSIFIER, _guard_classifier(id_cut="len(_DATA_FIELD)"))]), "C17.R1"),
    Twin("guard-style: named item built before the cursor advances", _C, *_multi(_C, [_FIELD_CONSTS, (_CLASSIFIER, _guard_classifier(stale_item=True))]), "C17.R2"),
    Twin("guard-style: cursor advanced in the id guard", _C, *_multi(_C, [_FIELD_CONSTS, (_CLASSIFIER, _guard_classifier(id_extra="last_sequence = int(current_id)"))]), "C17.R2"),
    # R1 framing: the frame text bound to a local in each mode's branch, then a single yield
    Twin("benign: frame built in a local per mode, one yield", _S, _FRAME_YIELDS, _frame_local(), None),
    Twin("benign: frame local with a default that the SSE branch overrides", _S, _FRAME_YIELDS,
         '                    frame = f"{payload}\\n"\n                    if sse:\n                        frame = f"id: {sequence}\\ndata: {payload}\\n\\n"\n                    yield frame\n', None),
    Twin("frame local: the SSE branch builds a frame without the id line", _S, _FRAME_YIELDS, _frame_local(sse='f"data: {payload}\\n\\n"'), "C17.R1"),
    Twin("frame local: SSE frame is only the default, the override carries no id line", _S, _FRAME_YIELDS,
         '                    frame = f"id: {sequence}\\ndata: {payload}\\n\\n"\n                    if sse:\n                        frame = f"data: {payload}\\n\\n"\n                    yield frame\n', "C17.R1"),
    Twin("frame local: data before id", _S, _FRAME_YIELDS, _frame_local(sse='f"data: {payload}\\nid: {sequence}\\n\\n"'), "C17.R1"),
    Twin("frame local: SSE frame loses its terminator", _S, _FRAME_YIELDS, _frame_local(sse='f"id: {sequence}\\ndata: {payload}"'), "C17.R1"),
    Twin("frame local: payload re-dumped without the escape in the SSE branch", _S, _FRAME_YIELDS, _frame_local(sse='f"id: {sequence}\\ndata: {envelope.model_dump_json()}\\n\\n"'), "C17.R1"),
    Twin("frame local: id slot bound to the next sequence before the frame is built", _S, _FRAME_YIELDS, _frame_local(pre="                    sequence = sequence + 1\n"), "C17.R4"),
    Twin("benign: frame local, the id name reused after the frame is built", _S, _FRAME_YIELDS, _frame_local(post="                    sequence = None\n"), None),
    # R1 framing
    Twin("slice one short", _C, "current_id = stripped[3:].strip()", "current_id = stripped[2:].strip()", "C17.R1"),
    Twin("server emits data before id", _S, 'yield f"id: {sequence}\\ndata: {payload}\\n\\n"', 'yield f"data: {payload}\\nid: {sequence}\\n\\n"', "C17.R1"),
    Twin("heartbeat as data field", _S, 'yield ": heartbeat\\n\\n"', 'yield "data: heartbeat\\n\\n"', "C17.R1"),
    Twin("frame without terminator", _S, 'yield f"id: {sequence}\\ndata: {payload}\\n\\n"', 'yield f"id: {sequence}\\ndata: {payload}"', "C17.R1"),
    Twin("pretty-printed payload", _S, "payload = envelope.model_dump_json()", "payload = envelope.model_dump_json(indent=2)", "C17.R1"),
    Twin("client prefix renamed on one side", _C, 'stripped.startswith("id:")', 'stripped.startswith("seq:")', "C17.R1"),
    Twin("benign: no blank after colon", _S, 'yield f"id: {sequence}\\ndata: {payload}\\n\\n"', 'yield f"id:{sequence}\\ndata:{payload}\\n\\n"', None),
    Twin("benign: concatenated frame", _S, 'yield f"id: {sequence}\\ndata: {payload}\\n\\n"', 'yield "id: " + str(sequence) + "\\n" + "data: " + payload + "\\n\\n"', None),
    Twin("benign: len() slice", _C, "current_id = stripped[3:].strip()", 'current_id = stripped[len("id:"):].strip()', None),
    Twin("inlined payload loses the escape", _S, 'yield f"id: {sequence}\\ndata: {payload}\\n\\n"', 'yield f"id: {sequence}\\ndata: {envelope.model_dump_json()}\\n\\n"', "C17.R1"),
    Twin("escape of the raw line separators removed (revert c46ef30)", _S, "payload = envelope.model_dump_json().translate(\n                        _LINE_SEPARATOR_ESCAPES\n                    )", "payload = envelope.model_dump_json()", "C17.R1"),
    Twin("escape table loses U+2029", _S, ', 0x2029: "\\\\u2029"}', "}", "C17.R1"),
    Twin("escape maps a separator to another separator", _S, '0x2028: "\\\\u2028"', '0x2028: "\\n"', "C17.R1"),
    Twin("benign: inlined payload keeps the escape", _S, 'yield f"id: {sequence}\\ndata: {payload}\\n\\n"', 'yield f"id: {sequence}\\ndata: {envelope.model_dump_json().translate(_LINE_SEPARATOR_ESCAPES)}\\n\\n"', None),
    Twin("benign: replace chain instead of translate", _S, "payload = envelope.model_dump_json().translate(\n                        _LINE_SEPARATOR_ESCAPES\n                    )",
         'payload = envelope.model_dump_json().replace("\\x85", "\\\\u0085").replace("\\u2028", "\\\\u2028").replace("\\u2029", "\\\\u2029")', None),
    Twin("benign: ASCII-only JSON writer", _S, "payload = envelope.model_dump_json().translate(\n                        _LINE_SEPARATOR_ESCAPES\n                    )",
         'import json\n\n                    payload = json.dumps(envelope.model_dump(mode="json"))', None),
    Twin("benign: pydantic ensure_ascii", _S, "payload = envelope.model_dump_json().translate(\n                        _LINE_SEPARATOR_ESCAPES\n                    )", "payload = envelope.model_dump_json(ensure_ascii=True)", None),
    Twin("benign: removeprefix", _C, "current_id = stripped[3:].strip()", 'current_id = stripped.removeprefix("id:").strip()', None),
    Twin("benign: server escapes the separators JSON leaves raw", _S, "payload = envelope.model_dump_json()",
         'payload = envelope.model_dump_json().replace("\\x85", "\\\\u0085").replace("\\u2028", "\\\\u2028").replace("\\u2029", "\\\\u2029")', None),
    # R2 cursor
    Twin("cursor advanced on the id line", _C, "current_id = stripped[3:].strip()\n", "current_id = stripped[3:].strip()\n                                        last_sequence = int(current_id)\n", "C17.R2"),
    Twin("reconnect from the initial cursor", _C, '"after_sequence": str(last_sequence),', '"after_sequence": str(after_sequence),', "C17.R2"),
    Twin("resume one further", _C, '"after_sequence": str(last_sequence),', '"after_sequence": str(last_sequence + 1),', "C17.R2"),
    Twin("publish after yield", _C, "                self._last_sequence = item.sequence\n                yield item.event\n", "                yield item.event\n                self._last_sequence = item.sequence\n", "C17.R2"),
    Twin("item carries the raw previous cursor", _C, "                                        if current_id is not None:\n                                            try:\n                                                last_sequence = int(current_id)\n                                            except ValueError:\n                                                pass\n                                        await queue.put(\n                                            _QueuedEvent(\n                                                sequence=last_sequence,\n                                                event=event,\n                                            )\n                                        )\n",
         "                                        await queue.put(\n                                            _QueuedEvent(\n                                                sequence=last_sequence,\n                                                event=event,\n                                            )\n                                        )\n                                        if current_id is not None:\n                                            try:\n                                                last_sequence = int(current_id)\n                                            except ValueError:\n                                                pass\n", "C17.R2"),
    Twin("second writer of the published sequence", _C, "        task, self._task = self._task, None\n", "        task, self._task = self._task, None\n        self._last_sequence = -1\n", "C17.R2"),
    Twin("benign: f-string cursor", _C, '"after_sequence": str(last_sequence),', '"after_sequence": f"{last_sequence}",', None),
    Twin("benign: local for the sequence", _C, "                self._last_sequence = item.sequence\n", "                seq = item.sequence\n                self._last_sequence = seq\n", None),
    Twin("benign: early-continue id branch", _C, "                                    if not stripped:\n                                        # Empty line = end of SSE event\n                                        continue\n", "                                    if stripped == \"\":\n                                        continue\n", None),
    # R3 budget
    Twin("gives up one drop early", _C, "if attempts > max_reconnect_attempts:", "if attempts >= max_reconnect_attempts:", "C17.R3"),
    Twin("only connect errors reconnect", _C, "except (httpx.RequestError, ConnectionError):", "except (httpx.ConnectError, ConnectionError):", "C17.R3"),
    Twin("generic handler shadows the reconnect", _C, "                        except httpx.TimeoutException:\n", "                        except httpx.HTTPError:\n", "C17.R3"),
    Twin("benign: reversed comparison", _C, "if attempts > max_reconnect_attempts:", "if max_reconnect_attempts < attempts:", None),
    Twin("benign: transport error class", _C, "except (httpx.RequestError, ConnectionError):", "except (httpx.TransportError, ConnectionError):", None),
    # R4 server chain
    Twin("subscribe forgets the cursor", _S, "                run_id,\n                after_sequence=after_sequence,  # type: ignore[arg-type]\n", "                run_id,\n", "C17.R4"),
    Twin("server shifts the cursor", _S, "                after_sequence = int(after_sequence_str)\n", "                after_sequence = int(after_sequence_str) + 1\n", "C17.R4"),
    Twin("id is a running counter, not the stored sequence", _S, "                yield stored_event.sequence, envelope\n", "                yield after_sequence + 1, envelope\n", "C17.R4"),
    Twin("cursor 0 is falsy: `or` resolves it like `now`", _S, *_multi(_S, [
        (_NOW, "        latest = await store.query_events(run_id)\n        cursor = after_sequence or (latest[-1].sequence if latest else -1)\n"),
        (_REMAINING, "        remaining_events = await store.query_events(run_id, after_sequence=cursor)\n"),
        (_SUBSCRIBE, "                run_id, after_sequence=cursor\n")]), "C17.R4"),
    Twin("negative cursor resolved like `now` (start-from-the-beginning -1 skips the history)", _S, "        if after_sequence is None:\n            all_current = await store.query_events(run_id)\n",
         "        if after_sequence is None or after_sequence < 0:\n            all_current = await store.query_events(run_id)\n", "C17.R4"),
    Twin("renamed local clamps the cursor", _S, *_multi(_S, [
        (_REMAINING, "        resume_after = max(after_sequence, 0)\n        remaining_events = await store.query_events(run_id, after_sequence=resume_after)\n"),
        (_SUBSCRIBE, "                run_id, after_sequence=resume_after\n")]), "C17.R4"),
    Twin("a particular number is replaced (outside the interpreted domain: dependence)", _S, "        # Check if already fully consumed\n        remaining_events = await store.query_events(\n",
         "        if after_sequence == 1000:\n            after_sequence = 0\n        # Check if already fully consumed\n        remaining_events = await store.query_events(\n", "C17.R4"),
    Twin("benign: parameter left alone, new local bound by if/else (copy arm first)", _S, *_multi(_S, [
        (_NOW, "        resume_after: int\n        if after_sequence is not None:\n            resume_after = after_sequence\n        else:\n            all_current = await store.query_events(run_id)\n"
               "            if all_current:\n                resume_after = all_current[-1].sequence\n            else:\n                resume_after = -1\n"),
        (_REMAINING, "        remaining_events = await store.query_events(run_id, after_sequence=resume_after)\n"),
        (_SUBSCRIBE, "                run_id, after_sequence=resume_after\n")]), None),
    Twin("benign: cursor chosen by a conditional expression at the call, completion test as two guards", _S, *_multi(_S, [
        (_NOW, "        latest = await store.query_events(run_id)\n        newest = latest[-1].sequence if latest else -1\n"),
        (_REMAINING, "        remaining_events = await store.query_events(run_id, after_sequence=newest if after_sequence is None else after_sequence)\n"),
        ("            run_is_complete = is_terminal_status(persistent.status) or (\n                bool(all_events)\n                and AbstractWorkflowStore._is_terminal_event(all_events[-1])\n            )\n            if run_is_complete:\n                return None\n",
         "            if is_terminal_status(persistent.status):\n                return None\n            if all_events and AbstractWorkflowStore._is_terminal_event(all_events[-1]):\n                return None\n"),
        (_SUBSCRIBE, "                run_id, after_sequence=after_sequence if after_sequence is not None else newest\n")]), None),
    Twin("benign: local for the stored sequence", _S, "                yield stored_event.sequence, envelope\n", "                seq = stored_event.sequence\n                yield seq, envelope\n", None),
    Twin("benign: extra keyword on the JSON writer", _S, "payload = envelope.model_dump_json().translate(", "payload = envelope.model_dump_json(by_alias=False).translate(", None),
    # R5 resume positions
    Twin("reconnect header from the consumer's cursor (seed form: mapping filled under `attempts > 0`)", _C, *_multi(_C, [
        (_GET_CLIENT, _RETRY_I + 'headers = {"Connection": "keep-alive"}\n' + _RETRY_I + "if attempts > 0:\n" + _RETRY_I + '    headers["Last-Event-ID"] = str(stream.last_sequence)\n' + _GET_CLIENT),
        (_HEADERS, "headers=headers,")]), "C17.R5"),
    Twin("resume header from the published attribute, lower-case name, inline", _C, _HEADERS, 'headers={"Connection": "keep-alive", "last-event-id": f"{stream._last_sequence}"},', "C17.R5"),
    Twin("resume header computed once before the retry loop", _C, *_multi(_C, [
        ("            attempts = 0\n            try:\n                while True:\n", '            attempts = 0\n            resume = {"Connection": "keep-alive", "Last-Event-ID": str(last_sequence)}\n            try:\n                while True:\n'),
        (_HEADERS, "headers=resume,")]), "C17.R5"),
    Twin("resume header from the initial position", _C, _HEADERS, 'headers={"Connection": "keep-alive", "Last-Event-ID": str(after_sequence)},', "C17.R5"),
    Twin("benign: resume header from the reader's cursor, inline", _C, _HEADERS, 'headers={"Connection": "keep-alive", "Last-Event-ID": str(last_sequence)},', None),
    Twin("benign: seed shape with the reader's cursor through a per-connection temporary", _C, *_multi(_C, [
        (_GET_CLIENT, _RETRY_I + "position = str(last_sequence)\n" + _RETRY_I + 'headers = {"Connection": "keep-alive"}\n' + _RETRY_I + "if attempts > 0:\n" + _RETRY_I + '    headers["Last-Event-ID"] = position\n' + _GET_CLIENT),
        (_HEADERS, "headers=headers,")]), None),
    Twin("benign: consumer's cursor in a header the server does not read", _C, _HEADERS, 'headers={"Connection": "keep-alive", "X-Consumer-Position": str(stream.last_sequence)},', None),
    Twin("benign: request headers from a module-level constant", _C, *_multi(_C, [
        ("_QueueItem = _QueuedEvent | _QueuedError | _QueuedDone\n", '_QueueItem = _QueuedEvent | _QueuedError | _QueuedDone\n\n_STREAM_HEADERS = {"Connection": "keep-alive"}\n'),
        (_HEADERS, "headers=_STREAM_HEADERS,")]), None),
]
