"""C18 — events and ticks survive serialization unchanged.

Writer/reader agreement rules over the three formats (JsonSerializer tagging, client envelope, persisted tick
adapter) and the pydantic hooks that feed them.  Decided: key sets, name forms, union/alias inventories, recursion
of the tagging encoder into hook-injected containers, hook override completeness, exception payload form, and (R9) that the
presence test under which a hook writes a private attribute skips only the value the __init__ chain restores by itself
(writer guard and reader default evaluated together over a finite sample of the attribute's declared type), and (R10) that the
payload a writer stores as a bare dump (JsonSerializer's tagged dicts, the client envelope's `value`) reaches the inverse
constructor on the read side without depending on the tagging decoder: the reader interprets exactly the parts of the wire
form the writer encoded (dependence slice of the constructor argument + CFG reachability).
Not decided: value equality for arbitrary payloads (quantifies over inputs), pydantic's own field round trip,
classes that are not reachable by an attribute path from their module (`<locals>`).
"""

from __future__ import annotations

import ast
from pathlib import Path

from ..astx import call_name, dotted, enclosing_stmt, expand, kwarg, last, reaching_def
from ..index import AnchorError, FuncNode, _set_parents, enclosing_class, enclosing_function, parent, qualname_of
from ..selftest import Twin

EXPLANATION = (
    "Static writer/reader agreement for workflows/events.py, context/serializers.py, context/utils.py, runtime/types/ticks.py, "
    "runtime/types/results.py and client/protocol/serializable_events.py. "
    "R1 keys: every tagged dict JsonSerializer.serialize_value writes has a deserialize_value branch on the same tag that reads only written keys and "
    "uses the inverse constructor (model_dump/model_validate, to_dict/from_dict); every key a model_serializer hook injects is routed back into the "
    "same private attribute by the class's __init__ chain; the exception dict's keys are the ones the validator reads; on the paths where the value is known to be a "
    "plain dict / list (path facts of the return statements) both sides return the container rebuilt element-wise through serialize_value / deserialize_value "
    "(comprehension, dict()/list() around a generator or map, or an empty accumulator filled by one unconditional loop over the value; element *values*, not keys). "
    "R2 name form: every function that writes `module + '.' + name` is paired with the resolver import_module_from_qualified_name; a writer that emits "
    "__qualname__ (dotted for nested classes) needs a resolver that walks attributes, a single rsplit/getattr resolver accepts __name__ only; the resolver's depth is decided by "
    "interpreting its AST on a three-level model program (pkg.mod.Top / Outer.Inner / Outer.Mid.Leaf; import_module and getattr are modelled). Once the resolver walks paths, a writer that "
    "truncates to __name__ is the remaining reason a class nested in another class does not load (name-complete). "
    "R3 inventories: every Annotated alias with a PlainSerializer also has a PlainValidator (and vice versa); every Tick* model is a member of WorkflowTick and "
    "every result model of StepFunctionResult, with distinct Literal discriminators equal to their defaults; no persisted model field is annotated with a raw "
    "Event / Exception / type[...] instead of its Serializable alias. "
    "R4 recursion: a hook that injects a container of arbitrary user values (annotation mentions Any) must pass it through the tagging encoder "
    "(serialize_value) and the __init__ chain through deserialize_value; a raw injection is flattened by model_dump(mode='json'). "
    "R5 the three envelope writers take the payload from model_dump(mode='json') and the readers from model_validate. "
    "R6 override completeness: pydantic keeps one model_serializer per class, so a subclass hook must delegate to, or repeat, every injection of the hooks it replaces. "
    "R8 writer completeness: every model_dump / model_dump_json call in a function on a writer path (JsonSerializer, envelope writers incl. client send and server stream, field serializers, "
    "serializer hooks, and what they call three deep) and every dump through the tick TypeAdapter anywhere in the repo passes no exclude_unset / exclude_defaults / exclude_none / exclude / include that "
    "can drop a declared field (literal, **dict built nearby, or module constant; constant False/None is fine). "
    "R9 presence round trip: for every private attribute a model_serializer hook injects under a key, and for every sample value v of the attribute's declared type "
    "(Any: None, False, True, 0, 1, 0.0, 1.5, '', 'x', [], [0], {}, {'k': 0}; dict / list / str / int / float / bool: the falsy member and truthy ones), the rule evaluates on the AST "
    "(nothing of /repo runs): whether the injection statement is executed when self.<attr> == v (dominating path facts that depend on self, interpreted on a model object; early return, nested if, "
    "a local holding the test, the public property are the same thing), the value written when the injected expression is small and pure, and what the __init__ chain puts back into the attribute "
    "from a dump with the key (the forwarded keyword expression) and without it (parameter default / PrivateAttr default). Obligation: v comes back as v, same type. A hook may therefore omit exactly "
    "the value the reader restores by itself (`is not None` for result, empty for _data) and nothing else; a truthiness test on an `Any` attribute loses 0 / False / 0.0 / '' / [] / {} in all three formats. "
    "Guards about anything other than the object are left open (assumed to hold); a guard on the attribute that cannot be evaluated is an analysis error. "
    "R10 opaque payloads: the parts of the wire form the reader interprets must be exactly the parts the writer encoded. serialize_value stores the payload of a tagged dict as the bare dump "
    "(value.model_dump(mode='json') / value.to_dict(); anything else is an analysis error) and the envelope writers store event.model_dump(mode='json'): none of it goes through the tagging encoder, and "
    "the encoder cannot mark a user dict that carries the tag keys as literal (plain dicts are rebuilt key by key). Decided: for every inverse-constructor call under a tag branch of deserialize_value, for "
    "every model_validate(<envelope>.value) in EventEnvelope.parse, the constructor argument does not depend on a reference to the tagging decoder (deserialize_value, or a function of serializers.py / events.py / "
    "serializable_events.py that runs it, two calls deep; call or bare reference as in map(...)): may-dependence slice of the argument inside the reader (locals, rebinding of the parameter, in-place stores into it), "
    "restricted to statements from which the constructor call is reachable in the CFG; and no model_validator / field_validator of the EventEnvelope* models refers to the decoder. Breaking it turns user data that "
    "is itself shaped like the wire format (a ctx.to_dict() snapshot or relayed stored result inside a dynamic field, a StopEvent result, a dict / Any field) from the dict that was written into a model instance, "
    "or makes the read raise ImportError when the named class is not importable. Planted readers (five interpreting shapes, two harmless uses of the decoder) in fixtures/c18/interpreted_payload.py are analysed on every run. "
    "Not decided by R10: the same ambiguity for a tag-shaped dict stored at the top level of a value given to JsonSerializer (inherent in the format: the writer has no escape). "
    "R7 exception payload: what the writer records as the message (rendering str(exc) vs constructor args) must be what the reader feeds back (cls(msg) vs cls(*args)). "
    "NOT decided: equality of arbitrary payload values, behaviour of pydantic itself, tuples/sets (not JSON-representable), AddWaiter.requirements (dropped by design)."
)
TRUSTED = [
    "CPython ast",
    "pydantic: one effective model_serializer per class (the most derived), wrap handler serialises declared fields only, returned values are dumped as Any",
    "pydantic: model_validate(model_dump(mode='json')) restores declared fields",
    "importlib.import_module / getattr semantics",
]
TECHNIQUE = "writer/reader table agreement (keys, name forms, inventories) over the AST of the serializer hooks and validators; finite evaluation of hook guard + reader default over samples of the declared type; dependence slice + CFG reachability of the payload handed to the inverse constructors (no tagging decoder on an opaque payload)"

EV = "workflows.events"
SER = "workflows.context.serializers"
UT = "workflows.context.utils"
TK = "workflows.runtime.types.ticks"
RS = "workflows.runtime.types.results"
ENV = "llama_agents.client.protocol.serializable_events"

INVERSE = {"model_dump": {"model_validate"}, "to_dict": {"from_dict"}, "dict": {"parse_obj", "model_validate"}, "model_dump_json": {"model_validate_json"}}
RAW_TYPES = {"Event", "Exception", "BaseException", "EventType"}


# ============================================================================ helpers


def _deco(fn: ast.AST, name: str) -> ast.AST | None:
    for d in getattr(fn, "decorator_list", []):
        f = d.func if isinstance(d, ast.Call) else d
        if last(dotted(f)) == name:
            return d
    return None


def _const_keys_read(root: ast.AST, var: str) -> dict[str, ast.AST]:
    """Keys read from dict variable `var` inside root: var["k"], var.get("k"), "k" in var."""
    out: dict[str, ast.AST] = {}
    for n in ast.walk(root):
        if isinstance(n, ast.Subscript) and dotted(n.value) == var and isinstance(n.slice, ast.Constant) and isinstance(n.slice.value, str) and isinstance(n.ctx, ast.Load):
            out.setdefault(n.slice.value, n)
        elif isinstance(n, ast.Call) and isinstance(n.func, ast.Attribute) and n.func.attr in ("get", "pop") and dotted(n.func.value) == var and n.args and isinstance(n.args[0], ast.Constant) and isinstance(n.args[0].value, str):
            out.setdefault(n.args[0].value, n)
        elif isinstance(n, ast.Compare) and len(n.ops) == 1 and isinstance(n.ops[0], (ast.In, ast.NotIn)) and isinstance(n.left, ast.Constant) and isinstance(n.left.value, str) and dotted(n.comparators[0]) == var:
            out.setdefault(n.left.value, n)
    return out


def _dict_literals(fn: ast.AST) -> list[ast.Dict]:
    return [d for d in ast.walk(fn) if isinstance(d, ast.Dict) and d.keys and all(isinstance(k, ast.Constant) and isinstance(k.value, str) for k in d.keys)]


def _dict_get(d: ast.Dict, key: str) -> ast.AST | None:
    for k, v in zip(d.keys, d.values):
        if isinstance(k, ast.Constant) and k.value == key:
            return v
    return None


def _class_fields(cls: ast.ClassDef) -> list[ast.AnnAssign]:
    return [b for b in cls.body if isinstance(b, ast.AnnAssign) and isinstance(b.target, ast.Name)]


def _literal_of(ann: ast.AST) -> list[str] | None:
    if isinstance(ann, ast.Subscript) and last(dotted(ann.value)) == "Literal":
        elts = ann.slice.elts if isinstance(ann.slice, ast.Tuple) else [ann.slice]
        if all(isinstance(e, ast.Constant) for e in elts):
            return [e.value for e in elts]
    return None


def _union_members(e: ast.AST) -> list[str]:
    """Names of a `A | B | C[...]` union (or Union[...])."""
    if isinstance(e, ast.BinOp) and isinstance(e.op, ast.BitOr):
        return _union_members(e.left) + _union_members(e.right)
    if isinstance(e, ast.Subscript):
        if last(dotted(e.value)) == "Union":
            out = []
            for x in e.slice.elts if isinstance(e.slice, ast.Tuple) else [e.slice]:
                out += _union_members(x)
            return out
        d = dotted(e.value)
        return [last(d)] if d else []
    d = dotted(e)
    return [last(d)] if d else []


def _module_assign(m, name: str) -> ast.AST | None:
    for s in m.tree.body:
        if isinstance(s, ast.Assign) and any(isinstance(t, ast.Name) and t.id == name for t in s.targets):
            return s.value
        if isinstance(s, ast.AnnAssign) and isinstance(s.target, ast.Name) and s.target.id == name and s.value is not None:
            return s.value
    return None


def _annotated_aliases(m) -> dict[str, tuple[ast.AST, ast.AST, dict[str, ast.Call]]]:
    """name -> (assign stmt, base type expr, {PlainSerializer: call, PlainValidator: call, ...})"""
    out = {}
    for s in m.tree.body:
        if isinstance(s, ast.Assign) and len(s.targets) == 1 and isinstance(s.targets[0], ast.Name) and isinstance(s.value, ast.Subscript) and last(dotted(s.value.value)) == "Annotated":
            elts = s.value.slice.elts if isinstance(s.value.slice, ast.Tuple) else [s.value.slice]
            marks = {last(call_name(c)): c for c in elts[1:] if isinstance(c, ast.Call) and call_name(c)}
            out[s.targets[0].id] = (s, elts[0], marks)
    return out


def _raw_names(ann: ast.AST) -> list[str]:
    """Raw event / exception / class-object types inside an annotation."""
    out = []
    for n in ast.walk(ann):
        if isinstance(n, ast.Name) and n.id in RAW_TYPES:
            out.append(n.id)
        if isinstance(n, ast.Subscript) and dotted(n.value) in ("type", "Type", "typing.Type"):
            out.append("type[...]")
    return out


class _Hook:
    def __init__(self, m, cls, fn):
        self.m, self.cls, self.fn = m, cls, fn
        self.data_var = None
        self.inj: list[tuple[str, ast.AST, ast.AST]] = []  # key, value expr, stmt
        self.delegates = False
        for s in ast.walk(fn):
            if isinstance(s, ast.Assign) and len(s.targets) == 1 and isinstance(s.targets[0], ast.Name) and isinstance(s.value, ast.Call):
                c = s.value
                handler = fn.args.args[1].arg if len(fn.args.args) > 1 else None
                if dotted(c.func) == handler:
                    self.data_var = s.targets[0].id
                elif isinstance(c.func, ast.Attribute) and (isinstance(c.func.value, ast.Call) and call_name(c.func.value) == "super" or (dotted(c.func.value) or "")[:1].isupper()) and any(dotted(a) == handler for a in c.args):
                    self.data_var = s.targets[0].id
                    self.delegates = True
        if self.data_var is None:
            raise AnchorError(f"C18: hook {cls.name}.{fn.name} does not obtain its dict from the wrap handler (or from the base hook)")
        for s in ast.walk(fn):
            if isinstance(s, ast.Assign) and len(s.targets) == 1:
                t = s.targets[0]
                if isinstance(t, ast.Subscript) and dotted(t.value) == self.data_var and isinstance(t.slice, ast.Constant) and isinstance(t.slice.value, str):
                    self.inj.append((t.slice.value, s.value, s))


def _self_attr_in(e: ast.AST) -> str | None:
    """The private attribute of self an injected value is computed from."""
    for n in ast.walk(e):
        if isinstance(n, ast.Attribute) and dotted(n.value) == "self" and n.attr.startswith("_") and not n.attr.startswith("__"):
            return n.attr
    return None


def _private_decl(repo, ref: str, attr: str) -> tuple[ast.AnnAssign | None, str]:
    for r in [ref] + repo.mro_names(ref):
        if ":" in r and repo._has_cls(r):
            _m, c = repo.cls(r)
            for f in _class_fields(c):
                if f.target.id == attr and isinstance(f.value, ast.Call) and last(call_name(f.value)) == "PrivateAttr":
                    return f, r
    return None, ""


# model program for the resolver: modules pkg, pkg.mod; pkg.mod.Top; pkg.mod.Outer.Inner; pkg.mod.Outer.Mid.Leaf
_MODEL_MODULES = {"pkg": {"mod": "M:pkg.mod"}, "pkg.mod": {"Top": "C:Top", "Outer": "C:Outer"}}
_MODEL_ATTRS = {"C:Outer": {"Inner": "C:Outer.Inner", "Mid": "C:Outer.Mid"}, "C:Outer.Mid": {"Leaf": "C:Outer.Mid.Leaf"}, "M:pkg.mod": _MODEL_MODULES["pkg.mod"]}
_MODEL_QUERIES = [("pkg.mod.Top", "C:Top", 1), ("pkg.mod.Outer.Inner", "C:Outer.Inner", 2), ("pkg.mod.Outer.Mid.Leaf", "C:Outer.Mid.Leaf", 3)]


def _resolver_depth(fn: ast.AST) -> tuple[str, str]:
    """Depth of attribute paths the resolver resolves, decided by interpreting its AST (no repo code runs) on a
    three-level model program; structural reading as a fallback when the interpreter does not support the code."""
    from ..absint import Interp, Raised, Unsupported

    def imp(name):
        if name in _MODEL_MODULES:
            return "M:" + name
        raise Raised("ImportError", f"No module named {name!r}")

    def ga(obj, name, *default):
        table = _MODEL_MODULES.get(obj[2:]) if isinstance(obj, str) and obj.startswith("M:") else _MODEL_ATTRS.get(obj)
        if table and name in table:
            return table[name]
        if default:
            return default[0]
        raise Raised("AttributeError", f"{obj} has no attribute {name!r}")

    hooks = {"import_module": imp, "importlib.import_module": imp, "getattr": ga}
    try:
        got = []
        for q, want, lvl in _MODEL_QUERIES:
            try:
                r = Interp({}, hooks).call_function(fn, {fn.args.args[0].arg: q})
            except Raised as x:
                r = f"<{x.name}>"
            got.append((lvl, r == want, r))
        if not got[0][1]:
            raise AnchorError(f"C18.R2: the resolver (AST-interpreted) does not resolve a top-level class: pkg.mod.Top -> {got[0][2]}")
        deepest = max(lvl for lvl, ok, _r in got if ok) if all(ok for lvl, ok, _r in got if lvl <= max(l2 for l2, o2, _ in got if o2)) else 1
        desc = "AST-interpreted on a model program: " + ", ".join(f"{q} -> {r}" for (q, _w, _l), (_lv, _ok, r) in zip(_MODEL_QUERIES, got))
        return ("walk" if deepest == 3 else "one" if deepest == 1 else "partial"), desc
    except Unsupported:
        pass
    return _resolver_depth_structural(fn)


def _resolver_depth_structural(fn: ast.AST) -> tuple[str, str]:
    """'one' (module = everything before the last dot, one getattr) or 'walk' (attribute path)."""
    src = ast.unparse(fn)
    getattrs = [c for c in ast.walk(fn) if isinstance(c, ast.Call) and call_name(c) == "getattr"]
    for c in ast.walk(fn):
        if isinstance(c, ast.Call) and last(call_name(c)) in ("resolve_name", "locate", "attrgetter"):
            return "walk", f"uses {call_name(c)}"
        if isinstance(c, ast.Call) and last(call_name(c)) == "reduce" and c.args and dotted(c.args[0]) == "getattr":
            return "walk", "reduce(getattr, …)"
    in_loop = [g for g in getattrs if any(isinstance(a, (ast.For, ast.While)) for a in _ancestors(g, fn))]
    if in_loop:
        return "walk", "getattr inside a loop over the name parts"
    last_dot = [c for c in ast.walk(fn) if isinstance(c, ast.Call) and isinstance(c.func, ast.Attribute) and (
        (c.func.attr == "rsplit" and (len(c.args) == 2 and isinstance(c.args[1], ast.Constant) and c.args[1].value == 1 or (kwarg(c, "maxsplit") is not None and getattr(kwarg(c, "maxsplit"), "value", None) == 1)))
        or c.func.attr == "rpartition")]
    if last_dot and getattrs:
        return "one", f"`{ast.unparse(last_dot[0])}` + one getattr"
    raise AnchorError(f"C18.R2: resolution depth of `{getattr(fn, 'name', '?')}` not recognised ({len(getattrs)} getattr, source {len(src)} chars)")


def _ancestors(n: ast.AST, stop: ast.AST):
    p = parent(n)
    while p is not None and p is not stop:
        yield p
        p = parent(p)


def _name_writers(m) -> list[tuple[ast.AST, str, ast.AST]]:
    """Functions that build `<x>.__module__ . <x>.__name__|__qualname__`: (fn, form, expr)."""
    out = []
    for q, fn in m.functions.items():
        for e in ast.walk(fn):
            if isinstance(e, (ast.JoinedStr, ast.BinOp)) and not isinstance(parent(e), (ast.JoinedStr, ast.BinOp, ast.FormattedValue)):
                attrs = {a.attr for a in ast.walk(e) if isinstance(a, ast.Attribute)}
                if "__module__" in attrs and attrs & {"__name__", "__qualname__"} and enclosing_function(e) is fn:
                    form = "__qualname__" if "__qualname__" in attrs else "__name__"
                    out.append((fn, form, e))
    return out


# ============================================================================ the check


def _element_values(target: ast.AST, it: ast.AST, kind: str, param: str) -> set[str]:
    """Expressions (normalised text) that denote *the element value* of the plain container `param` inside an iteration
    `for target in it`: list -> the loop variable of `for x in param` (second of `enumerate(param)`); dict -> the second
    variable of `for k, v in param.items()`, `param[k]` for `for k in param` / `param.keys()`, the variable of `param.values()`."""
    def is_param(e: ast.AST) -> bool:
        return isinstance(e, ast.Name) and e.id == param

    def meth(e: ast.AST, name: str) -> bool:
        return isinstance(e, ast.Call) and not e.args and not e.keywords and isinstance(e.func, ast.Attribute) and e.func.attr == name and is_param(e.func.value)

    pair = target.elts if isinstance(target, (ast.Tuple, ast.List)) and len(target.elts) == 2 and all(isinstance(t, ast.Name) for t in target.elts) else None
    if kind == "list":
        if is_param(it) and isinstance(target, ast.Name):
            return {target.id}
        if isinstance(it, ast.Call) and call_name(it) == "enumerate" and len(it.args) == 1 and is_param(it.args[0]) and pair:
            return {pair[1].id}
        return set()
    if meth(it, "items") and pair:
        return {pair[1].id}
    if (is_param(it) or meth(it, "keys")) and isinstance(target, ast.Name):
        return {f"{param}[{target.id}]"}
    if meth(it, "values") and isinstance(target, ast.Name):
        return {target.id}  # only useful to a build that also walks the keys; kept for completeness
    return set()


def _through(e: ast.AST, callee: str, elems: set[str]) -> bool:
    """`e` sends an element value through `callee` (…callee(<element value>)…)."""
    return any(isinstance(c, ast.Call) and last(call_name(c)) == callee and len(c.args) == 1 and not c.keywords and " ".join(ast.unparse(c.args[0]).split()) in elems for c in ast.walk(e))


def _rebuilds_through(fn: ast.AST, ret: ast.Return, kind: str, callee: str, param: str) -> bool:
    """Is the value of `ret` a new container of `kind` holding, for every element of `param`, that element's value sent
    through `callee`?  Recognised builds: comprehension (no filter); dict(...)/list(...) around a generator / comprehension /
    map(callee, param); a local accumulator created empty and filled unconditionally by the for loop over `param` that
    immediately precedes the return in the same block.  A returned local that is filled in place in any other way is an
    AnchorError; any other returned expression (the raw parameter, a tagged dict, a constructor call) does not recurse."""
    from ..astx import stmt_list_of

    e = expand(ret.value, ret)
    comp_kinds = {"dict": ast.DictComp, "list": ast.ListComp}

    def comp_ok(c: ast.AST, as_kind: str) -> bool:
        if len(c.generators) != 1 or c.generators[0].ifs or c.generators[0].is_async:
            return False
        elems = _element_values(c.generators[0].target, c.generators[0].iter, kind, param)
        if as_kind == "dict":
            if isinstance(c, ast.DictComp):
                return _through(c.value, callee, elems)
            return isinstance(c.elt, ast.Tuple) and len(c.elt.elts) == 2 and _through(c.elt.elts[1], callee, elems)
        return not isinstance(c, ast.DictComp) and _through(c.elt, callee, elems)

    if isinstance(e, comp_kinds[kind]):
        return comp_ok(e, kind)
    if isinstance(e, ast.Call) and call_name(e) == kind and len(e.args) == 1 and not e.keywords:
        a = e.args[0]
        if isinstance(a, (ast.GeneratorExp, ast.ListComp)):
            return comp_ok(a, kind)
        if kind == "list" and isinstance(a, ast.Call) and call_name(a) == "map" and len(a.args) == 2 and last(dotted(a.args[0])) == callee and isinstance(a.args[1], ast.Name) and a.args[1].id == param:
            return True
        return False
    if not isinstance(e, ast.Name) or e.id == param:
        return False
    acc = e.id
    uses = [n for n in ast.walk(fn) if isinstance(n, ast.Name) and n.id == acc]
    if not any(isinstance(n.ctx, ast.Store) for n in uses):
        return False  # not a local of this function
    unknown = AnchorError(f"C18.R1: `{fn.name}` returns the local `{acc}` for a plain {kind}; how it is built is not a recognised element-wise rebuild (empty {kind}, then one unconditional for loop over `{param}` storing each element)")
    loc = stmt_list_of(ret)
    if loc is None:
        raise unknown
    lst, i = loc
    loop = lst[i - 1] if i >= 1 else None
    init_val = reaching_def(acc, loop) if loop is not None else None
    if kind == "dict":
        empty = isinstance(init_val, ast.Dict) and not init_val.keys
    else:
        empty = isinstance(init_val, ast.List) and not init_val.elts
    empty = empty or (isinstance(init_val, ast.Call) and call_name(init_val) == kind and not init_val.args and not init_val.keywords)
    if not empty or not isinstance(loop, ast.For) or loop.orelse or len(loop.body) != 1:
        raise unknown
    elems = _element_values(loop.target, loop.iter, kind, param)
    st = loop.body[0]
    stored = None
    if kind == "dict" and isinstance(st, ast.Assign) and len(st.targets) == 1 and isinstance(st.targets[0], ast.Subscript) and isinstance(st.targets[0].value, ast.Name) and st.targets[0].value.id == acc:
        stored = st.value
    if kind == "list" and isinstance(st, ast.Expr) and isinstance(st.value, ast.Call) and isinstance(st.value.func, ast.Attribute) and st.value.func.attr == "append" \
            and isinstance(st.value.func.value, ast.Name) and st.value.func.value.id == acc and len(st.value.args) == 1:
        stored = st.value.args[0]
    # the accumulator is touched nowhere else: its binding, the store in the loop, the return
    if stored is None or len(uses) != 3 or any(isinstance(n, ast.Name) and n.id == acc for n in ast.walk(stored)):
        raise unknown
    return _through(stored, callee, elems)


def _recurses_into(fn: ast.AST, kind: str, callee: str) -> bool:
    """Does `fn(self, x)`, on the paths where `isinstance(x, kind)` is known to hold (path facts of the return statements,
    so nested ifs / early returns / elif chains read alike), return a `kind` rebuilt element-wise through `callee`?"""
    from ..astx import facts_at, has_fact
    from ..cfg import CFG

    if len(fn.args.args) < 2:
        raise AnchorError(f"C18.R1: `{fn.name}` does not take (self, value)")
    param = fn.args.args[1].arg
    cfg = CFG(fn)
    under, found = 0, False
    for r in ast.walk(fn):
        if not isinstance(r, ast.Return) or r.value is None or enclosing_function(r) is not fn:
            continue
        nodes = cfg.nodes_of(r)
        if not nodes or not has_fact(facts_at(cfg, nodes[0]), f"isinstance({param}, {kind})"):
            continue
        under += 1
        found = _rebuilds_through(fn, r, kind, callee, param) or found
    if not under and any(isinstance(c, ast.Call) and last(call_name(c)) == callee for c in ast.walk(fn)) and any(isinstance(n, ast.Name) and n.id == kind for n in ast.walk(fn)):
        raise AnchorError(f"C18.R1: `{fn.name}` mentions `{kind}` and calls `{callee}`, but no return statement is guarded by isinstance({param}, {kind}); the dispatch on plain containers is not recognised")
    return found


# ============================================================================ R10 envelope payloads are opaque to the reader

ALL_INVERSE = {n for v in INVERSE.values() for n in v}
DECODER = "deserialize_value"


def _refs_to(e: ast.AST, names: set[str]) -> list[ast.AST]:
    """References (call or bare, e.g. `map(self.deserialize_value, …)`) to one of `names` inside e."""
    return [n for n in ast.walk(e) if (isinstance(n, ast.Attribute) and n.attr in names) or (isinstance(n, ast.Name) and isinstance(n.ctx, ast.Load) and n.id in names)]


def _decoder_names(mods) -> set[str]:
    """The tagging decoder and every function of the paired modules that runs it (two calls deep, by name)."""
    dec = {DECODER}
    for _ in range(2):
        for m in mods:
            for q, f in m.functions.items():
                n = q.rsplit(".", 1)[-1]
                if n not in dec and not n.startswith("__") and any(_refs_to(st, dec) for st in f.body):
                    dec.add(n)
    return dec


def _ctor_payload(c: ast.Call) -> ast.AST | None:
    if c.args:
        return c.args[0]
    return c.keywords[0].value if c.keywords and c.keywords[0].arg is not None else None


def _interpreting_refs(fn: ast.AST, ctor: ast.Call, dec: set[str]) -> list[ast.AST]:
    """References to the tagging decoder that the payload handed to the inverse constructor `ctor` may depend on: the
    may-dependence slice of the argument inside fn (locals, rebinding of the parameter, in-place stores into it), restricted to
    statements from which the constructor call can be reached in the CFG (a rebinding in another branch, or after the
    call, does not flow into it)."""
    from ..astx import dep_slice
    from ..cfg import CFG

    arg = _ctor_payload(ctor)
    if arg is None:
        return []
    cfg = CFG(fn)
    target = enclosing_stmt(ctor)
    tnodes = set(cfg.nodes_of(target)) if target is not None else set()
    out: list[ast.AST] = []
    seen: set[int] = set()
    for e in dep_slice(fn, arg).exprs:
        for r in _refs_to(e, dec):
            if id(r) in seen:
                continue
            seen.add(id(r))
            st = enclosing_stmt(r)
            snodes = cfg.nodes_of(st) if st is not None else []
            if st is target or not tnodes or not snodes or cfg.reach(snodes) & tnodes:
                out.append(r)
    return out


def _shown(r: ast.AST) -> str:
    p = parent(r)
    while p is not None and not isinstance(p, (ast.Call, ast.stmt)):
        p = parent(p)
    return " ".join(ast.unparse(p if isinstance(p, ast.Call) else r).split())[:70]


_OPAQUE_WHY = ("the writer stores the dump as is and the tagging encoder has no escape for user dicts that carry the tag keys (a plain dict is rebuilt key by key), so a payload "
               "that contains data shaped like the wire format itself ({'__is_pydantic': true, 'qualified_name': …, 'value': …}: a ctx.to_dict() snapshot, a relayed stored result, kept in a "
               "dynamic field / StopEvent result / dict- or Any-typed field) is written as that dict but read back as a model instance, or the whole read raises ImportError / AttributeError "
               "when the named class is not importable in the reading process; the reader may interpret exactly what the writer encoded: hand the stored payload to the constructor unchanged")


def _payload_opacity_json(chk, ser, wfn, rfn, tagged, branches, rvar: str, dec: set[str]) -> int:
    n = 0
    for d, tag in tagged:
        br = [b for b in branches if tag in _const_keys_read(b.test, rvar)]
        if len(br) != 1:
            n += 1  # R1 has reported the missing / ambiguous branch
            continue
        prod = _dict_get(d, "value")
        ptxt = " ".join(ast.unparse(prod).split())[:50] if prod is not None else "?"
        if prod is not None and _refs_to(prod, {"serialize_value"}):
            raise AnchorError(f"C18.R10: serialize_value sends the `{tag}` payload `{ptxt}` through the tagging encoder; whether the reader may then decode it depends on an escape this rule does not model")
        ctors = [c for st in br[0].body for c in ast.walk(st) if isinstance(c, ast.Call) and isinstance(c.func, ast.Attribute) and c.func.attr in ALL_INVERSE and _ctor_payload(c) is not None]
        if not ctors:
            n += 1  # R1 (inverse constructor) has reported it
            continue
        for c in ctors:
            n += 1
            refs = _interpreting_refs(rfn, c, dec)
            chk.ob("C18.R10", f"the `{tag}` payload, stored by serialize_value as the bare dump `{ptxt}` (not sent through the tagging encoder), reaches `{c.func.attr}` in {rfn.name} uninterpreted "
                   f"(the argument does not depend on the tagging decoder {DECODER})", not refs, m=ser, node=c, fn=rfn, instance=f"opaque:{tag}",
                   reason=f"`{' '.join(ast.unparse(c).split())[:90]}` depends on " + ", ".join(f"`{_shown(r)}`" for r in refs[:3]) + ": " + _OPAQUE_WHY)
    return n


def _payload_opacity_envelope(chk, envm, parse: ast.AST, mv: list[ast.Call], dec: set[str]) -> int:
    n = 0
    for i, c in enumerate(mv, 1):
        n += 1
        refs = _interpreting_refs(parse, c, dec)
        chk.ob("C18.R10", f"the client envelope's `value` (the bare model_dump(mode='json') of the event) reaches `{' '.join(ast.unparse(c).split())[:60]}` in EventEnvelope.parse uninterpreted "
               f"(does not depend on the tagging decoder {DECODER})", not refs, m=envm, node=c, fn=parse, instance=f"opaque:EventEnvelope.parse#{i}",
               reason="the argument depends on " + ", ".join(f"`{_shown(r)}`" for r in refs[:3]) + ": " + _OPAQUE_WHY)
    # pydantic validators of the envelope models run inside EventEnvelope.model_validate(<wire dict>), i.e. on the stored value
    for q, f in sorted(envm.functions.items()):
        cls = enclosing_class(f)
        if cls is None or not cls.name.startswith("EventEnvelope") or not (_deco(f, "model_validator") or _deco(f, "field_validator")):
            continue
        n += 1
        refs = [r for st in f.body for r in _refs_to(st, dec)]
        chk.ob("C18.R10", f"validator {q} of the client envelope does not run the tagging decoder over the stored value", not refs, m=envm, node=f, fn=f, instance=f"opaque:validator:{q}",
               reason="it runs " + ", ".join(f"`{_shown(r)}`" for r in refs[:3]) + ": " + _OPAQUE_WHY)
    return n


def run(chk) -> None:
    repo = chk.repo
    ev, ser, ut, tk, rs, envm =(repo.module(x) for x in (EV, SER, UT, TK, RS, ENV))

    # ------------------------------------------------------------------ R8 writer completeness (every dump call on a writer path)
    _writer_completeness(chk, repo)

    # ------------------------------------------------------------------ R1a tagged dicts of JsonSerializer
    _, js = repo.cls(f"{SER}:JsonSerializer")
    meth = {f.name: f for f in js.body if isinstance(f, FuncNode)}
    if "serialize_value" not in meth or "deserialize_value" not in meth:
        raise AnchorError("C18.R1: JsonSerializer.serialize_value / deserialize_value not found")
    wfn, rfn = meth["serialize_value"], meth["deserialize_value"]
    rvar = rfn.args.args[1].arg
    tagged = [(d, next(k.value for k in d.keys if k.value.startswith("__is_"))) for d in _dict_literals(wfn) if any(k.value.startswith("__is_") for k in d.keys)]
    chk.floor("C18.R1", "tagged dict shapes written by serialize_value", len(tagged), 2)
    branches = [n for n in ast.walk(rfn) if isinstance(n, ast.If)]
    for d, tag in tagged:
        wkeys = {k.value for k in d.keys}
        br = [b for b in branches if tag in _const_keys_read(b.test, rvar)]
        if not chk.ob("C18.R1", f"deserialize_value has a branch on the tag `{tag}` that serialize_value writes", len(br) == 1, m=ser, node=d, fn=wfn, instance=f"tag:{tag}",
                      reason=f"{len(br)} reader branches test `{tag}`: a value written with this tag comes back as a plain dict"):
            continue
        b = br[0]
        rkeys = set(_const_keys_read(b.test, rvar)) | {k for st in b.body for k in _const_keys_read(st, rvar)}
        chk.ob("C18.R1", f"the `{tag}` branch reads only keys the writer wrote ({sorted(rkeys)} ⊆ {sorted(wkeys)})", rkeys <= wkeys, m=ser, node=b, fn=rfn, instance=f"keys:{tag}",
               reason=f"reader needs {sorted(rkeys - wkeys)} which the writer never writes")
        prod = _dict_get(d, "value")
        pname = last(call_name(prod)) if isinstance(prod, ast.Call) else None
        cons = {last(call_name(c)) for st in b.body for c in ast.walk(st) if isinstance(c, ast.Call) and any("value" in _const_keys_read(expand(a, st), rvar) for a in c.args)}
        if pname not in INVERSE:
            raise AnchorError(f"C18.R1: producer `{ast.unparse(prod)[:50]}` of the `{tag}` payload is not a known dump")
        chk.ob("C18.R1", f"the `{tag}` payload written by `{pname}` is read by its inverse ({sorted(INVERSE[pname])})", bool(cons & INVERSE[pname]), m=ser, node=b, fn=rfn, instance=f"inverse:{tag}",
               reason=f"reader applies {sorted(c for c in cons if c)} to the payload")
        if pname == "model_dump":
            mode = _resolve_const(_dump_kwargs(prod, ser).get("mode"), prod, ser) if "mode" in _dump_kwargs(prod, ser) else None
            chk.ob("C18.R5", "JsonSerializer dumps the model in JSON mode", isinstance(mode, ast.Constant) and mode.value == "json", m=ser, node=prod, fn=wfn, instance="dump-mode:JsonSerializer",
                   reason="python-mode dump leaves non-JSON values (datetime, enum, nested models) in the payload")
    # recursion over plain containers is symmetric
    for kind, test in (("dict", "dict"), ("list", "list")):
        w_rec = _recurses_into(wfn, kind, "serialize_value")
        r_rec = _recurses_into(rfn, kind, "deserialize_value")
        chk.ob("C18.R1", f"tagging recurses into {kind} values on both sides", w_rec == r_rec and w_rec, m=ser, node=wfn, fn=wfn, instance=f"recurse:{kind}",
               reason=f"writer recurses: {w_rec}, reader recurses: {r_rec}")
    # R10: what the writer stored opaquely the reader hands over uninterpreted
    dec = _decoder_names((ser, ev, envm))
    chk.floor("C18.R10", "tagged payloads of JsonSerializer handed to an inverse constructor", _payload_opacity_json(chk, ser, wfn, rfn, tagged, branches, rvar, dec), 2)
    _fixture_opacity(chk)

    # ------------------------------------------------------------------ hooks (R1b, R4, R6)
    hooks: dict[str, _Hook] = {}
    for q, cls in ev.classes.items():
        for f in cls.body:
            if isinstance(f, FuncNode) and _deco(f, "model_serializer") is not None:
                if q in hooks:
                    chk.observe(f"C18.R6: class {q} defines two model_serializer hooks; pydantic keeps the last one")
                hooks[q] = _Hook(ev, cls, f)
    chk.floor("C18.R1", "model_serializer hooks in workflows.events", len(hooks), 2)
    _mb, base = repo.cls(f"{EV}:DictLikeModel")
    base_init = next((f for f in base.body if isinstance(f, FuncNode) and f.name == "__init__"), None)
    if base_init is None:
        raise AnchorError("C18.R1: DictLikeModel.__init__ not found")
    routes_private = any(isinstance(a, ast.Attribute) and a.attr == "__private_attributes__" for a in ast.walk(base_init)) and any(isinstance(c, ast.Call) and last(call_name(c)) == "__setattr__" for c in ast.walk(base_init))
    ninj = 0
    for q, h in sorted(hooks.items()):
        ref = f"{EV}:{q}"
        for key, val, stmt in h.inj:
            val = expand(val, stmt)
            attr = _self_attr_in(val)
            if attr is None:
                chk.observe(f"C18.R1: hook {q}.{h.fn.name} writes computed key `{key}` = `{ast.unparse(val)[:40]}` (not a stored attribute; not paired)")
                continue
            ninj += 1
            decl, owner = _private_decl(repo, ref, attr)
            found = repo.find_method(ref, "__init__")
            init_ref, _im, init = found if found else ("", None, None)
            ok, why = False, ""
            if decl is None:
                why = f"`{attr}` is not a declared PrivateAttr of {q} or its bases"
            elif key == attr:
                # the base __init__ routes keys that name a private attribute; an explicit keyword of the same name would collide
                explicit = init is not None and init is not base_init and any(isinstance(c, ast.Call) and isinstance(c.func, ast.Attribute) and c.func.attr == "__init__" and any(k.arg == attr for k in c.keywords) and any(k.arg is None for k in c.keywords) for c in ast.walk(init))
                ok = routes_private and not explicit
                why = "DictLikeModel.__init__ no longer routes private-attribute keys" if not routes_private else f"{init_ref.split(':')[-1]}.__init__ passes `{attr}=` explicitly and forwards **kwargs that now also contain `{attr}` (duplicate keyword)"
            else:
                params = {p.arg for p in (init.args.args + init.args.kwonlyargs)} if init is not None else set()
                fwd = init is not None and any(isinstance(c, ast.Call) and isinstance(c.func, ast.Attribute) and c.func.attr == "__init__" and any(k.arg == attr and _name_in(k.value, key) for k in c.keywords) for c in ast.walk(init))
                ok = key in params and fwd and routes_private
                why = f"no __init__ in the chain takes `{key}` and forwards it as `{attr}=` (the key would land in the dynamic-field dict)"
            chk.ob("C18.R1", f"key `{key}` injected by {q}.{h.fn.name} from `self.{attr}` is routed back into `{attr}` by the __init__ chain", ok, m=ev, node=stmt, fn=h.fn, instance=f"hook-reader:{q}.{key}", reason=why)

            # R4: arbitrary user values must go through the tagging encoder
            ann_txt = ast.unparse(decl.annotation) if decl is not None else ""
            if decl is not None and "Any" in {n.id for n in ast.walk(decl.annotation) if isinstance(n, ast.Name)}:
                enc = [c for c in ast.walk(val) if isinstance(c, ast.Call) and (last(call_name(c)) == "serialize_value" or _calls_one_deep(ev, c, "serialize_value"))]
                chk.ob("C18.R4", f"{q}.{h.fn.name} injects `{key}` (from `self.{attr}: {ann_txt}`, arbitrary user values) through the tagging encoder serialize_value", bool(enc), m=ev, node=stmt, fn=h.fn,
                       instance=f"inject:{q}.{key}", detail="" if (isinstance(val, ast.Attribute) and dotted(val.value) == "self") else "via:" + ast.unparse(val)[:40], reason=f"raw injection `{ast.unparse(stmt)}`: the dump of the hook's dict flattens nested models / events inside it to plain dicts, and no reader can restore their class")
                if enc:
                    inits = [f for r in [ref] + repo.mro_names(ref) if ":" in r and repo._has_cls(r) for f in repo.cls(r)[1].body if isinstance(f, FuncNode) and f.name in ("__init__", "model_post_init")]
                    dec = any(isinstance(c, ast.Call) and (last(call_name(c)) == "deserialize_value" or _calls_one_deep(ev, c, "deserialize_value")) for f in inits for c in ast.walk(f))
                    chk.ob("C18.R4", f"the __init__ chain of {q} decodes `{key}` with deserialize_value", dec, m=ev, node=init or stmt, fn=init, instance=f"decode:{q}.{key}",
                           reason="the writer tags nested models but no reader un-tags them: they come back as {'__is_pydantic': …} dicts")
    chk.floor("C18.R1", "attribute injections by hooks", ninj, 2)

    # R9: presence round trip of every hook-injected attribute (writer guard o reader default, finite evaluation)
    npres = sum(_presence_round_trip(chk, repo, ev, q, h, f"{EV}:{q}", base_init) for q, h in sorted(hooks.items()))
    chk.floor("C18.R9", "hook-injected private attributes examined for their presence round trip", npres, 2)

    # R6: a subclass hook replaces the hooks of its bases
    nover = 0
    for q, h in sorted(hooks.items()):
        ref = f"{EV}:{q}"
        for anc in repo.mro_names(ref):
            aq = anc.split(":")[-1]
            if anc.startswith(EV + ":") and aq in hooks:
                nover += 1
                for key, val, stmt in hooks[aq].inj:
                    own = any(k == key for k, _v, _s in h.inj)
                    chk.ob("C18.R6", f"{q}.{h.fn.name} replaces {aq}.{hooks[aq].fn.name} (one model_serializer per class) and still emits `{key}`", h.delegates or own, m=ev, node=h.fn, fn=h.fn,
                           instance=f"override:{q}.{key}", reason=f"the hook starts from the bare handler and never writes `{key}`: `{ast.unparse(val)}` of a {q} (and of every subclass) is dropped from every dump")
    chk.floor("C18.R6", "hooks that replace a base hook", nover, 1)
    # subclasses elsewhere in the repo that add their own hook
    for r, m2, c2 in repo.all_classes():
        if m2 is ev or not any(isinstance(f, FuncNode) and _deco(f, "model_serializer") for f in c2.body):
            continue
        if f"{EV}:DictLikeModel" in repo.mro_names(r):
            h2 = _Hook(m2, c2, next(f for f in c2.body if isinstance(f, FuncNode) and _deco(f, "model_serializer")))
            for aq, hb in hooks.items():
                if f"{EV}:{aq}" in repo.mro_names(r):
                    for key, val, stmt in hb.inj:
                        chk.ob("C18.R6", f"{r} replaces {aq}'s hook and still emits `{key}`", h2.delegates or any(k == key for k, _v, _s in h2.inj), m=m2, node=h2.fn, fn=h2.fn, instance=f"override:{c2.name}.{key}",
                               reason=f"`{key}` is dropped from every dump of {c2.name}")
            _presence_round_trip(chk, repo, m2, c2.name, h2, r, base_init)

    # ------------------------------------------------------------------ R3 aliases, unions, raw annotations
    aliases = _annotated_aliases(ev)
    ser_aliases = {n: a for n, a in aliases.items() if "PlainSerializer" in a[2] or "PlainValidator" in a[2]}
    chk.floor("C18.R3", "Annotated serializer aliases in workflows.events", len(ser_aliases), 5)
    pairs: dict[str, tuple[str, str]] = {}
    for n, (stmt, base_t, marks) in sorted(ser_aliases.items()):
        both = "PlainSerializer" in marks and "PlainValidator" in marks
        chk.ob("C18.R3", f"alias {n} has both a PlainSerializer and a PlainValidator", both, m=ev, node=stmt, instance=f"alias:{n}",
               reason=f"only {sorted(marks)}: the value is written in a form nothing reads back (or read from a form nothing writes)")
        if both:
            s_fn, v_fn = dotted(marks["PlainSerializer"].args[0]), dotted(marks["PlainValidator"].args[0])
            if s_fn not in ev.functions or v_fn not in ev.functions:
                raise AnchorError(f"C18.R3: serializer/validator functions of {n} not found in workflows.events")
            pairs[n] = (s_fn, v_fn)

    def union_check(m, union_name: str, floor: int, rule_label: str, class_filter) -> set[str]:
        u = _module_assign(m, union_name)
        if u is None:
            raise AnchorError(f"C18.R3: `{union_name}` not found in {m.rel}")
        disc = None
        if isinstance(u, ast.Subscript) and last(dotted(u.value)) == "Annotated":
            elts = u.slice.elts
            disc = next((c for c in elts[1:] if isinstance(c, ast.Call) and last(call_name(c)) == "Discriminator"), None)
            u = elts[0]
        members = _union_members(u)
        chk.floor("C18.R3", f"members of {union_name}", len(members), 2)
        examined = 0
        lits: dict[str, str] = {}
        for q, c in m.classes.items():
            if "." in q or not class_filter(c):
                continue
            tfield = next((f for f in _class_fields(c) if f.target.id == "type" and _literal_of(f.annotation)), None)
            if tfield is None:
                continue
            examined += 1
            chk.ob("C18.R3", f"{q} is a member of {union_name}", q in members, m=m, node=c, instance=f"member:{q}",
                   reason=f"a persisted {q} cannot be read back through the {union_name} adapter (no union arm has its discriminator)")
            lit = _literal_of(tfield.annotation)
            dflt = tfield.value.value if isinstance(tfield.value, ast.Constant) else None
            chk.ob("C18.R3", f"{q}.type is a single Literal equal to its default ({lit})", len(lit) == 1 and dflt == lit[0], m=m, node=tfield, instance=f"discriminator-default:{q}",
                   reason=f"Literal {lit} vs default {dflt!r}: the tag written does not select this class on read")
            if lit[0] in lits and q in members:
                chk.ob("C18.R3", f"discriminator `{lit[0]}` is unique in {union_name}", False, m=m, node=tfield, instance=f"discriminator-unique:{q}",
                       reason=f"`{lit[0]}` is also the tag of {lits[lit[0]]}: one of the two is read back as the other class")
            lits.setdefault(lit[0], q)
        chk.floor("C18.R3", f"model classes with a Literal `type` tag in {m.name.rsplit('.', 1)[-1]}", examined, floor)
        for mem in members:
            if mem not in m.classes:
                raise AnchorError(f"C18.R3: union member {mem} of {union_name} is not a class of {m.rel}")
        return set(members)

    is_model = lambda c: any(last(dotted(b.value if isinstance(b, ast.Subscript) else b)) == "BaseModel" or isinstance(b, ast.Subscript) and last(dotted(b.value)) == "BaseModel" for b in c.bases)  # noqa: E731
    tick_members = union_check(tk, "WorkflowTick", 8, "tick", lambda c: c.name.startswith("Tick") and is_model(c))
    wt = _module_assign(tk, "WorkflowTick")
    has_disc = isinstance(wt, ast.Subscript) and any(isinstance(c, ast.Call) and last(call_name(c)) == "Discriminator" and c.args and isinstance(c.args[0], ast.Constant) and c.args[0].value == "type" for c in ast.walk(wt))
    chk.ob("C18.R3", "WorkflowTick is discriminated on the `type` field", has_disc, m=tk, node=wt, instance="discriminator:WorkflowTick", reason="without the discriminator pydantic picks the first arm that validates (smart mode): classes with the same fields are confused")
    res_members = union_check(rs, "StepFunctionResult", 6, "result", is_model)
    uses = [f for c in tk.classes.values() for f in _class_fields(c) if "StepFunctionResult" in {n.id for n in ast.walk(f.annotation) if isinstance(n, ast.Name)}]
    chk.floor("C18.R3", "tick fields holding StepFunctionResult", len(uses), 1)
    for f in uses:
        okd = any(isinstance(c, ast.Call) and last(call_name(c)) == "Discriminator" and c.args and isinstance(c.args[0], ast.Constant) and c.args[0].value == "type" for c in ast.walk(f.annotation))
        chk.ob("C18.R3", f"`{enclosing_class(f).name}.{f.target.id}` discriminates StepFunctionResult on `type`", okd, m=tk, node=f, instance=f"discriminator:{enclosing_class(f).name}.{f.target.id}",
               reason="results are read back by structural matching instead of their tag")
    # raw annotations in persisted models
    persisted = [(tk, c) for q, c in tk.classes.items() if q in tick_members] + [(rs, c) for q, c in rs.classes.items() if q in res_members]
    persisted += [(ev, c) for q, c in ev.classes.items() if f"{EV}:Event" in repo.mro_names(f"{EV}:{q}")]
    nalias = nfields = 0
    for m2, c in persisted:
        for f in _class_fields(c):
            if isinstance(f.value, ast.Call) and last(call_name(f.value)) == "PrivateAttr":
                continue
            nfields += 1
            names = {n.id for n in ast.walk(f.annotation) if isinstance(n, ast.Name)}
            if names & set(ser_aliases):
                nalias += 1
            raw = _raw_names(f.annotation)
            if raw or names & set(ser_aliases):
                chk.ob("C18.R3", f"`{c.name}.{f.target.id}: {ast.unparse(f.annotation)}` carries events / exceptions / classes only through a Serializable alias", not raw, m=m2, node=f,
                       instance=f"field:{c.name}.{f.target.id}", reason=f"raw {raw}: pydantic dumps it without a class tag (an Event subclass is read back as the declared base, an exception cannot be dumped to JSON)")
    chk.floor("C18.R3", "persisted model fields using a Serializable alias", nalias, 10)
    chk.extra["persisted_fields_examined"] = nfields
    _fixture_selfcheck(chk, set(ser_aliases))

    # ------------------------------------------------------------------ R1c / R7 exception dict
    if "SerializableException" not in pairs:
        raise AnchorError("C18.R1: alias SerializableException not bound")
    xs, xv = (ev.functions[n] for n in pairs["SerializableException"])
    wd = [d for d in _dict_literals(xs)]
    if len(wd) != 1:
        raise AnchorError("C18.R1: exception serializer does not return one dict literal")
    xvar = xv.args.args[0].arg
    rk = _const_keys_read(xv, xvar)
    wk = {k.value for k in wd[0].keys}
    chk.ob("C18.R1", f"the exception validator reads only keys the serializer writes ({sorted(rk)} ⊆ {sorted(wk)})", set(rk) <= wk and bool(rk), m=ev, node=xv, fn=xv, instance="keys:exception",
           reason=f"reader needs {sorted(set(rk) - wk)}")
    # R7: message form
    ctor = None
    for c in ast.walk(xv):
        if isinstance(c, ast.Call) and isinstance(c.func, ast.Name):
            d = _local_def(xv, c.func.id)
            if d is not None and any(isinstance(x, ast.Call) and last(call_name(x)) == "import_module_from_qualified_name" for x in ast.walk(d)):
                ctor = c
    if ctor is None:
        raise AnchorError("C18.R7: the exception validator does not construct the resolved class")
    if len(ctor.args) == 1 and isinstance(ctor.args[0], ast.Starred):
        rform, argexpr = "star-args", ctor.args[0].value
    elif len(ctor.args) == 1 and not ctor.keywords:
        rform, argexpr = "single-arg", ctor.args[0]
    else:
        raise AnchorError(f"C18.R7: constructor call `{ast.unparse(ctor)}` not recognised")
    argx = expand(argexpr, ctor)
    mkeys = list(_const_keys_read(argx, xvar))
    if len(mkeys) != 1:
        raise AnchorError(f"C18.R7: constructor argument `{ast.unparse(argx)}` is not one key of the dict")
    wval = _dict_get(wd[0], mkeys[0])
    if wval is None:
        if set(rk) <= wk:
            raise AnchorError(f"C18.R7: writer does not set `{mkeys[0]}`")
        return _name_forms(chk, repo, ev, ser, ut, envm, pairs)  # key disagreement already reported by R1; the message form cannot be paired
    wvx = expand(wval, wd[0])
    if isinstance(wvx, ast.Call) and call_name(wvx) in ("str", "repr", "format") or isinstance(wvx, ast.JoinedStr):
        wform = "rendering"
        render = call_name(wvx) if isinstance(wvx, ast.Call) else "f-string"
    elif any(isinstance(a, ast.Attribute) and a.attr == "args" for a in ast.walk(wvx)):
        wform, render = "args", "args"
    else:
        raise AnchorError(f"C18.R7: recorded message `{ast.unparse(wvx)}` not recognised")
    agree = (wform, rform) in (("args", "star-args"),)
    verified = any(isinstance(c, ast.Compare) and any(isinstance(x, ast.Call) and call_name(x) == "str" for x in ast.walk(c)) and mkeys[0] in ast.unparse(expand(c, c)) for c in ast.walk(xv))
    demo = []
    for cls_, a in ((KeyError, ("k",)), (OSError, (2, "nope")), (UnicodeDecodeError, ("utf-8", b"x", 0, 1, "bad"))):
        e0 = cls_(*a)
        try:
            back = str(cls_(str(e0)))
        except Exception as ex:  # builtins only; nothing of /repo is executed
            back = f"<{type(ex).__name__}: {ex}>"
        if back != str(e0):
            demo.append(f"{cls_.__name__}{a!r}: message {str(e0)!r} -> {back!r}")
    chk.ob("C18.R7", f"exception payload form agrees: writer records `{mkeys[0]}` as {wform} (`{ast.unparse(wvx)}`), reader rebuilds with {rform} (`{ast.unparse(ctor)}`)", agree or verified, m=ev, node=ctor, fn=xv,
           instance="exception-message-form", detail="" if (wform, rform, render) == ("rendering", "single-arg", "str") else f"{wform}:{render}/{rform}", reason="str(cls(str(exc))) == str(exc) only for classes whose __str__ echoes a single argument; builtin counter-examples (evaluated on builtins by the checker): " + "; ".join(demo))
    handlers = [h for t in ast.walk(xv) if isinstance(t, ast.Try) and any(x is ctor for st in t.body for x in ast.walk(st)) for h in t.handlers]
    names = {ast.unparse(e).split(".")[-1] for h in handlers if h.type is not None for e in (h.type.elts if isinstance(h.type, ast.Tuple) else [h.type])}
    if not names & {"TypeError", "Exception", "BaseException"}:
        chk.observe("C18.R7: the exception validator does not catch TypeError around `cls(message)`: an exception class whose constructor needs other arguments (e.g. UnicodeDecodeError) makes loading the whole event / tick raise (confirmed: triage/t_c18.py)")

    _name_forms(chk, repo, ev, ser, ut, envm, pairs)


def _name_forms(chk, repo, ev, ser, ut, envm, pairs) -> None:
    # ------------------------------------------------------------------ R2 name forms
    _, resolver = repo.func(f"{UT}:import_module_from_qualified_name")
    depth, how = _resolver_depth(resolver)
    writers = []
    for m2 in (ev, ut, envm, ser):
        writers += [(m2, fn, form, e) for fn, form, e in _name_writers(m2)]
    chk.floor("C18.R2", "qualified-name writers", len(writers), 4)
    readers = [(m2, c) for m2 in (ev, ser, envm) for c in ast.walk(m2.tree) if isinstance(c, ast.Call) and last(call_name(c)) == "import_module_from_qualified_name"]
    chk.floor("C18.R2", "call sites of the resolver among the paired readers", len(readers), 4)
    chk.extra["resolver"] = {"depth": depth, "how": how}
    for m2, fn, form, e in writers:
        if form == "__qualname__":
            chk.ob("C18.R2", f"`{fn.name}` writes `{ast.unparse(e)[:70]}` ({form}); the resolver resolves dotted attribute paths", depth == "walk", m=m2, node=e, fn=fn, instance=f"name-form:{fn.name}",
                   reason=f"__qualname__ of a nested class is `Outer.Inner` (deeper: `Outer.Mid.Leaf`); resolver depth is `{depth}` ({how}): the class is not found (exceptions fall back to plain Exception, event types fail to load)")
        elif depth == "one":
            chk.ob("C18.R2", f"`{fn.name}` writes `{ast.unparse(e)[:70]}` ({form}); a single-level resolver accepts that form", True, m=m2, node=e, fn=fn, instance=f"name-form:{fn.name}")
            chk.observe(f"C18.R2: `{fn.name}` writes __name__: agrees with a single-level resolver, but a class nested in another class cannot be named in this form at all (its round trip fails with any resolver)")
        else:
            chk.ob("C18.R2", f"`{fn.name}` writes `{ast.unparse(e)[:70]}` ({form}): the name it writes identifies the class for the path-walking resolver", False, m=m2, node=e, fn=fn, instance=f"name-complete:{fn.name}",
                   reason="__name__ drops the enclosing classes (`pkg.mod.Inner` for `pkg.mod.Outer.Inner`): the resolver walks attribute paths but is handed a name that is not an attribute of the module, so an event / model class nested in another class does not load; __qualname__ is identical for top-level classes and complete for nested ones")
    # every pair (serializer, validator) that writes a name reads it through the resolver
    for n, (s_fn, v_fn) in sorted(pairs.items()):
        sw = any(fn.name == s_fn or _calls_fn(ev.functions[s_fn], fn.name) for _m, fn, _f, _e in writers)
        if sw:
            vr = any(last(call_name(c)) == "import_module_from_qualified_name" for c in ast.walk(ev.functions[v_fn]) if isinstance(c, ast.Call)) or any(
                _calls_fn(ev.functions[v_fn], g) and any(last(call_name(c)) == "import_module_from_qualified_name" for c in ast.walk(ev.functions[g]) if isinstance(c, ast.Call)) for g in ev.functions)
            chk.ob("C18.R2", f"alias {n}: the validator `{v_fn}` resolves the name its serializer `{s_fn}` writes through import_module_from_qualified_name", vr, m=ev, node=ev.functions[v_fn], fn=ev.functions[v_fn],
                   instance=f"pair:{n}", reason="the written name is never resolved back to a class")

    # ------------------------------------------------------------------ R5 envelope writers / readers
    nenv = 0
    for q in ("EventEnvelopeWithMetadata.from_event", "EventEnvelope.from_event"):
        if q not in envm.functions:
            raise AnchorError(f"C18.R5: {q} not found")
        fn = envm.functions[q]
        dumps = [c for c in ast.walk(fn) if isinstance(c, ast.Call) and last(call_name(c)) == "model_dump"]
        if len(dumps) != 1:
            raise AnchorError(f"C18.R5: {q} does not take its payload from one model_dump call")
        nenv += 1
        mode = _resolve_const(_dump_kwargs(dumps[0], envm).get("mode"), dumps[0], envm) if "mode" in _dump_kwargs(dumps[0], envm) else None
        chk.ob("C18.R5", f"{q} takes the payload from model_dump(mode='json')", isinstance(mode, ast.Constant) and mode.value == "json", m=envm, node=dumps[0], fn=fn, instance=f"dump-mode:{q}",
               reason="the envelope's value is not the JSON-mode dump the other formats use (datetime / enum / nested exception fields differ or fail to encode)")
    parse = envm.functions.get("EventEnvelope.parse")
    if parse is None:
        raise AnchorError("C18.R5: EventEnvelope.parse not found")
    from ..astx import dep_slice

    def from_value(c: ast.Call) -> bool:  # the argument is, or is computed from, <envelope>.value (locals followed)
        a = _ctor_payload(c)
        return a is not None and any(isinstance(x, ast.Attribute) and x.attr == "value" for e in dep_slice(parse, a).exprs for x in ast.walk(e))

    mv = [c for c in ast.walk(parse) if isinstance(c, ast.Call) and last(call_name(c)) == "model_validate" and from_value(c)]
    chk.floor("C18.R5", "model_validate(<envelope>.value) readers in EventEnvelope.parse", len(mv), 2)
    chk.floor("C18.R10", "client envelope readers (model_validate of the stored value) and envelope validators", _payload_opacity_envelope(chk, envm, parse, mv, _decoder_names((ser, ev, envm))), 3)
    # registry key form = written type form
    tw = [k.value for fn_q in ("EventEnvelopeWithMetadata.from_event", "EventEnvelope.from_event") for c in ast.walk(envm.functions[fn_q]) if isinstance(c, ast.Call) for k in c.keywords if k.arg == "type"]
    forms = {a.attr for v in tw for a in ast.walk(v) if isinstance(a, ast.Attribute) and a.attr in ("__name__", "__qualname__")}
    le = envm.functions.get("EventEnvelopeWithMetadata.load_event")
    regforms = {a.attr for a in ast.walk(le) if isinstance(a, ast.Attribute) and a.attr in ("__name__", "__qualname__")} if le is not None else set()
    chk.ob("C18.R5", f"the envelope `type` is written in the form the registry is keyed by ({sorted(forms)} vs {sorted(regforms)})", forms == regforms and len(forms) == 1, m=envm, node=le or parse, fn=le, instance="type-form",
           reason="type written and registry key use different name forms: lookup by type misses")
    chk.floor("C18.R5", "envelope writers", nenv, 2)


def _name_in(e: ast.AST, name: str) -> bool:
    return any(isinstance(n, ast.Name) and n.id == name for n in ast.walk(e))


def _local_def(fn: ast.AST, name: str) -> ast.AST | None:
    for a in ast.walk(fn):
        if isinstance(a, ast.Assign) and any(isinstance(t, ast.Name) and t.id == name for t in a.targets):
            return a.value
    return None


def _calls_fn(fn: ast.AST, name: str) -> bool:
    return any(isinstance(c, ast.Call) and last(call_name(c)) == name for c in ast.walk(fn))


def _calls_one_deep(m, call: ast.Call, target: str) -> bool:
    n = last(call_name(call))
    f = m.functions.get(n) if n else None
    return f is not None and _calls_fn(f, target)


# ============================================================================ R9 presence round trip of hook-injected attributes

_ANY_SAMPLES = [None, False, True, 0, 1, 0.0, 1.5, "", "x", [], [0], {}, {"k": 0}]
_TYPE_SAMPLES = {
    "Any": _ANY_SAMPLES, "object": _ANY_SAMPLES,
    "dict": [{}, {"k": 0}, {"k": None, "j": ""}], "list": [[], [0], [None, ""]],
    "str": ["", "x"], "int": [0, 1], "float": [0.0, 1.5], "bool": [False, True], "None": [None],
}
for _a, _b in (("Dict", "dict"), ("Mapping", "dict"), ("MutableMapping", "dict"), ("List", "list"), ("Sequence", "list"), ("MutableSequence", "list")):
    _TYPE_SAMPLES[_a] = _TYPE_SAMPLES[_b]


class _Undefined:
    def __init__(self, why: str):
        self.why = why

    def __repr__(self) -> str:
        return f"<{self.why}>"


def _samples(ann: ast.AST | None) -> list:
    """A finite sample of the JSON-representable values a declared type admits: per scalar / container kind its falsy
    member and at least one truthy member, None where the type says so."""
    if ann is None:
        return list(_ANY_SAMPLES)
    if isinstance(ann, ast.Constant):
        if ann.value is None:
            return [None]
        if isinstance(ann.value, str):
            return _samples(ast.parse(ann.value, mode="eval").body)
    if isinstance(ann, ast.BinOp) and isinstance(ann.op, ast.BitOr):
        return _samples(ann.left) + _samples(ann.right)
    head = last(dotted(ann.value if isinstance(ann, ast.Subscript) else ann))
    if isinstance(ann, ast.Subscript) and head in ("Optional", "Union", "Annotated"):
        elts = ann.slice.elts if isinstance(ann.slice, ast.Tuple) else [ann.slice]
        if head == "Annotated":
            return _samples(elts[0])
        out = [None] if head == "Optional" else []
        for x in elts:
            out += _samples(x)
        return out
    if head in _TYPE_SAMPLES:
        return list(_TYPE_SAMPLES[head])
    raise AnchorError(f"C18.R9: no value sample for the declared type `{ast.unparse(ann)}` of an injected private attribute")


def _same(a, b) -> bool:
    """Equal value of the same type (0 / False / 0.0 are different results)."""
    return repr(a) == repr(b)


def _private_default(decl: ast.AnnAssign, interp):
    """What pydantic puts into the private attribute when nothing sets it."""
    c = decl.value
    d = kwarg(c, "default", 0)
    if d is not None and not (isinstance(d, ast.Constant) and d.value is Ellipsis):
        return lambda: interp.eval(d, {})
    f = kwarg(c, "default_factory")
    if f is not None:
        return lambda: interp.apply(interp.eval(f, {}), [], {})
    return lambda: _Undefined("no default: reading the attribute fails")


def _reader_model(repo, ref: str, key: str, attr: str, decl: ast.AnnAssign, base_init: ast.AST, interp):
    """(value the attribute has after loading a dump that carries `key`: w, … that lacks `key`, where that comes from); None when the
    route does not exist (R1 reports that)."""
    from ..absint import Unsupported

    routes_private = any(isinstance(a, ast.Attribute) and a.attr == "__private_attributes__" for a in ast.walk(base_init))
    if not routes_private:
        return None
    if key == attr:
        dflt = _private_default(decl, interp)
        return (lambda w: w), dflt, f"the default of the private attribute `{attr}`"
    found = repo.find_method(ref, "__init__")
    if not found:
        return None
    init_ref, _im, init = found
    a = init.args
    pos = a.posonlyargs + a.args
    defaults: dict[str, ast.AST | None] = {p.arg: None for p in pos + a.kwonlyargs}
    for p, d in zip(pos[len(pos) - len(a.defaults):], a.defaults):
        defaults[p.arg] = d
    for p, d in zip(a.kwonlyargs, a.kw_defaults):
        defaults[p.arg] = d
    fwd = [k.value for c in ast.walk(init) if isinstance(c, ast.Call) and isinstance(c.func, ast.Attribute) and c.func.attr == "__init__" for k in c.keywords if k.arg == attr and _name_in(k.value, key)]
    if key not in defaults or len(fwd) != 1:
        return None
    fx = expand(fwd[0], enclosing_stmt(fwd[0]))
    owner = init_ref.split(":")[-1]

    def present(w):
        try:
            return interp.eval(fx, {key: w})
        except Unsupported as x:
            raise AnchorError(f"C18.R9: `{attr}={ast.unparse(fx)[:50]}` in {owner}.__init__ is not evaluable ({x})")

    def absent():
        if defaults[key] is None:
            return _Undefined(f"`{key}` is a required argument of {owner}.__init__: loading fails")
        return present(interp.eval(defaults[key], {}))

    return present, absent, f"the default of parameter `{key}` of {owner}.__init__" + ("" if isinstance(fx, ast.Name) else f", passed on as `{attr}={ast.unparse(fx)[:40]}`")


def _presence_round_trip(chk, repo, m, q: str, h: "_Hook", ref: str, base_init: ast.AST) -> int:
    """For every private attribute a serializer hook injects under a key: evaluate, for each sample value v of the attribute's
    declared type, (a) whether the injection statement is executed when self.<attr> == v (the dominating path facts that
    depend on `self`, interpreted on a model object; facts about anything else are left open = assumed to hold), (b) the value
    written (the injected expression, when it is a small pure expression), (c) what the __init__ chain puts back into the
    attribute from a dump with / without the key.  Obligation: the result is v again, for every v."""
    import copy

    from ..absint import Interp, Raised, Record, Unsupported
    from ..astx import facts_at
    from ..cfg import CFG

    by_slot: dict[tuple[str, str], list[tuple[ast.AST, ast.AST]]] = {}
    for key, val, stmt in h.inj:
        valx = expand(val, stmt)
        attr = _self_attr_in(valx)
        if attr is not None:
            by_slot.setdefault((key, attr), []).append((valx, stmt))
    if not by_slot:
        return 0
    interp = Interp({})
    methods: dict[str, ast.AST] = {}
    for r in [ref] + repo.mro_names(ref):
        if ":" in r and repo._has_cls(r):
            for f in repo.cls(r)[1].body:
                if isinstance(f, FuncNode):
                    methods.setdefault(f.name, f)
    interp.classes[q.rsplit(".", 1)[-1]] = methods
    cfg = CFG(h.fn)
    done = 0
    for (key, attr), sites in sorted(by_slot.items()):
        done += 1  # examined; when the route back does not exist at all R1 reports it and there is nothing to evaluate here
        decl, _owner = _private_decl(repo, ref, attr)
        if decl is None:
            continue  # R1: not a declared private attribute
        rd = _reader_model(repo, ref, key, attr, decl, base_init, interp)
        if rd is None:
            continue  # R1: the key is not routed back
        present, absent, absent_src = rd
        # the guards of each injection site that depend on the object
        guarded: list[tuple[ast.AST, list[tuple[ast.AST, bool, str]]]] = []
        for valx, stmt in sites:
            nodes = cfg.nodes_of(stmt)
            if not nodes:
                raise AnchorError(f"C18.R9: injection `{ast.unparse(stmt)[:50]}` of {q}.{h.fn.name} has no CFG node")
            facts = []
            for txt, pol in sorted(facts_at(cfg, nodes[0])):
                try:
                    fe = ast.parse(txt, mode="eval").body
                except SyntaxError:
                    continue
                if any(isinstance(n, ast.Name) and n.id == "self" for n in ast.walk(fe)):
                    facts.append((fe, pol, ("" if pol else "not ") + txt))
            guarded.append((valx, facts))

        def write(v):
            """('written', w) | ('omitted', failing guard) | ('raises', what)"""
            failing = ""
            for valx, facts in guarded:
                rec = Record(q.rsplit(".", 1)[-1], **{attr: copy.deepcopy(v)})
                runs = True
                for fe, pol, shown in facts:
                    direct = any(isinstance(n, ast.Attribute) and n.attr == attr and dotted(n.value) == "self" for n in ast.walk(fe))
                    try:
                        holds = bool(interp.eval(fe, {"self": rec})) == pol
                    except Raised as x:
                        return "raises", f"`{shown}` raises {x.name}"
                    except Unsupported as x:
                        if direct:
                            raise AnchorError(f"C18.R9: guard `{shown}` of the `{key}` injection in {q}.{h.fn.name} tests `self.{attr}` in a way this rule cannot evaluate ({x})")
                        continue  # about other state of the object: left open
                    if not holds:
                        runs, failing = False, shown
                        break
                if runs:
                    try:
                        return "written", interp.eval(valx, {"self": rec})
                    except Raised as x:
                        return "raises", f"`{ast.unparse(valx)[:40]}` raises {x.name}"
                    except Unsupported:
                        return "written", v  # an encoder call etc.: what it does to the value is R4's question
            return "omitted", failing

        lost: list[str] = []
        guards_seen: set[str] = set()
        samples = []
        for v in _samples(decl.annotation):
            if not any(_same(v, s) for s in samples):
                samples.append(v)
        for v in samples:
            how, w = write(v)
            if how == "raises":
                lost.append(f"{v!r}: the dump fails, {w}")
                continue
            back = present(w) if how == "written" else absent()
            if not _same(back, v):
                if how == "omitted":
                    guards_seen.add(w)
                    lost.append(f"{v!r} -> {back!r} (key omitted)")
                else:
                    lost.append(f"{v!r} -> {back!r}" + ("" if _same(w, v) else f" (written as {w!r})"))
        cls_short = q.rsplit(".", 1)[-1]
        why = ""
        if lost:
            why = (f"{cls_short}.{h.fn.name} " + (f"writes `{key}` only when " + " / ".join(f"`{g}`" for g in sorted(guards_seen)) + "; " if guards_seen else "")
                   + f"a dump without the key is read back as {absent()!r} ({absent_src}). self.{attr} -> after dump and load: " + "; ".join(lost)
                   + f". The presence test may skip only the value the reader restores by itself (compare with that value, e.g. `is not None` / `!= default`), not every falsy value: "
                   f"`{attr}: {ast.unparse(decl.annotation)}` admits falsy payloads that are legitimate. Every format (JsonSerializer, client envelope, persisted ticks) dumps through this hook")
        chk.ob("C18.R9", f"every value of `{cls_short}.{attr}: {ast.unparse(decl.annotation)}` ({len(samples)} samples incl. each falsy one) that {h.fn.name} omits from / writes under `{key}` is put back unchanged by the __init__ chain",
               not lost, m=m, node=sites[0][1], fn=h.fn, instance=f"presence:{cls_short}.{key}", reason=why)
    return done


# ============================================================================ R8 writer completeness

DROP_ARGS = {"exclude_unset", "exclude_defaults", "exclude_none", "exclude", "include"}
DUMP_CALLS = {"model_dump", "model_dump_json", "dump_python", "dump_json"}
CLIENT = "llama_agents.client.client"
SERVER_API = "llama_agents.server._api"


def _resolve_const(e: ast.AST, at: ast.AST, m) -> ast.AST:
    """Follow a name to its straight-line local definition or to a module-level constant."""
    for _ in range(4):
        if not isinstance(e, ast.Name):
            return e
        d = reaching_def(e.id, at)
        if d is None:
            d = _module_assign(m, e.id)
        if d is None:
            return e
        e, at = d, d
    return e


def _dump_kwargs(call: ast.Call, m) -> dict[str, ast.AST]:
    """Effective keyword arguments of a dump call: literal keywords plus **dicts built nearby / module constants
    (dict literal, dict(...) call, later `d[k] = v` stores in the same function).  Unreadable ** raises AnchorError."""
    out: dict[str, ast.AST] = {}
    fn = enclosing_function(call)
    for k in call.keywords:
        if k.arg is not None:
            out[k.arg] = k.value
            continue
        src = k.value
        d = _resolve_const(src, call, m)
        items: list[tuple[str, ast.AST]] = []
        if isinstance(d, ast.Dict) and all(isinstance(x, ast.Constant) and isinstance(x.value, str) for x in d.keys):
            items = [(x.value, v) for x, v in zip(d.keys, d.values)]
        elif isinstance(d, ast.Call) and call_name(d) == "dict" and not d.args and all(x.arg for x in d.keywords):
            items = [(x.arg, x.value) for x in d.keywords]
        else:
            raise AnchorError(f"C18.R8: cannot read the keyword dict `**{ast.unparse(src)[:40]}` of `{ast.unparse(call)[:60]}` (not a dict built nearby or a module constant)")
        if isinstance(src, ast.Name) and fn is not None:
            for n in ast.walk(fn):
                if isinstance(n, ast.Assign) and len(n.targets) == 1 and isinstance(n.targets[0], ast.Subscript) and dotted(n.targets[0].value) == src.id:
                    sl = n.targets[0].slice
                    if not (isinstance(sl, ast.Constant) and isinstance(sl.value, str)):
                        raise AnchorError(f"C18.R8: computed key stored into `{src.id}` before `{ast.unparse(call)[:50]}`")
                    items.append((sl.value, n.value))
                if isinstance(n, ast.Call) and isinstance(n.func, ast.Attribute) and n.func.attr in ("update", "setdefault") and dotted(n.func.value) == src.id:
                    if n.func.attr == "update" and not n.args and all(x.arg for x in n.keywords):
                        items += [(x.arg, x.value) for x in n.keywords]
                    elif n.func.attr == "update" and len(n.args) == 1 and isinstance(n.args[0], ast.Dict) and all(isinstance(x, ast.Constant) for x in n.args[0].keys):
                        items += [(x.value, v) for x, v in zip(n.args[0].keys, n.args[0].values)]
                    elif n.func.attr == "setdefault" and n.args and isinstance(n.args[0], ast.Constant):
                        items.append((n.args[0].value, n.args[1] if len(n.args) > 1 else ast.Constant(value=None)))
                    else:
                        raise AnchorError(f"C18.R8: `{ast.unparse(n)[:50]}` changes the keyword dict of a dump call in a way this rule cannot read")
        for name, v in items:
            out[name] = v
    return out


def _writer_functions(repo) -> list[tuple[object, ast.AST, str]]:
    """(module, function, why) for every function on a serialization writer path: the roots and, three calls deep,
    the functions of the same modules they call by name."""
    mods = {n: repo.module(n) for n in (EV, SER, UT, TK, RS, ENV, CLIENT, SERVER_API)}
    roots: list[tuple[object, ast.AST, str]] = []

    def need(mname: str, q: str, why: str) -> None:
        f = mods[mname].functions.get(q)
        if f is None:
            raise AnchorError(f"C18.R8: writer `{q}` not found in {mods[mname].rel}")
        roots.append((mods[mname], f, why))

    need(SER, "JsonSerializer.serialize_value", "JSON serializer")
    need(SER, "JsonSerializer.serialize", "JSON serializer")
    need(ENV, "EventEnvelopeWithMetadata.from_event", "client envelope")
    need(ENV, "EventEnvelope.from_event", "client envelope")
    need(ENV, "EventEnvelopeWithMetadata.load_event", "client envelope (re-dump)")
    need(CLIENT, "_serialize_event", "client envelope (send_event / run)")
    need(SERVER_API, "_WorkflowAPI._stream_events", "client envelope (event stream)")
    for mname in (EV, RS, TK):
        m = mods[mname]
        for n, (_st, _bt, marks) in _annotated_aliases(m).items():
            if "PlainSerializer" in marks and marks["PlainSerializer"].args:
                f = m.functions.get(dotted(marks["PlainSerializer"].args[0]) or "")
                if f is not None:
                    roots.append((m, f, f"field serializer of {n}"))
        for q, f in m.functions.items():
            if _deco(f, "model_serializer") is not None or _deco(f, "field_serializer") is not None:
                roots.append((m, f, "pydantic serializer hook"))
    seen = {id(f) for _m, f, _w in roots}
    frontier = list(roots)
    for _depth in range(3):
        nxt = []
        for m, f, why in frontier:
            for c in ast.walk(f):
                if isinstance(c, ast.Call):
                    ln = last(call_name(c))
                    if not ln or ln in DUMP_CALLS:
                        continue
                    for m2 in mods.values():
                        for q, g in m2.functions.items():
                            if q.rsplit(".", 1)[-1] == ln and id(g) not in seen and not ln.startswith("__"):
                                seen.add(id(g))
                                nxt.append((m2, g, f"called from {qualname_of(f)} ({why})"))
        roots += nxt
        frontier = nxt
    return roots


def _writer_completeness(chk, repo) -> None:
    sites: list[tuple[object, ast.AST, ast.Call, str]] = []
    done: set[int] = set()
    for m, f, why in _writer_functions(repo):
        for c in ast.walk(f):
            if isinstance(c, ast.Call) and isinstance(c.func, ast.Attribute) and c.func.attr in ("model_dump", "model_dump_json") and id(c) not in done:
                done.add(id(c))
                sites.append((m, enclosing_function(c) or f, c, why))
    # the persisted tick format: every dump through the tick adapter, repo-wide
    _tk = repo.module(TK)
    adapters = {t.id for st in _tk.tree.body if isinstance(st, (ast.Assign, ast.AnnAssign)) and st.value is not None and isinstance(st.value, ast.Call) and last(call_name(st.value)) == "TypeAdapter"
                for t in (st.targets if isinstance(st, ast.Assign) else [st.target]) if isinstance(t, ast.Name)}
    if not adapters:
        raise AnchorError("C18.R8: no TypeAdapter for the tick union in runtime/types/ticks.py")
    nad = 0
    for m in list(repo.by_rel.values()):
        if not any(a in m.src for a in adapters):
            continue
        for c in ast.walk(m.tree):
            if isinstance(c, ast.Call) and isinstance(c.func, ast.Attribute) and c.func.attr in ("dump_python", "dump_json") and last(dotted(c.func.value)) in adapters and id(c) not in done:
                done.add(id(c))
                repo.consulted.add(m.rel)
                nad += 1
                sites.append((m, enclosing_function(c), c, "persisted tick format"))
    chk.floor("C18.R8", "dump calls on serialization writer paths", len(sites), 8)
    chk.floor("C18.R8", "dumps through the tick TypeAdapter", nad, 2)
    per_fn: dict[str, int] = {}
    for m, f, c, why in sites:
        q = qualname_of(f) if f is not None else "<module>"
        per_fn[q] = per_fn.get(q, 0) + 1
        kws = _dump_kwargs(c, m)
        bad = []
        for name in sorted(DROP_ARGS & set(kws)):
            v = _resolve_const(kws[name], c, m)
            if isinstance(v, ast.Constant) and (v.value is None or v.value is False):
                continue
            bad.append(f"{name}={ast.unparse(v)[:40]}")
        chk.ob("C18.R8", f"`{ast.unparse(c)[:70]}` ({why}) dumps every declared field (no exclude_unset / exclude_defaults / exclude_none / exclude / include that can drop one)", not bad,
               m=m, node=c, fn=f, instance=f"complete-dump:{c.func.attr}#{per_fn[q]}",
               reason=f"{', '.join(bad)}: fields dropped on write are rebuilt from class defaults on read (default_factory values such as ids / timestamps differ, containers filled after construction are lost), at every nesting level")
    chk.extra["dump_calls_inspected"] = len(sites)


# ============================================================================ fixture (planted positive for the zero-expected raw-annotation detector)

FIXTURE = Path(__file__).resolve().parent.parent.parent / "fixtures" / "c18" / "planted.py"


def _fixture_selfcheck(chk, alias_names: set[str]) -> None:
    if not FIXTURE.is_file():
        raise AnchorError(f"C18: fixture {FIXTURE} missing")
    tree = ast.parse(FIXTURE.read_text())
    _set_parents(tree)
    hits = 0
    for c in ast.walk(tree):
        if isinstance(c, ast.ClassDef):
            for f in _class_fields(c):
                if _raw_names(f.annotation):
                    hits += 1
    chk.floor("C18.R3", "planted raw Event/Exception/type[...] fields reported on fixtures/c18/planted.py", hits, 3)


FIXTURE_OPAQUE = FIXTURE.parent / "interpreted_payload.py"


def _fixture_opacity(chk) -> None:
    """R10 expects no firing on the tree: planted readers (Bad*: the payload goes through the decoder in five shapes; Ok*: the
    decoder is used where it cannot flow into the constructor argument) are analysed on every run."""
    if not FIXTURE_OPAQUE.is_file():
        raise AnchorError(f"C18: fixture {FIXTURE_OPAQUE} missing")
    tree = ast.parse(FIXTURE_OPAQUE.read_text())
    _set_parents(tree)
    bad = ok = 0
    for cls in tree.body:
        if not isinstance(cls, ast.ClassDef):
            continue
        fns = {f.name: f for f in cls.body if isinstance(f, FuncNode)}
        dec = {DECODER}
        for _ in range(2):
            dec |= {n for n, f in fns.items() if any(_refs_to(st, dec) for st in f.body)}
        ctors = [c for c in ast.walk(fns[DECODER]) if isinstance(c, ast.Call) and isinstance(c.func, ast.Attribute) and c.func.attr in ALL_INVERSE]
        hit = any(_interpreting_refs(fns[DECODER], c, dec) for c in ctors)
        if not ctors or hit != cls.name.startswith("Bad"):
            raise AnchorError(f"C18.R10: planted reader {cls.name} in fixtures/c18/interpreted_payload.py is {'reported' if hit else 'not reported'} ({len(ctors)} constructor calls)")
        bad += hit
        ok += not hit
    chk.floor("C18.R10", "planted readers that interpret an opaque payload, reported on fixtures/c18/interpreted_payload.py", bad, 5)
    chk.floor("C18.R10", "planted readers that use the decoder only off the payload's path, silent", ok, 2)


# ============================================================================ twins

_E = "packages/llama-index-workflows/src/workflows/events.py"
_S = "packages/llama-index-workflows/src/workflows/context/serializers.py"
_U = "packages/llama-index-workflows/src/workflows/context/utils.py"
_T = "packages/llama-index-workflows/src/workflows/runtime/types/ticks.py"
_R = "packages/llama-index-workflows/src/workflows/runtime/types/results.py"
_V = "packages/llama-agents-client/src/llama_agents/client/protocol/serializable_events.py"

_P = "packages/llama-agents-server/src/llama_agents/server/_runtime/persistence_runtime.py"
_A = "packages/llama-agents-server/src/llama_agents/server/_api.py"

_WALK = '''    except ImportError as e:
        parts = qualified_name.split(".")
        for i in range(len(parts) - 2, 0, -1):
            try:
                obj = import_module(".".join(parts[:i]))
            except ImportError:
                continue
            try:
                for name in parts[i:]:
                    obj = getattr(obj, name)
                return obj
            except AttributeError:
                break
        raise ImportError(f"Failed to import module {module_path[0]}: {e}")
'''

TWINS = [
    # R1 keys
    Twin("component tag key renamed on the writer side", _S, '"qualified_name": get_qualified_name(value),\n            }\n            return retval', '"qualname": get_qualified_name(value),\n            }\n            return retval', "C18.R1"),
    Twin("reader tests a tag nobody writes", _S, 'if data.get("__is_pydantic") and data.get("qualified_name"):', 'if data.get("__pydantic") and data.get("qualified_name"):', "C18.R1"),
    Twin("dynamic fields dumped under another key", _E, 'data["_data"] = self._data', 'data["data"] = self._data', "C18.R1"),
    Twin("result dumped under the private name (duplicate keyword on load)", _E, 'data["result"] = self._result', 'data["_result"] = self._result', "C18.R1"),
    Twin("exception message key renamed on one side", _E, '"exception_message": str(exc),', '"message": str(exc),', "C18.R1"),
    Twin("pydantic payload read with the component constructor", _S, 'return module_class.model_validate(data["value"])', 'return module_class.from_dict(data["value"])', "C18.R1"),
    Twin("benign: explicit length test in the hook", _E, "        if self._data:\n            data[\"_data\"] = self._data", "        if len(self._data) > 0:\n            data[\"_data\"] = self._data", None),
    Twin("benign: .get for the message", _E, 'exc_message = data["exception_message"]', 'exc_message = data.get("exception_message", "")', None),
    Twin("benign: pydantic dict through a local", _S, '            return {\n                "__is_pydantic": True,', '            return {  # tagged\n                "__is_pydantic": True,', None),
    # R1 recursion into plain containers (path facts + element-wise rebuild, comprehension or accumulator loop)
    Twin("reader no longer untags list elements", _S, "            return [self.deserialize_value(item) for item in data]", "            return list(data)", "C18.R1"),
    Twin("writer loop stores dict values untagged", _S, "            return {k: self.serialize_value(v) for k, v in value.items()}",
         "            out: dict[Any, Any] = {}\n            for k, v in value.items():\n                out[k] = v\n            return out", "C18.R1"),
    Twin("writer tags the keys, not the values", _S, "            return {k: self.serialize_value(v) for k, v in value.items()}", "            return {self.serialize_value(k): v for k, v in value.items()}", "C18.R1"),
    Twin("writer list loop appends the raw element", _S, "            return [self.serialize_value(item) for item in value]",
         "            out: list[Any] = []\n            for item in value:\n                out.append(item)\n            return out", "C18.R1"),
    Twin("list recursion moved under the dict test (never reached for lists)", _S, "        if isinstance(value, list):\n            return [self.serialize_value(item) for item in value]", "        if isinstance(value, dict):\n            return [self.serialize_value(item) for item in value]", "C18.R1"),
    Twin("benign: writer comprehensions as accumulator loops", _S,
         "            return {k: self.serialize_value(v) for k, v in value.items()}\n\n        if isinstance(value, list):\n            return [self.serialize_value(item) for item in value]",
         "            serialized_dict: dict[Any, Any] = {}\n            for key, item in value.items():\n                serialized_dict[key] = self.serialize_value(item)\n            return serialized_dict\n\n        if isinstance(value, list):\n            serialized_list: list[Any] = []\n            for item in value:\n                serialized_list.append(self.serialize_value(item))\n            return serialized_list", None),
    Twin("benign: reader as early returns, list first", _S,
         "            return {k: self.deserialize_value(v) for k, v in data.items()}\n        elif isinstance(data, list):\n            return [self.deserialize_value(item) for item in data]\n        return data",
         "            return {k: self.deserialize_value(v) for k, v in data.items()}\n        if not isinstance(data, list):\n            return data\n        return list(map(self.deserialize_value, data))", None),
    Twin("benign: dict() around a generator, keys walked", _S, "            return {k: self.serialize_value(v) for k, v in value.items()}", "            return dict((k, self.serialize_value(value[k])) for k in value)", None),
    # R2 name forms
    Twin("attribute walk removed from the resolver (revert a9c0760)", _U,
         "        parts = qualified_name.split(\".\")\n        for i in range(len(parts) - 2, 0, -1):\n            try:\n                obj = import_module(\".\".join(parts[:i]))\n            except ImportError:\n                continue\n            try:\n                for name in parts[i:]:\n                    obj = getattr(obj, name)\n                return obj\n            except AttributeError:\n                break\n",
         "", "C18.R2"),
    Twin("attribute walk stops after one level", _U, "                for name in parts[i:]:\n", "                for name in parts[i : i + 1]:\n", "C18.R2"),
    Twin("walk result dropped, falls through to the error", _U, "                    obj = getattr(obj, name)\n                return obj\n", "                    obj = getattr(obj, name)\n", "C18.R2"),
    Twin("exception writer truncates to __name__", _E, 'qualified_name = f"{exc_type.__module__}.{exc_type.__qualname__}"', 'qualified_name = f"{exc_type.__module__}.{exc_type.__name__}"', "C18.R2"),
    Twin("event-type writer truncates to __name__", _E, 'return f"{event_type.__module__}.{event_type.__qualname__}"', 'return f"{event_type.__module__}.{event_type.__name__}"', "C18.R2"),
    Twin("JsonSerializer writer truncates to __name__ (revert 63489fd, utils)", _U, 'return value.__module__ + "." + value.__class__.__qualname__', 'return value.__module__ + "." + value.__class__.__name__', "C18.R2"),
    Twin("envelope writer truncates to __name__ (revert 63489fd, client)", _V, 'return f"{event.__module__}.{event.__qualname__}"', 'return f"{event.__module__}.{event.__name__}"', "C18.R2"),
    Twin("benign: envelope writer by concatenation", _V, 'return f"{event.__module__}.{event.__qualname__}"', 'return event.__module__ + "." + event.__qualname__', None),
    Twin("benign: concatenation instead of f-string", _E, 'return f"{event_type.__module__}.{event_type.__qualname__}"', 'return event_type.__module__ + "." + event_type.__qualname__', None),
    Twin("benign: maxsplit keyword", _U, 'module_path = qualified_name.rsplit(".", 1)', 'module_path = qualified_name.rsplit(".", maxsplit=1)', None),
    Twin("benign: walk written as a while loop", _U, "                for name in parts[i:]:\n                    obj = getattr(obj, name)\n", "                rest = parts[i:]\n                while rest:\n                    obj = getattr(obj, rest.pop(0))\n", None),
    # R3 inventories
    Twin("tick class dropped from the union", _T, "    | TickIdleCheck\n    | TickIdleRelease,", "    | TickIdleCheck,", "C18.R3"),
    Twin("two ticks share a discriminator", _T, 'type: Literal["idle_release"] = "idle_release"', 'type: Literal["idle_check"] = "idle_check"', "C18.R3"),
    Twin("raw Event field in a persisted result", _R, "    event_id: str\n    event: SerializableEvent\n", "    event_id: str\n    event: Event\n", "C18.R3"),
    Twin("alias loses its validator", _E, "    PlainSerializer(_serialize_event_type, return_type=str),\n    PlainValidator(_deserialize_event_type),\n", "    PlainSerializer(_serialize_event_type, return_type=str),\n", "C18.R3"),
    Twin("default differs from the Literal", _T, 'type: Literal["timeout"] = "timeout"', 'type: Literal["timeout"] = "timed_out"', "C18.R3"),
    Twin("result union no longer discriminated", _T, 'result: list[Annotated[StepFunctionResult, Discriminator("type")]]', "result: list[StepFunctionResult]", "C18.R3"),
    Twin("benign: union members reordered", _T, "    | TickIdleCheck\n    | TickIdleRelease,", "    | TickIdleRelease\n    | TickIdleCheck,", None),
    Twin("benign: validator listed first", _E, "    PlainSerializer(_serialize_event_type, return_type=str),\n    PlainValidator(_deserialize_event_type),\n", "    PlainValidator(_deserialize_event_type),\n    PlainSerializer(_serialize_event_type, return_type=str),\n", None),
    # R4 recursion
    Twin("dynamic fields tagged on write, never untagged on read", _E, 'data["_data"] = self._data', 'data["_data"] = _json_serializer.serialize_value(self._data)', "C18.R4"),
    Twin("result tagged on write, never untagged on read", _E, 'data["result"] = self._result', 'data["result"] = _json_serializer.serialize_value(self._result)', "C18.R4"),
    Twin("benign: raw injection through a local", _E, '            data["_data"] = self._data', '            dynamic = self._data\n            data["_data"] = dynamic', None),
    Twin("benign: hook variable renamed", _E, "        data = handler(self)\n        # include _data in serialization\n        if self._data:\n            data[\"_data\"] = self._data\n        return data", "        out = handler(self)\n        if self._data:\n            out[\"_data\"] = self._data\n        return out", None),
    # R5
    Twin("client envelope dumps in python mode", _V, '            value=event.model_dump(mode="json"),', "            value=event.model_dump(),", "C18.R5"),
    Twin("registry keyed by qualname, type written as name", _V, "registry_lookup = {e.__name__: e for e in registry}", "registry_lookup = {e.__qualname__: e for e in registry}", "C18.R5"),
    # R6 override completeness
    Twin("another subclass adds its own hook", _E, "    attempts: int\n    elapsed_seconds: float\n\n\nclass StepFailedEvent(Event):",
         "    attempts: int\n    elapsed_seconds: float\n\n    @model_serializer(mode=\"wrap\")\n    def _dump(self, handler: Any) -> dict[str, Any]:\n        data = handler(self)\n        data[\"failed\"] = True\n        return data\n\n\nclass StepFailedEvent(Event):", "C18.R6"),
    Twin("StopEvent hook starts from the bare handler again (revert ad91027)", _E, "        data = super().custom_model_dump(handler)\n", "        data = handler(self)\n", "C18.R6"),
    Twin("base hook called but its dict discarded", _E, "        data = super().custom_model_dump(handler)\n", "        super().custom_model_dump(handler)\n        data = handler(self)\n", "C18.R6"),
    Twin("base hook injects an attribute that is not a declared private attribute", _E, "        if self._data:\n            data[\"_data\"] = self._data\n        return data", "        if self._data:\n            data[\"_data\"] = self._data\n        data[\"_extra\"] = self._extra\n        return data", "C18.R1"),
    Twin("benign: explicit base-class call", _E, "        data = super().custom_model_dump(handler)\n", "        data = DictLikeModel.custom_model_dump(self, handler)\n", None),
    Twin("dynamic fields injected as a raw copy (another raw form of the known finding)", _E, 'data["_data"] = self._data', 'data["_data"] = dict(self._data)', "C18.R4"),
    Twin("exception message written as repr (another failure of the known construct)", _E, '"exception_message": str(exc),', '"exception_message": repr(exc),', "C18.R7"),
    # R8 writer completeness
    Twin("JsonSerializer dumps only the fields that were set (seeded shape)", _S, 'value.model_dump(mode="json")', 'value.model_dump(mode="json", exclude_unset=True)', "C18.R8"),
    Twin("client envelope drops defaulted fields", _V, '            value=event.model_dump(mode="json"),', '            value=event.model_dump(mode="json", exclude_defaults=True),', "C18.R8"),
    Twin("server envelope drops None fields", _V, '        value = event.model_dump(mode="json")', '        value = event.model_dump(mode="json", exclude_none=True)', "C18.R8"),
    Twin("tick adapter dumps an include list", _P, 'tick_data = WorkflowTickAdapter.dump_python(tick, mode="json")', 'tick_data = WorkflowTickAdapter.dump_python(tick, mode="json", include={"type", "event"})', "C18.R8"),
    Twin("drop option arrives through a keyword dict built nearby", _S, '        if isinstance(value, BaseModel):\n            return {\n                "__is_pydantic": True,\n                "value": value.model_dump(mode="json"),',
         '        if isinstance(value, BaseModel):\n            opts = {"mode": "json"}\n            opts["exclude_unset"] = True\n            return {\n                "__is_pydantic": True,\n                "value": value.model_dump(**opts),', "C18.R8"),
    Twin("drop option arrives through a module constant", _V,
         '        value = event.model_dump(mode="json")\n\n        envelope = EventEnvelopeWithMetadata(\n            value=value,\n            qualified_name=_get_qualified_name(type(event))\n            if include_qualified_name\n            else None,\n            types=_get_event_subtypes(type(event)),\n            type=type(event).__name__,\n        )\n        return envelope\n\n\nclass EventEnvelope(BaseModel):',
         '        value = event.model_dump(mode="json", exclude_none=_COMPACT)\n\n        envelope = EventEnvelopeWithMetadata(\n            value=value,\n            qualified_name=_get_qualified_name(type(event))\n            if include_qualified_name\n            else None,\n            types=_get_event_subtypes(type(event)),\n            type=type(event).__name__,\n        )\n        return envelope\n\n\n_COMPACT = True\n\n\nclass EventEnvelope(BaseModel):', "C18.R8"),
    Twin("stream payload excludes a field", _A, "payload = envelope.model_dump_json()", 'payload = envelope.model_dump_json(exclude={"types"})', "C18.R8"),
    Twin("benign: explicit exclude_unset=False", _S, 'value.model_dump(mode="json")', 'value.model_dump(mode="json", exclude_unset=False)', None),
    Twin("benign: round_trip / by_alias / warnings", _V, '            value=event.model_dump(mode="json"),', '            value=event.model_dump(mode="json", round_trip=True, by_alias=False, warnings=True),', None),
    Twin("benign: keyword dict without drop options", _S, '        if isinstance(value, BaseModel):\n            return {\n                "__is_pydantic": True,\n                "value": value.model_dump(mode="json"),',
         '        if isinstance(value, BaseModel):\n            opts = {"mode": "json", "exclude_none": False}\n            return {\n                "__is_pydantic": True,\n                "value": value.model_dump(**opts),', None),
    Twin("benign: exclude=None on the tick adapter", _P, 'tick_data = WorkflowTickAdapter.dump_python(tick, mode="json")', 'tick_data = WorkflowTickAdapter.dump_python(tick, mode="json", exclude=None)', None),
    # R9 presence round trip
    Twin("result written only when truthy (seeded shape): 0 / False / '' / [] / {} come back as None", _E, "        if self._result is not None:\n", "        if self._result:\n", "C18.R9"),
    Twin("truthiness test as an early return", _E, "        if self._result is not None:\n            data[\"result\"] = self._result\n        return data",
         "        if not self._result:\n            return data\n        data[\"result\"] = self._result\n        return data", "C18.R9"),
    Twin("truthiness test through a local and the public property", _E, "        if self._result is not None:\n", "        has_result = bool(self.result)\n        if has_result:\n", "C18.R9"),
    Twin("falsy result replaced by None in the written value", _E, "            data[\"result\"] = self._result\n", "            data[\"result\"] = self._result or None\n", "C18.R9"),
    Twin("reader side: falsy result replaced by None on load", _E, "super().__init__(_result=result, **kwargs)", "super().__init__(_result=result or None, **kwargs)", "C18.R9"),
    Twin("dynamic fields written only when there are several (off by one)", _E, "        if self._data:\n            data[\"_data\"] = self._data", "        if len(self._data) > 1:\n            data[\"_data\"] = self._data", "C18.R9"),
    Twin("benign: None test as an early return", _E, "        if self._result is not None:\n            data[\"result\"] = self._result\n        return data",
         "        if self._result is None:\n            return data\n        data[\"result\"] = self._result\n        return data", None),
    Twin("benign: negated `is None` through a local", _E, "        if self._result is not None:\n", "        missing = self._result is None\n        if not missing:\n", None),
    Twin("benign: None test through the public property", _E, "        if self._result is not None:\n", "        if self.result is not None:\n", None),
    Twin("benign: empty dict compared explicitly (the parent hook's harmless truthiness test)", _E, "        if self._data:\n            data[\"_data\"] = self._data", "        if self._data != {}:\n            data[\"_data\"] = self._data", None),
    Twin("benign: result always written, None included", _E, "        if self._result is not None:\n            data[\"result\"] = self._result\n", "        data[\"result\"] = self._result\n", None),
    # R10 envelope payloads are opaque to the reader
    Twin("pydantic payload rehydrated recursively before model_validate (seeded shape S127)", _S, 'return module_class.model_validate(data["value"])',
         'return module_class.model_validate(\n                    self.deserialize_value(data["value"])\n                )', "C18.R10"),
    Twin("component payload rehydrated recursively before from_dict (seeded shape S127)", _S, 'return module_class.from_dict(data["value"])', 'return module_class.from_dict(self.deserialize_value(data["value"]))', "C18.R10"),
    Twin("payload decoded into a local first", _S, '                return module_class.model_validate(data["value"])',
         '                payload = self.deserialize_value(data["value"])\n                return module_class.model_validate(payload)', "C18.R10"),
    Twin("reader rehydrates the children of every dict before it looks at the tags", _S, '        if isinstance(data, dict):\n            if data.get("__is_pydantic")',
         '        if isinstance(data, dict):\n            data = {k: self.deserialize_value(v) for k, v in data.items()}\n            if data.get("__is_pydantic")', "C18.R10"),
    Twin("payload decoded in place before the tag tests", _S, '        if isinstance(data, dict):\n            if data.get("__is_pydantic")',
         '        if isinstance(data, dict):\n            if "value" in data:\n                data["value"] = self.deserialize_value(data["value"])\n            if data.get("__is_pydantic")', "C18.R10"),
    Twin("payload decoded through the string-level wrapper", _S, 'return module_class.model_validate(data["value"])', 'return module_class.model_validate(self.deserialize(json.dumps(data["value"])))', "C18.R10"),
    Twin("client envelope value run through the tagging decoder before model_validate", _V, "                    return module_class.model_validate(event.value)",
         "                    from workflows.context.serializers import JsonSerializer\n\n                    return module_class.model_validate(JsonSerializer().deserialize_value(event.value))", "C18.R10"),
    Twin("client envelope value decoded through a local (registry arm)", _V, "                    return registry[event.type].model_validate(event.value)",
         "                    from workflows.events import _deserialize_event\n\n                    value = _deserialize_event(event.value)\n                    return registry[event.type].model_validate(value)", "C18.R10"),
    Twin("envelope before-validator decodes the stored value", _V, '                data = {**data, "value": data["data"]}\n        return data',
         '                data = {**data, "value": data["data"]}\n            if "value" in data:\n                from workflows.context.serializers import JsonSerializer\n\n                data = {**data, "value": JsonSerializer().deserialize_value(data["value"])}\n        return data', "C18.R10"),
    Twin("benign: payload handed over through a local", _S, '                return module_class.model_validate(data["value"])', '                payload = data["value"]\n                return module_class.model_validate(payload)', None),
    Twin("benign: payload copied, not interpreted", _S, 'return module_class.model_validate(data["value"])', 'return module_class.model_validate(dict(data["value"]))', None),
    Twin("benign: untagged dict rebuilt into the rebound parameter after the tag tests", _S, "            return {k: self.deserialize_value(v) for k, v in data.items()}\n        elif isinstance(data, list):",
         "            data = {k: self.deserialize_value(v) for k, v in data.items()}\n            return data\n        elif isinstance(data, list):", None),
    Twin("benign: list elements decoded into the rebound parameter (other branch)", _S, "            return [self.deserialize_value(item) for item in data]\n        return data",
         "            data = [self.deserialize_value(item) for item in data]\n            return data\n        return data", None),
    Twin("benign: envelope value through a local", _V, "                    return module_class.model_validate(event.value)", "                    payload = event.value\n                    return module_class.model_validate(payload)", None),
    Twin("benign: writer side wraps nothing, reader result bound to a local", _S, '                return module_class.from_dict(data["value"])', '                component = module_class.from_dict(data["value"])\n                return component', None),
    # R7 (fires on the unchanged tree; twins only check that refactors do not change the verdict)
    Twin("benign: message local renamed", _E, '    exc_message = data["exception_message"]\n    try:\n        exc_cls = import_module_from_qualified_name(data["exception_type"])\n        return exc_cls(exc_message)\n    except (ImportError, AttributeError, ValueError):\n        return Exception(exc_message)',
         '    msg = data["exception_message"]\n    try:\n        exc_cls = import_module_from_qualified_name(data["exception_type"])\n        return exc_cls(msg)\n    except (ImportError, AttributeError, ValueError):\n        return Exception(msg)', None),
]
