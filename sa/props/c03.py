"""C03 — queued work never stalls; idleness is reported only when truly idle.

Decided: (R1) every reducer path that frees a worker slot drains the queue back to capacity; queueing
happens only on the no-capacity branch; (R2) the *volatile work inventory*: every runner container
that can hold scheduled step work (a delayed TickAddEvent retry) is consulted on the path from
"reducer saw quiescence" to "WorkflowIdleEvent published", and the idle flag of UnhandledEvent is
computed by a predicate with the same coverage; FIFO discipline of the tick buffer; (R3) an idle
check is never consumed by the very drain loop during which it was scheduled unless the mailbox
has been collected in between; (R4) both idle announcements use the same quiescence predicate.
Also (R2) every WorkflowIdleEvent / CommandScheduleIdleCheck built by the reducer module carries the positive path fact
`_check_idle_state(<state>)` (the deferred idle check re-evaluates the predicate; it never trusts the request).
Not decided: real timing.
"""

from __future__ import annotations

import ast

from ..astx import attr_reads, attr_writes, call_name, calls_named, enclosing_stmt, expand, facts_at, has_fact, kwarg, last
from ..cfg import CFG, exprs_in_node
from ..index import AnchorError, FuncNode, ancestors, enclosing_function, parent, qualname_of, walk_shallow
from ..selftest import Twin
from ._engine import CL, CL_REL, RUNNER, branch_for, command_constructions, param

EXPLANATION = __doc__.split("\n\n", 1)[1]
TECHNIQUE = 'static analysis: must-pass-through to the drain loop, volatile-work inventory (which runner containers hold step work vs what the idle path consults), FIFO discipline'
TRUSTED = ["CPython ast", "heapq", "asyncio task scheduling"]


def _drain_loops(fn: ast.AST) -> list[ast.While]:
    out = []
    for n in walk_shallow(fn):
        if isinstance(n, ast.While):
            txt = ast.unparse(n.test)
            pops = [c for c in ast.walk(n) if isinstance(c, ast.Call) and isinstance(c.func, ast.Attribute) and c.func.attr == "pop" and ast.unparse(c.func.value).endswith(".queue")]
            enq = calls_named(n, "_add_or_enqueue_event")
            if pops and enq and "queue" in txt:
                out.append(n)
    return out


def _methods_reading(repo, cls_ref: str, attr: str) -> set[str]:
    """Names of methods of the class that read self.<attr> (one level of helper indirection)."""
    out = set()
    for name, fn in repo.methods(cls_ref).items():
        if any(isinstance(r.value, ast.Name) and r.value.id == "self" for r in attr_reads(fn, attr)):
            out.add(name)
    return out


def run(chk) -> None:
    repo = chk.repo
    from ._engine import engine_view
    chk.extra["helpers_inlined"] = engine_view(repo)
    m = repo.module(CL)

    # ---------------------------------------------------------------- R1 drain to capacity
    drains_total = 0
    for ref in (f"{CL}:_process_step_result_tick", f"{CL}:rewind_in_progress"):
        mod, fn = repo.func(ref)
        cfg = CFG(fn)
        removals = []
        for node, kind in attr_writes(fn, "in_progress"):
            if kind in ("mutcall:remove", "mutcall:pop", "mutcall:clear", "assign", "del"):
                removals.append((node, kind))
        drains = _drain_loops(fn)
        drains_total += len(drains)
        if not removals:
            raise AnchorError(f"C03.R1: {ref} no longer frees in_progress entries")
        for node, kind in removals:
            recv = ast.unparse(node.value)
            good = []
            for d in drains:
                t = ast.unparse(d.test)
                if f"{recv}.queue" in t and f"{recv}.in_progress" in t and f"{recv}.config.num_workers" in t:
                    good += cfg.nodes_of(d)
            # exit short-circuit: only an edge on which "some command indicates exit" is known to hold may skip the drain
            from ..astx import atoms as _atoms
            exit_edges = []
            for n in cfg.nodes:
                if n.kind != "test":
                    continue
                for lab in ("T", "F"):
                    fs = _atoms(expand(n.ast.test, n.ast), lab == "T")
                    if any("indicates_exit" in t and pol and not t.startswith("(") for t, pol in fs):
                        exit_edges.append((n, lab))
            st = enclosing_stmt(node)
            starts = cfg.nodes_of(st)
            r = cfg.reach(starts, blocked=good, blocked_edges=exit_edges, labels_excluded=("exc", "cancel"), include_starts=False)
            bad = cfg.exit in r
            chk.ob("C03.R1", f"after freeing a slot of `{recv}` the queue is drained back to capacity before the reducer returns (unless the run is exiting)", not bad and bool(good),
                   m=mod, node=node, fn=fn, instance=f"drain-after:{kind}", reason="a normal path from the removal reaches the return without the drain loop for the same worker state")
        for d in drains:
            # the drain condition is exactly (queue non-empty and below capacity): it must not stop early
            recv = None
            for c in ast.walk(d):
                if isinstance(c, ast.Call) and isinstance(c.func, ast.Attribute) and c.func.attr == "pop" and ast.unparse(c.func.value).endswith(".queue"):
                    recv = ast.unparse(c.func.value.value)
                    pop = c
            from ..astx import atoms
            at = set(atoms(d.test, True))
            want = {(f"{recv}.queue", True), (f"len({recv}.in_progress) < {recv}.config.num_workers", True)}
            chk.ob("C03.R1", "the drain loop continues while (queue non-empty and below capacity) and on nothing else", at == want, m=mod, node=d, fn=fn,
                   instance="drain:condition", reason=f"loop condition atoms {sorted(at)} differ from {sorted(want)}")
            early = [x for x in ast.walk(d) if isinstance(x, (ast.Break, ast.Return))]
            chk.ob("C03.R1", "the drain loop has no early exit", not early, m=mod, node=early[0] if early else d, fn=fn, instance="drain:no-early-exit", reason="break/return inside the drain loop")
            fifo = pop.args and isinstance(pop.args[0], ast.Constant) and pop.args[0].value == 0
            chk.ob("C03.R1", "the drain takes the oldest queued event (pop(0))", bool(fifo), m=mod, node=pop, fn=fn, instance="drain:fifo", reason="queue is not drained from the front")
    chk.floor("C03.R1", "drain loops", drains_total, 2)

    madd, add = repo.func(f"{CL}:_add_or_enqueue_event")
    cfga = CFG(add)
    st_param = param(add, 2)
    qapp = [c for c in ast.walk(add) if isinstance(c, ast.Call) and isinstance(c.func, ast.Attribute) and c.func.attr in ("append", "insert") and ast.unparse(c.func.value) == f"{st_param}.queue"]
    chk.floor("C03.R1", "queue.append sites in _add_or_enqueue_event", len(qapp), 1)
    for c in qapp:
        for n in cfga.nodes_of(enclosing_stmt(c)):
            ok = (f"len({st_param}.in_progress) < {st_param}.config.num_workers", False) in facts_at(cfga, n)
            chk.ob("C03.R1", "an event is queued only when the step is at capacity", ok, m=madd, node=c, fn=add, instance="enqueue:only-when-full",
                   reason="queue.append is reachable while a worker slot is free")
    # every path of _add_or_enqueue_event either starts a worker or queues the event (never drops it)
    starts_or_queues = [n for n in cfga.nodes if n.ast is not None and any(
        isinstance(x, ast.Call) and isinstance(x.func, ast.Attribute) and x.func.attr in ("append", "insert") and ast.unparse(x.func.value) in (f"{st_param}.queue", f"{st_param}.in_progress")
        for x in exprs_in_node(n))]
    bad = cfga.must_pass([cfga.entry], [cfga.exit], starts_or_queues, labels_excluded=("exc", "cancel"))
    chk.ob("C03.R1", "_add_or_enqueue_event always either starts or queues the event", not bad, m=madd, node=add, fn=add, instance="enqueue:total",
           reason="a path returns without starting or queuing the event")

    # ---------------------------------------------------------------- R2 volatile work inventory
    # the reducer announces / schedules idle only under its quiescence predicate, evaluated on the state it is reducing *at that
    # moment* (the deferred TickIdleCheck re-evaluates it: ticks reduced in between may have started work)
    from ..astx import facts_at as _facts_at
    mrt, rt = repo.func(f"{CL}:_reduce_tick")
    idle_pubs = [(f2, c) for f2 in mrt.functions.values() for c in ast.walk(f2) if isinstance(c, ast.Call) and last(call_name(c)) in ("WorkflowIdleEvent", "CommandScheduleIdleCheck")
                 and enclosing_function(c) is f2 and not any(isinstance(a, ast.Call) and last(call_name(a)) == "isinstance" for a in ancestors(c))]
    chk.floor("C03.R2", "idle announcements / idle-check requests constructed by the reducer module", len(idle_pubs), 2)
    for f2, c in idle_pubs:
        cfgt = CFG(f2)
        for n in cfgt.nodes_of(enclosing_stmt(c)):
            f = _facts_at(cfgt, n, expand_locals=True)
            guarded = any(a.startswith("_check_idle_state(") and pol for a, pol in f)
            chk.ob("C03.R2", f"`{last(call_name(c))}` is emitted by the reducer only when _check_idle_state holds for the state being reduced", guarded, m=mrt, node=c, fn=f2,
                   instance=f"idle-guarded:{last(call_name(c))}", reason=f"facts on the path: {sorted(f)[:6]} — no positive `_check_idle_state(…)`: idle is announced although a tick reduced since the check was requested may have started work")
    mr, pc = repo.func(f"{RUNNER}.process_command")
    _, run_fn = repo.func(f"{RUNNER}.run")
    cmd = param(pc, 1)
    qbr = branch_for(pc, cmd, "CommandQueueEvent")
    # containers that receive the TickAddEvent built from a CommandQueueEvent
    holders: dict[str, ast.AST] = {}
    for c in ast.walk(qbr):
        if not any(c is x for s in qbr.body for x in ast.walk(s)):
            continue
        if isinstance(c, ast.Call):
            nm = call_name(c) or ""
            if nm.startswith("self.") and nm.endswith(".append") and len(nm.split(".")) == 3:
                holders[nm.split(".")[1]] = c
            elif nm.startswith("self.") and len(nm.split(".")) == 2:
                # helper method of the runner: which self containers does it write?
                helper = repo.methods(RUNNER).get(nm.split(".")[1])
                if helper is not None:
                    for a in ast.walk(helper):
                        if isinstance(a, ast.Attribute) and isinstance(a.value, ast.Name) and a.value.id == "self" and isinstance(a.ctx, ast.Load):
                            p = parent(a)
                            if isinstance(p, ast.Call) and a in p.args and last(call_name(p)) in ("heappush",):
                                holders[a.attr] = c
                            if isinstance(p, ast.Attribute) and p.attr in ("append", "insert", "add") and isinstance(parent(p), ast.Call):
                                holders[a.attr] = c
    chk.floor("C03.R2", "runner containers that can hold a queued/delayed TickAddEvent", len(holders), 2)
    chk.extra["work_inventory"] = sorted(holders)

    ibr = branch_for(pc, cmd, "CommandScheduleIdleCheck")
    cfgp = CFG(pc)
    idle_appends = [c for c in ast.walk(ibr) if isinstance(c, ast.Call) and any(isinstance(a, ast.Call) and last(call_name(a)) == "TickIdleCheck" for a in c.args)
                    and any(c is x for s in ibr.body for x in ast.walk(s))]
    chk.floor("C03.R2", "sites scheduling a TickIdleCheck", len(idle_appends), 1)
    readers_cache: dict[str, set[str]] = {}
    for c in idle_appends:
        carrier = (call_name(c) or "").split(".")
        fifo_container = carrier[1] if len(carrier) == 3 and carrier[0] == "self" else None
        chk.ob("C03.R2", "the idle check is appended at the tail of the tick buffer (FIFO: everything buffered earlier is reduced first)",
               fifo_container is not None and carrier[2] == "append", m=mr, node=c, fn=pc, instance="idle-check:fifo-append",
               reason=f"idle check enters through `{call_name(c)}`")
        for n in cfgp.nodes_of(enclosing_stmt(c)):
            guard_txt = []
            for t, lab in cfgp.guards(n):
                if t.kind == "test":
                    guard_txt.append(t.ast.test)
            for k in sorted(holders):
                if k == fifo_container:
                    continue  # consulted implicitly by FIFO order (checked above and below)
                readers = readers_cache.setdefault(k, _methods_reading(repo, RUNNER, k))
                consulted = False
                for g in guard_txt:
                    for x in ast.walk(g):
                        if isinstance(x, ast.Attribute) and isinstance(x.value, ast.Name) and x.value.id == "self" and (x.attr == k or x.attr in readers - {"process_command", "run", "__init__", "schedule_tick"}):
                            scope = [g] + ([repo.methods(RUNNER)[x.attr]] if x.attr in repo.methods(RUNNER) else [])
                            from ..astx import isinstance_classes
                            filt = [c for sc_ in scope for c in isinstance_classes(sc_)]
                            # a filter by tick class must include the class that carries delayed step work
                            if not filt or "TickAddEvent" in [c.split(".")[-1] for c in filt]:
                                consulted = True
                chk.ob("C03.R2", f"idle is announced only after consulting `{k}` (it can hold a delayed retry)", consulted, m=mr, node=c, fn=pc,
                       instance=f"idle-path-consults:{k}",
                       reason=f"WorkflowIdleEvent can be published while a delayed TickAddEvent waits in `self.{k}`: nothing between CommandScheduleIdleCheck and the publication reads it")
    # FIFO consumption of the buffer
    pops = [c for c in ast.walk(run_fn) if isinstance(c, ast.Call) and (call_name(c) or "") == "self.tick_buffer.pop"]
    chk.floor("C03.R2", "tick_buffer.pop sites", len(pops), 1)
    for c in pops:
        ok = c.args and isinstance(c.args[0], ast.Constant) and c.args[0].value == 0
        chk.ob("C03.R2", "the tick buffer is consumed from the front", bool(ok), m=mr, node=c, fn=run_fn, instance="tick-buffer:fifo-pop", reason="not pop(0)")
    ins = [c for mname, f in repo.methods(RUNNER).items() for c in ast.walk(f) if isinstance(c, ast.Call) and (call_name(c) or "") == "self.tick_buffer.insert"]
    chk.ob("C03.R2", "nothing jumps the tick-buffer queue", not ins, m=mr, node=ins[0] if ins else run_fn, fn=enclosing_function(ins[0]) if ins else run_fn, instance="tick-buffer:no-insert",
           reason="tick_buffer.insert breaks the FIFO argument the idle check relies on")

    # UnhandledEvent(idle=…) must be computed from a predicate covering the same inventory
    mae, ae = repo.func(f"{CL}:_process_add_event_tick")
    un = calls_named(ae, "UnhandledEvent")
    for c in un:
        idle = kwarg(c, "idle")
        same = idle is not None and isinstance(idle, ast.Call) and last(call_name(idle)) == "_check_idle_state"
        chk.ob("C03.R4", "UnhandledEvent.idle is computed by the same quiescence predicate as the idle check", same, m=mae, node=c, fn=ae, instance="unhandled-idle:predicate",
               reason=f"idle={ast.unparse(idle) if idle is not None else None}")
        # the reducer-side predicate cannot see runner containers: it must be told (state field / parameter) about scheduled retries
        _, cis = repo.func(f"{CL}:_check_idle_state")
        fields = {a.attr for a in ast.walk(cis) if isinstance(a, ast.Attribute)}
        params = {a.arg for a in cis.args.args}
        knows = any("retr" in f or "scheduled" in f or "delayed" in f or "pending" in f for f in fields | params)
        chk.ob("C03.R2", "the reducer-side idle predicate accounts for scheduled retries (UnhandledEvent.idle is decided inside the reducer)", knows,
               m=mae, node=c, fn=ae, instance="unhandled-idle:scheduled-retries",
               reason="_check_idle_state sees only queue/in_progress/is_running; a retry waiting out its delay lives in the runner's heap, so UnhandledEvent(idle=True) can be published while it is pending")

    # _check_idle_state itself
    mci, cis = repo.func(f"{CL}:_check_idle_state")
    reads = {a.attr for a in ast.walk(cis) if isinstance(a, ast.Attribute)}
    for f in ("queue", "in_progress", "is_running"):
        chk.ob("C03.R2", f"_check_idle_state consults `{f}`", f in reads, m=mci, node=cis, fn=cis, instance=f"idle-predicate:{f}", reason=f"`{f}` is not read")
    cfgi = CFG(cis)
    true_returns = [n for n in cfgi.nodes if isinstance(n.ast, ast.Return) and isinstance(n.ast.value, ast.Constant) and n.ast.value.value is True]
    for n in true_returns:
        # returning True requires having iterated all workers: the return is outside the loop body
        loops = [a for a in ast.walk(cis) if isinstance(a, (ast.For,)) and any(x is n.ast for x in ast.walk(a))]
        chk.ob("C03.R2", "idle is concluded only after every step's queue and in_progress were inspected", not loops, m=mci, node=n.ast, fn=cis, instance="idle-predicate:all-steps",
               reason="`return True` inside the loop over workers")

    # ---------------------------------------------------------------- R3 deferral of the idle check
    cfgr = CFG(run_fn)
    drain = [n for n in walk_shallow(run_fn) if isinstance(n, ast.While) and ast.unparse(n.test) == "self.tick_buffer"]
    chk.floor("C03.R3", "tick-buffer drain loops in run()", len(drain), 1)
    for d in drain:
        calls_pt = any(isinstance(c, ast.Call) and (call_name(c) or "").endswith("_process_tick") for c in ast.walk(d))
        collects = any(isinstance(c, ast.Call) and last(call_name(c)) in ("wait_for_next_task", "wait_receive") for c in ast.walk(d))
        # the loop processes ticks whose commands may append a TickIdleCheck to the very buffer it drains
        defers = False
        for s in ast.walk(d):
            if isinstance(s, ast.If) and "TickIdleCheck" in ast.unparse(s.test):
                # deferral idiom: an idle check met while draining is set aside (break / re-queue after collecting the mailbox)
                if any(isinstance(x, (ast.Break, ast.Continue)) for x in ast.walk(s)):
                    defers = True
        snapshot = False
        loc_parent = parent(d)
        ok = (not calls_pt) or collects or defers or snapshot
        chk.ob("C03.R3", "an idle check scheduled while the buffer is being drained is not consumed before the mailbox has been collected", ok, m=mr, node=d, fn=run_fn,
               instance="idle-check:deferred",
               reason="`while self.tick_buffer:` pops the TickIdleCheck that process_command appended during the same drain; an event a step sent (already in the mailbox, finalize_step awaited it) is still uncollected when WorkflowIdleEvent is published")


_P = CL_REL
TWINS = [
    Twin("deferred idle check trusts the request instead of re-evaluating", CL_REL, "        if _check_idle_state(init):\n            return init, [CommandPublishEvent(WorkflowIdleEvent())]", "        if init.is_running:\n            return init, [CommandPublishEvent(WorkflowIdleEvent())]", "C03.R2"),
    Twin("benign: idle predicate held in a local", CL_REL, "        if _check_idle_state(init):\n            return init, [CommandPublishEvent(WorkflowIdleEvent())]", "        quiescent = _check_idle_state(init)\n        if quiescent:\n            return init, [CommandPublishEvent(WorkflowIdleEvent())]", None),
    Twin("drain skipped after completion", _P, "    # enqueue next events if there are any\n    if not is_completed:\n        while (", "    # enqueue next events if there are any\n    if not is_completed and did_complete_step:\n        while (", "C03.R1"),
    Twin("drain only one", _P, "            event = worker_state.queue.pop(0)\n            subcommands = _add_or_enqueue_event(\n                event, tick.step_name, worker_state, now_seconds\n            )\n            commands.extend(subcommands)",
         "            event = worker_state.queue.pop(0)\n            subcommands = _add_or_enqueue_event(\n                event, tick.step_name, worker_state, now_seconds\n            )\n            commands.extend(subcommands)\n            break", "C03.R1"),
    Twin("rewind forgets drain", _P, "        step_state.in_progress = []\n        while (\n            len(step_state.queue) > 0\n            and len(step_state.in_progress) < step_state.config.num_workers\n        ):",
         "        step_state.in_progress = []\n        while (\n            len(step_state.queue) > 0\n            and len(step_state.in_progress) < 1\n        ):", "C03.R1"),
    Twin("idle ignores in_progress", _P, "        if worker_state.queue or worker_state.in_progress:\n            return False", "        if worker_state.queue:\n            return False", "C03.R2"),
    Twin("idle returns inside loop", _P, "        if worker_state.queue or worker_state.in_progress:\n            return False\n\n    return True", "        if worker_state.queue or worker_state.in_progress:\n            return False\n        return True\n    return True", "C03.R2"),
    Twin("idle check jumps the queue", _P, "                self.tick_buffer.append(TickIdleCheck())", "                self.tick_buffer.insert(0, TickIdleCheck())", "C03.R2"),
    Twin("idle ignores scheduled retries", _P, "if not self._idle_check_pending and not self._has_scheduled_step_work():", "if not self._idle_check_pending:", "C03.R2"),
    Twin("idle consults the wrong timer kind", _P, "            isinstance(tick, TickAddEvent) for _, _, tick in self.scheduled_wakeups", "            isinstance(tick, TickTimeout) for _, _, tick in self.scheduled_wakeups", "C03.R2"),
    Twin("benign: heap consulted inline", _P, "if not self._idle_check_pending and not self._has_scheduled_step_work():", "if not self._idle_check_pending and not any(isinstance(t, TickAddEvent) for _, _, t in self.scheduled_wakeups):", None),
    Twin("unhandled idle constant", _P, "idle=_check_idle_state(state),", "idle=not state.workers[next(iter(state.workers))].queue,", "C03.R4"),
    Twin("benign: drain condition reordered", _P, "            len(worker_state.queue) > 0\n            and len(worker_state.in_progress) < worker_state.config.num_workers", "            len(worker_state.in_progress) < worker_state.config.num_workers\n            and worker_state.queue", None),
    Twin("benign: idle predicate split", _P, "        if worker_state.queue or worker_state.in_progress:\n            return False", "        if worker_state.queue:\n            return False\n        if worker_state.in_progress:\n            return False", None),
]
