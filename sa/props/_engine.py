"""Helpers shared by the control-loop properties (C01–C14, C26, C31, C35): bindings of the
reducer/runner anchors, union members, isinstance dispatch chains, command-list construction."""

from __future__ import annotations

import ast
from typing import Iterable, Iterator

from ..astx import call_name, dotted, enclosing_stmt, kwarg, last
from ..cfg import CFG, Node, exprs_in_node
from ..index import AnchorError, FuncNode, Module, Repo, parent, walk_shallow

WF = "packages/llama-index-workflows/src/workflows"
CL = "workflows.runtime.control_loop"
CL_REL = f"{WF}/runtime/control_loop.py"
TICKS = "workflows.runtime.types.ticks"
COMMANDS = "workflows.runtime.types.commands"
RESULTS = "workflows.runtime.types.results"
STATE = "workflows.runtime.types.internal_state"
RUNNER = f"{CL}:_ControlLoopRunner"


def union_members(repo: Repo, modname: str, name: str) -> list[str]:
    """Class names of `name = A | B | …`, `Annotated[A | B, …]` or `Union[A, B]` at module level."""
    m = repo.module(modname)
    for s in m.tree.body:
        tgt = None
        if isinstance(s, ast.Assign) and len(s.targets) == 1 and isinstance(s.targets[0], ast.Name):
            tgt, val = s.targets[0].id, s.value
        elif isinstance(s, ast.AnnAssign) and isinstance(s.target, ast.Name) and s.value is not None:
            tgt, val = s.target.id, s.value
        if tgt != name:
            continue
        out: list[str] = []

        def rec(e: ast.AST) -> None:
            if isinstance(e, ast.BinOp) and isinstance(e.op, ast.BitOr):
                rec(e.left)
                rec(e.right)
            elif isinstance(e, ast.Subscript):
                base = dotted(e.value) or ""
                if last(base) == "Annotated":
                    sl = e.slice.elts[0] if isinstance(e.slice, ast.Tuple) else e.slice
                    rec(sl)
                elif last(base) == "Union":
                    for x in e.slice.elts if isinstance(e.slice, ast.Tuple) else [e.slice]:
                        rec(x)
                else:  # Generic[Param] member such as AddWaiter[Event]
                    out.append(last(base) or "?")
            else:
                d = dotted(e)
                if d:
                    out.append(last(d))

        rec(val)
        if out:
            return out
    raise AnchorError(f"union `{name}` not found in {modname}")


def isinstance_dispatch(fn: ast.AST, subject: str) -> tuple[list[tuple[list[str], ast.If]], ast.If | None]:
    """All `if/elif isinstance(<subject>, C…)` tests in fn (in source order) and the If whose
    final else raises (the exhaustive-dispatch tail), if any."""
    out: list[tuple[list[str], ast.If]] = []
    tail: ast.If | None = None
    for n in walk_shallow(fn):
        if isinstance(n, ast.If):
            t = n.test
            if isinstance(t, ast.Call) and call_name(t) == "isinstance" and len(t.args) == 2 and ast.unparse(t.args[0]) == subject:
                c = t.args[1]
                names = [last(dotted(e)) for e in (c.elts if isinstance(c, ast.Tuple) else [c])]
                out.append(([x for x in names if x], n))
                if n.orelse and not (len(n.orelse) == 1 and isinstance(n.orelse[0], ast.If)):
                    if any(isinstance(s, ast.Raise) for s in n.orelse):
                        tail = n
    out.sort(key=lambda t: t[1].lineno)
    return out, tail


def branch_for(fn: ast.AST, subject: str, cls: str) -> ast.If:
    for names, node in isinstance_dispatch(fn, subject)[0]:
        if cls in names:
            return node
    raise AnchorError(f"no `isinstance({subject}, {cls})` branch in {getattr(fn, 'name', '?')}")


def command_constructions(root: ast.AST, *classes: str) -> list[ast.Call]:
    out = [c for c in ast.walk(root) if isinstance(c, ast.Call) and last(call_name(c)) in classes]
    return sorted(out, key=lambda c: (c.lineno, c.col_offset))


def list_position(call: ast.Call) -> tuple[str, ast.AST] | None:
    """How a command construction enters a command list: ('append'|'insert0'|'literal'|'extend', carrier stmt/list)."""
    p = parent(call)
    if isinstance(p, ast.Call) and isinstance(p.func, ast.Attribute) and call in p.args:
        if p.func.attr == "append":
            return "append", p
        if p.func.attr == "insert" and len(p.args) == 2 and isinstance(p.args[0], ast.Constant) and p.args[0].value == 0:
            return "insert0", p
    if isinstance(p, (ast.List, ast.Tuple)):
        return "literal", p
    # the command is first bound to a local and the local is then put into a command list
    if isinstance(p, (ast.Assign, ast.AnnAssign)):
        tgt = p.targets[0] if isinstance(p, ast.Assign) and len(p.targets) == 1 else getattr(p, "target", None)
        if isinstance(tgt, ast.Name):
            from ..index import enclosing_function
            fn = enclosing_function(call)
            if fn is not None:
                for n in ast.walk(fn):
                    if isinstance(n, ast.Name) and n.id == tgt.id and isinstance(n.ctx, ast.Load):
                        q = parent(n)
                        if isinstance(q, ast.Call) and isinstance(q.func, ast.Attribute) and n in q.args:
                            if q.func.attr == "append":
                                return "append", q
                            if q.func.attr == "insert" and len(q.args) == 2 and isinstance(q.args[0], ast.Constant) and q.args[0].value == 0:
                                return "insert0", q
                        if isinstance(q, (ast.List, ast.Tuple)):
                            return "literal", q
    return None


def published_event_class(call: ast.Call) -> str | None:
    """Class name (or source text) of the event inside CommandPublishEvent(event=…)."""
    ev = kwarg(call, "event", 0)
    if ev is None:
        return None
    if isinstance(ev, ast.Call):
        return last(call_name(ev))
    return ast.unparse(ev)


def node_calls(n: Node, *names: str) -> list[ast.Call]:
    return [x for x in exprs_in_node(n) if isinstance(x, ast.Call) and (last(call_name(x)) in names or call_name(x) in names)]


def nodes_calling(cfg: CFG, *names: str) -> list[Node]:
    return [n for n in cfg.nodes if n.ast is not None and node_calls(n, *names)]


def param(fn: ast.AST, i: int) -> str:
    a = fn.args.posonlyargs + fn.args.args
    if len(a) <= i:
        raise AnchorError(f"{getattr(fn, 'name', '?')} has no parameter #{i}")
    return a[i].arg


def wf_modules(repo: Repo, prefix: str = "workflows") -> Iterator[Module]:
    for m in repo.by_rel.values():
        if m.name == prefix or m.name.startswith(prefix + "."):
            yield m


# Functions of the control-loop module that the rules bind as anchors (by name). Every *other* private helper that a
# refactoring introduces is inlined into its callers before analysis (sa/inline.py), so that "extract method" does not
# hide the constructs the rules look at.
CL_PROTECTED = {
    "_is_shutdown_error", "_single_pull", "control_loop", "rebuild_state_from_ticks", "replay_ticks_stream",
    "rebuild_state_from_ticks_stream", "_reduce_tick", "rewind_in_progress", "_check_idle_state", "_process_step_result_tick",
    "_add_or_enqueue_event", "_process_add_event_tick", "_process_cancel_run_tick", "_process_publish_event_tick",
    "_process_timeout_tick", "_process_waiter_timeout_tick",
    "_ControlLoopRunner.__init__", "_ControlLoopRunner.schedule_tick", "_ControlLoopRunner.next_wakeup_timeout",
    "_ControlLoopRunner.pop_due_ticks", "_ControlLoopRunner.run_worker", "_ControlLoopRunner.process_command",
    "_ControlLoopRunner.cleanup_tasks", "_ControlLoopRunner.run", "_ControlLoopRunner._process_tick",
    "_ControlLoopRunner._has_scheduled_step_work", "_run_worker",
}


# The private module-level helpers of retry_policy.py that the rules know by name (C06/C07 follow them explicitly).
RP = "workflows.retry_policy"
RP_PROTECTED = {"_exp_term", "_to_seconds", "_compile_pattern"}


# internal_state.py: (de)serialization of the broker state; the rules bind these by name.
ST_PROTECTED = {"_import_event_type", "_deepcopy", "deepcopy"}


def engine_view(repo: Repo) -> int:
    """Switch this Repo object to the helper-inlined view of the control-loop, retry-policy and broker-state modules."""
    return repo.use_inlined(CL, CL_PROTECTED) + repo.use_inlined(RP, RP_PROTECTED) + repo.use_inlined(STATE, ST_PROTECTED)


def inlined_view(repo: Repo, modname: str, *checker_files: str, extra: Iterable[str] = ()) -> int:
    """Helper-inlined view of `modname` for a property module: every private function of the module that the checker's
    own source mentions by name is an anchor and stays; any other private helper (in particular one that a refactoring
    introduces) is inlined into its callers before the rules look at them."""
    import re as _re
    from pathlib import Path as _P

    m = repo.module(modname)
    text = "\n".join(_P(f).read_text(encoding="utf-8") for f in checker_files)
    words = set(_re.findall(r"[A-Za-z_][A-Za-z0-9_]*", text))
    protected = set(extra)
    for qn in m.functions:
        name = qn.split(".")[-1]
        if name in words:
            protected.add(name)
    return repo.use_inlined(modname, protected)


def copy_completeness(chk, rule: str) -> int:
    """Every explicit re-construction `K(f=x.f, …)` of a state record from an instance of the same class inside the
    state module's copy methods passes *all* fields of K (a field left out silently falls back to its default in every
    copy the reducer takes, i.e. on every tick).  `dataclasses.replace(x)` / `x._deepcopy()` copy everything by
    construction.  Returns the number of copy constructions examined."""
    repo = chk.repo
    m = repo.module(STATE)
    sites = 0
    for qn, fn in m.functions.items():
        if qn.split(".")[-1] not in ("deepcopy", "_deepcopy", "copy", "__copy__", "__deepcopy__"):
            continue
        for c in ast.walk(fn):
            if not (isinstance(c, ast.Call) and isinstance(c.func, ast.Name)):
                continue
            ref = repo.resolve_dotted(m, c.func.id)
            if ":" not in ref:
                continue
            try:
                km, kc = repo.cls(ref)
            except AnchorError:
                continue
            fields = [s_.target.id for s_ in kc.body if isinstance(s_, ast.AnnAssign) and isinstance(s_.target, ast.Name) and "ClassVar" not in ast.unparse(s_.annotation)]
            if not fields:
                continue
            passed = {k.arg for k in c.keywords if k.arg} | set(fields[:len(c.args)])
            # a copy construction: some field is fed from the same-named attribute of one source object
            srcs = set()
            for k in c.keywords:
                for x in ast.walk(k.value):
                    if isinstance(x, ast.Attribute) and x.attr == k.arg and isinstance(x.value, ast.Name):
                        srcs.add(x.value.id)
            if not srcs:
                continue
            sites += 1
            missing = [f for f in fields if f not in passed]
            chk.ob(rule, f"{qn}: the copy `{c.func.id}(…)` built from `{sorted(srcs)[0]}` carries every field of {c.func.id}", not missing, m=m, node=c, fn=fn,
                   instance=f"copy-complete:{qn}:{c.func.id}",
                   reason=f"fields {missing} are not copied: every state copy (one per tick) resets them to their defaults — a queued retry loses its attempt count / first-attempt time, "
                          f"so the policy is asked for the first-retry delay again and budgets restart")
    return sites
