"""Helpers shared by the control-loop properties (C01–C14, C26, C31, C35): bindings of the
reducer/runner anchors, union members, isinstance dispatch chains, command-list construction."""

from __future__ import annotations

import ast
from typing import Iterable, Iterator

from ..astx import call_name, dotted, enclosing_stmt, kwarg, last
from ..cfg import CFG, Node, exprs_in_node
from ..index import AnchorError, FuncNode, Module, Repo, parent, walk_shallow

WF = "packages/llama-index-workflows/src/workflows"
CL = "workflows.runtime.control_loop"
CL_REL = f"{WF}/runtime/control_loop.py"
TICKS = "workflows.runtime.types.ticks"
COMMANDS = "workflows.runtime.types.commands"
RESULTS = "workflows.runtime.types.results"
STATE = "workflows.runtime.types.internal_state"
RUNNER = f"{CL}:_ControlLoopRunner"


def union_members(repo: Repo, modname: str, name: str) -> list[str]:
    """Class names of `name = A | B | …`, `Annotated[A | B, …]` or `Union[A, B]` at module level."""
    m = repo.module(modname)
    for s in m.tree.body:
        tgt = None
        if isinstance(s, ast.Assign) and len(s.targets) == 1 and isinstance(s.targets[0], ast.Name):
            tgt, val = s.targets[0].id, s.value
        elif isinstance(s, ast.AnnAssign) and isinstance(s.target, ast.Name) and s.value is not None:
            tgt, val = s.target.id, s.value
        if tgt != name:
            continue
        out: list[str] = []

        def rec(e: ast.AST) -> None:
            if isinstance(e, ast.BinOp) and isinstance(e.op, ast.BitOr):
                rec(e.left)
                rec(e.right)
            elif isinstance(e, ast.Subscript):
                base = dotted(e.value) or ""
                if last(base) == "Annotated":
                    sl = e.slice.elts[0] if isinstance(e.slice, ast.Tuple) else e.slice
                    rec(sl)
                elif last(base) == "Union":
                    for x in e.slice.elts if isinstance(e.slice, ast.Tuple) else [e.slice]:
                        rec(x)
                else:  # Generic[Param] member such as AddWaiter[Event]
                    out.append(last(base) or "?")
            else:
                d = dotted(e)
                if d:
                    out.append(last(d))

        rec(val)
        if out:
            return out
    raise AnchorError(f"union `{name}` not found in {modname}")


def isinstance_dispatch(fn: ast.AST, subject: str) -> tuple[list[tuple[list[str], ast.If]], ast.If | None]:
    """All `if/elif isinstance(<subject>, C…)` tests in fn (in source order) and the If whose
    final else raises (the exhaustive-dispatch tail), if any."""
    out: list[tuple[list[str], ast.If]] = []
    tail: ast.If | None = None
    for n in walk_shallow(fn):
        if isinstance(n, ast.If):
            t = n.test
            if isinstance(t, ast.Call) and call_name(t) == "isinstance" and len(t.args) == 2 and ast.unparse(t.args[0]) == subject:
                c = t.args[1]
                names = [last(dotted(e)) for e in (c.elts if isinstance(c, ast.Tuple) else [c])]
                out.append(([x for x in names if x], n))
                if n.orelse and not (len(n.orelse) == 1 and isinstance(n.orelse[0], ast.If)):
                    if any(isinstance(s, ast.Raise) for s in n.orelse):
                        tail = n
    out.sort(key=lambda t: t[1].lineno)
    return out, tail


def branch_for(fn: ast.AST, subject: str, cls: str) -> ast.If:
    for names, node in isinstance_dispatch(fn, subject)[0]:
        if cls in names:
            return node
    raise AnchorError(f"no `isinstance({subject}, {cls})` branch in {getattr(fn, 'name', '?')}")


def command_constructions(root: ast.AST, *classes: str) -> list[ast.Call]:
    out = [c for c in ast.walk(root) if isinstance(c, ast.Call) and last(call_name(c)) in classes]
    return sorted(out, key=lambda c: (c.lineno, c.col_offset))


def list_position(call: ast.Call) -> tuple[str, ast.AST] | None:
    """How a command construction enters a command list: ('append'|'insert0'|'literal'|'extend', carrier stmt/list)."""
    p = parent(call)
    if isinstance(p, ast.Call) and isinstance(p.func, ast.Attribute) and call in p.args:
        if p.func.attr == "append":
            return "append", p
        if p.func.attr == "insert" and len(p.args) == 2 and isinstance(p.args[0], ast.Constant) and p.args[0].value == 0:
            return "insert0", p
    if isinstance(p, (ast.List, ast.Tuple)):
        return "literal", p
    # the command is first bound to a local and the local is then put into a command list
    if isinstance(p, (ast.Assign, ast.AnnAssign)):
        tgt = p.targets[0] if isinstance(p, ast.Assign) and len(p.targets) == 1 else getattr(p, "target", None)
        if isinstance(tgt, ast.Name):
            from ..index import enclosing_function
            fn = enclosing_function(call)
            if fn is not None:
                for n in ast.walk(fn):
                    if isinstance(n, ast.Name) and n.id == tgt.id and isinstance(n.ctx, ast.Load):
                        q = parent(n)
                        if isinstance(q, ast.Call) and isinstance(q.func, ast.Attribute) and n in q.args:
                            if q.func.attr == "append":
                                return "append", q
                            if q.func.attr == "insert" and len(q.args) == 2 and isinstance(q.args[0], ast.Constant) and q.args[0].value == 0:
                                return "insert0", q
                        if isinstance(q, (ast.List, ast.Tuple)):
                            return "literal", q
    return None


def published_event_class(call: ast.Call) -> str | None:
    """Class name (or source text) of the event inside CommandPublishEvent(event=…)."""
    ev = kwarg(call, "event", 0)
    if ev is None:
        return None
    if isinstance(ev, ast.Call):
        return last(call_name(ev))
    return ast.unparse(ev)


def node_calls(n: Node, *names: str) -> list[ast.Call]:
    return [x for x in exprs_in_node(n) if isinstance(x, ast.Call) and (last(call_name(x)) in names or call_name(x) in names)]


def nodes_calling(cfg: CFG, *names: str) -> list[Node]:
    return [n for n in cfg.nodes if n.ast is not None and node_calls(n, *names)]


def param(fn: ast.AST, i: int) -> str:
    a = fn.args.posonlyargs + fn.args.args
    if len(a) <= i:
        raise AnchorError(f"{getattr(fn, 'name', '?')} has no parameter #{i}")
    return a[i].arg


def wf_modules(repo: Repo, prefix: str = "workflows") -> Iterator[Module]:
    for m in repo.by_rel.values():
        if m.name == prefix or m.name.startswith(prefix + "."):
            yield m


# Functions of the control-loop module that the rules bind as anchors (by name). Every *other* private helper that a
# refactoring introduces is inlined into its callers before analysis (sa/inline.py), so that "extract method" does not
# hide the constructs the rules look at.
CL_PROTECTED = {
    "_is_shutdown_error", "_single_pull", "control_loop", "rebuild_state_from_ticks", "replay_ticks_stream",
    "rebuild_state_from_ticks_stream", "_reduce_tick", "rewind_in_progress", "_check_idle_state", "_process_step_result_tick",
    "_add_or_enqueue_event", "_process_add_event_tick", "_process_cancel_run_tick", "_process_publish_event_tick",
    "_process_timeout_tick", "_process_waiter_timeout_tick",
    "_ControlLoopRunner.__init__", "_ControlLoopRunner.schedule_tick", "_ControlLoopRunner.next_wakeup_timeout",
    "_ControlLoopRunner.pop_due_ticks", "_ControlLoopRunner.run_worker", "_ControlLoopRunner.process_command",
    "_ControlLoopRunner.cleanup_tasks", "_ControlLoopRunner.run", "_ControlLoopRunner._process_tick",
    "_ControlLoopRunner._has_scheduled_step_work", "_run_worker",
}


# The private module-level helpers of retry_policy.py that the rules know by name (C06/C07 follow them explicitly).
RP = "workflows.retry_policy"
RP_PROTECTED = {"_exp_term", "_to_seconds", "_compile_pattern"}


# internal_state.py: (de)serialization of the broker state; the rules bind these by name.
ST_PROTECTED = {"_import_event_type", "_deepcopy", "deepcopy"}


def engine_view(repo: Repo) -> int:
    """Switch this Repo object to the helper-inlined view of the control-loop, retry-policy and broker-state modules."""
    return repo.use_inlined(CL, CL_PROTECTED) + repo.use_inlined(RP, RP_PROTECTED) + repo.use_inlined(STATE, ST_PROTECTED)


def inlined_view(repo: Repo, modname: str, *checker_files: str, extra: Iterable[str] = ()) -> int:
    """Helper-inlined view of `modname` for a property module: every private function of the module that the checker's
    own source mentions by name is an anchor and stays; any other private helper (in particular one that a refactoring
    introduces) is inlined into its callers before the rules look at them."""
    import re as _re
    from pathlib import Path as _P

    m = repo.module(modname)
    text = "\n".join(_P(f).read_text(encoding="utf-8") for f in checker_files)
    words = set(_re.findall(r"[A-Za-z_][A-Za-z0-9_]*", text))
    protected = set(extra)
    for qn in m.functions:
        name = qn.split(".")[-1]
        if name in words:
            protected.add(name)
    return repo.use_inlined(modname, protected)


def copy_completeness(chk, rule: str) -> int:
    """Every explicit re-construction `K(f=x.f, …)` of a state record from an instance of the same class inside the
    state module's copy methods passes *all* fields of K (a field left out silently falls back to its default in every
    copy the reducer takes, i.e. on every tick).  `dataclasses.replace(x)` / `x._deepcopy()` copy everything by
    construction.  Returns the number of copy constructions examined."""
    repo = chk.repo
    m = repo.module(STATE)
    sites = 0
    for qn, fn in m.functions.items():
        if qn.split(".")[-1] not in ("deepcopy", "_deepcopy", "copy", "__copy__", "__deepcopy__"):
            continue
        for c in ast.walk(fn):
            if not (isinstance(c, ast.Call) and isinstance(c.func, ast.Name)):
                continue
            ref = repo.resolve_dotted(m, c.func.id)
            if ":" not in ref:
                continue
            try:
                km, kc = repo.cls(ref)
            except AnchorError:
                continue
            fields = [s_.target.id for s_ in kc.body if isinstance(s_, ast.AnnAssign) and isinstance(s_.target, ast.Name) and "ClassVar" not in ast.unparse(s_.annotation)]
            if not fields:
                continue
            passed = {k.arg for k in c.keywords if k.arg} | set(fields[:len(c.args)])
            # a copy construction: some field is fed from the same-named attribute of one source object
            srcs = set()
            for k in c.keywords:
                for x in ast.walk(k.value):
                    if isinstance(x, ast.Attribute) and x.attr == k.arg and isinstance(x.value, ast.Name):
                        srcs.add(x.value.id)
            if not srcs:
                continue
            sites += 1
            missing = [f for f in fields if f not in passed]
            chk.ob(rule, f"{qn}: the copy `{c.func.id}(…)` built from `{sorted(srcs)[0]}` carries every field of {c.func.id}", not missing, m=m, node=c, fn=fn,
                   instance=f"copy-complete:{qn}:{c.func.id}",
                   reason=f"fields {missing} are not copied: every state copy (one per tick) resets them to their defaults — a queued retry loses its attempt count / first-attempt time, "
                          f"so the policy is asked for the first-retry delay again and budgets restart")
    return sites


def rehydrate_replays(chk, rule: str, instance: str = "rehydrate:every-waiter-replayed") -> None:
    """`BrokerState.rehydrate_with_ticks` re-establishes the (unserializable) requirements of restored waiters by replaying the
    waiting step: ONE replay tick per restored waiter that lost its requirements, carrying that waiter's own input event.
    Decided structurally: the TickAddEvent is built per element of an iteration over `<worker>.collected_waiters` (order-only
    wrappers and filters allowed), its event is the element's `.event`, and the only conditions between the iteration and the
    tick are `w.has_requirements` / `not w.requirements` on that element (a further condition — de-duplication per step, a
    cut after the first — drops waiters that the resumed run then never matches)."""
    from ..astx import atoms, expand, facts_at, kwarg
    from ..index import ancestors

    repo = chk.repo
    mst, rh = repo.func(f"{STATE}:BrokerState.rehydrate_with_ticks")
    ticks = [c for c in ast.walk(rh) if isinstance(c, ast.Call) and (call_name_last(c) == "TickAddEvent")]
    chk.floor(rule, "replay ticks built by rehydrate_with_ticks", len(ticks), 1)

    def waiters_source(it: ast.AST, depth: int = 4) -> tuple[bool, list[ast.AST], str | None]:
        """(draws every element of some `.collected_waiters`, filter conditions met on the way, filter variable)."""
        conds: list[ast.AST] = []
        var = None
        while depth:
            depth -= 1
            if isinstance(it, ast.Attribute) and it.attr == "collected_waiters":
                return True, conds, var
            if isinstance(it, ast.Call) and isinstance(it.func, ast.Name) and it.func.id in ("sorted", "list", "tuple", "reversed", "iter") and it.args:
                it = it.args[0]
            elif isinstance(it, (ast.ListComp, ast.GeneratorExp)) and len(it.generators) == 1 and isinstance(it.elt, ast.Name) and isinstance(it.generators[0].target, ast.Name) \
                    and it.elt.id == it.generators[0].target.id:
                conds += it.generators[0].ifs
                var = it.elt.id
                it = it.generators[0].iter
            elif isinstance(it, ast.Name):
                it = expand(it, it, depth=1)
                if isinstance(it, ast.Name):
                    return False, conds, var
            else:
                return False, conds, var
        return False, conds, var

    cfg = CFG(rh)
    for c in ticks:
        ev = kwarg(c, "event", 0)
        ev = expand(ev, c, depth=1) if isinstance(ev, ast.Name) else ev
        elem = ev.value.id if isinstance(ev, ast.Attribute) and ev.attr == "event" and isinstance(ev.value, ast.Name) else None
        loop = None
        for a in ancestors(c):
            if isinstance(a, (ast.For, ast.AsyncFor)) and isinstance(a.target, ast.Name) and a.target.id == elem:
                loop = a
                break
            if isinstance(a, (ast.ListComp, ast.GeneratorExp)) and any(isinstance(g.target, ast.Name) and g.target.id == elem for g in a.generators):
                loop = a
                break
        bad = ""
        if elem is None or loop is None:
            bad = f"the replayed event `{ast.unparse(ev) if ev is not None else None}` is not the input event of the waiter being iterated: the tick is built for one selected waiter, not once per restored waiter"
        else:
            if isinstance(loop, (ast.For, ast.AsyncFor)):
                src_ok, conds, fvar = waiters_source(loop.iter)
                extra = []
                for n in cfg.nodes_of(enclosing_stmt_of(c)):
                    extra += [(a, pol) for a, pol in facts_at(cfg, n) if not _waiter_need_atom(a, pol, elem)]
                # facts established before the loop (on the step, the state) select nothing among the waiters of one step; only what is
                # learnt between the loop head and the tick does
                heads = [n for n in cfg.nodes if n.kind == "iter" and n.ast is loop]
                before = set(facts_at(cfg, heads[0])) if heads else set()
                extra = [x for x in extra if x not in before]
            else:
                g = [g for g in loop.generators if isinstance(g.target, ast.Name) and g.target.id == elem][0]
                src_ok, conds, fvar = waiters_source(g.iter)
                extra = [(a, pol) for t in g.ifs for a, pol in atoms(t) if not _waiter_need_atom(a, pol, elem)]
            for t in conds:
                extra += [(a, pol) for a, pol in atoms(t) if not _waiter_need_atom(a, pol, fvar or "")]
            if not src_ok:
                bad = f"the iteration `{ast.unparse(loop.iter if isinstance(loop, (ast.For, ast.AsyncFor)) else g.iter)[:80]}` does not draw every element of a step's collected_waiters"
            elif extra:
                bad = f"waiters are also selected by {sorted(set(('' if p else 'not ') + a for a, p in extra))[:3]}: a restored waiter with missing requirements can be left without its replay"
            elif isinstance(loop, (ast.For, ast.AsyncFor)) and any(isinstance(b, ast.Break) for b in ast.walk(loop)):
                bad = "the iteration over the waiters can be cut short (`break`)"
        chk.ob(rule, "every restored waiter that lost its requirements gets its own replay tick carrying its own input event", not bad, m=mst, node=c, fn=rh, instance=instance, reason=bad)


def _waiter_need_atom(a: str, pol: bool, elem: str) -> bool:
    return (a == f"{elem}.has_requirements" and pol) or (a == f"{elem}.requirements" and not pol) or (a == f"len({elem}.requirements) == 0" and pol) or (a == f"len({elem}.requirements) > 0" and not pol)


def call_name_last(c: ast.Call) -> str:
    from ..astx import call_name, last
    return last(call_name(c) or "")


def enclosing_stmt_of(n: ast.AST) -> ast.AST:
    from ..astx import enclosing_stmt
    return enclosing_stmt(n)


_HEAP_OPS = {"heappush", "heappop", "heapify", "heapreplace", "heappushpop"}
_LIST_MUTATORS = {"pop", "append", "insert", "remove", "extend", "reverse", "__setitem__", "__delitem__"}


def heap_discipline(chk, rule: str) -> None:
    """The runner's pending wake-ups (retry delays, waiter timeouts, the workflow timeout) live in one list kept as a binary heap:
    `[0]` is the earliest only as long as *every* structural change goes through heapq. A plain `.pop(0)` / `.append` / `del x[i]`
    leaves a list whose first element is no longer the minimum: an earlier timer is buried behind a later one and served late or
    never. Decided as a who-may-mutate rule over all methods of the runner (local aliases of the field followed)."""
    from ..astx import call_name, expand, last

    repo = chk.repo
    mr, _ = repo.cls(RUNNER)
    methods = repo.methods(RUNNER)
    fields: set[str] = set()
    for fn in methods.values():
        for c in ast.walk(fn):
            if isinstance(c, ast.Call) and last(call_name(c) or "") == "heappush" and c.args:
                tgt = expand(c.args[0], c, depth=2)
                if isinstance(tgt, ast.Attribute) and isinstance(tgt.value, ast.Name) and tgt.value.id == "self":
                    fields.add(tgt.attr)
    chk.floor(rule, "runner fields kept as a heap (targets of heapq.heappush)", len(fields), 1)

    def heap_field(e: ast.AST, at: ast.AST) -> str | None:
        x = expand(e, at, depth=2) if isinstance(e, ast.Name) else e
        return x.attr if isinstance(x, ast.Attribute) and isinstance(x.value, ast.Name) and x.value.id == "self" and x.attr in fields else None

    heap_ops = n_bad = 0
    for name, fn in methods.items():
        for n in ast.walk(fn):
            bad = None
            if isinstance(n, ast.Call) and last(call_name(n) or "") in _HEAP_OPS and n.args and heap_field(n.args[0], n):
                heap_ops += 1
            elif isinstance(n, ast.Call) and isinstance(n.func, ast.Attribute) and n.func.attr in _LIST_MUTATORS and heap_field(n.func.value, n):
                bad = (n, f".{n.func.attr}(…)")
            elif isinstance(n, ast.Subscript) and isinstance(n.ctx, (ast.Store, ast.Del)) and heap_field(n.value, n):
                bad = (n, "item assignment / deletion")
            elif isinstance(n, ast.AugAssign) and heap_field(n.target, n):
                bad = (n, "augmented assignment")
            if bad is not None:
                n_bad += 1
                chk.ob(rule, "the wake-up heap is changed only through heapq (so its first entry is always the earliest pending wake-up)", False, m=mr, node=bad[0], fn=fn,
                       instance=f"heap:discipline:{name}", reason=f"`{ast.unparse(bad[0])[:70]}` ({bad[1]}) changes the heap list without restoring the heap order: "
                       f"after it `[0]` need not be the earliest wake-up, so a due retry delay / waiter timeout / workflow timeout is served late or never")
    chk.floor(rule, "structural changes of the runner's wake-up heap", heap_ops + n_bad, 2)
    st = methods.get("schedule_tick") or next(iter(methods.values()))
    chk.ob(rule, "every structural change of the wake-up heap goes through heapq", True, m=mr, node=st, fn=st, instance="heap:discipline")


def commands_fully_processed(chk, rule: str) -> None:
    """The runner executes *every* command a reducer hands back (`_reduce_tick` per tick, `rewind_in_progress` at resume) through
    `process_command`: publications (StepStateChanged, stream events), worker starts and schedules are all commands, and a loop
    that picks some kinds and drops the rest silently removes their effect for that path only (e.g. a resumed run whose restarted
    invocations never announce RUNNING). Decided per producer: the list is iterated, and no iteration can go on to the next
    element without `process_command(<element>)`."""
    from ..astx import call_name, expand, iteration_can_skip, last

    repo = chk.repo
    mr, _ = repo.cls(RUNNER)
    n_prod = 0
    for name, fn in repo.methods(RUNNER).items():
        for st in ast.walk(fn):
            if not isinstance(st, ast.Assign):
                continue
            val = expand(st.value, st, depth=2) if isinstance(st.value, ast.Name) else st.value      # the pair held in a local first
            if not isinstance(val, (ast.Call, ast.Await)):
                continue
            call = val.value if isinstance(val, ast.Await) else val
            if not (isinstance(call, ast.Call) and last(call_name(call) or "") in ("_reduce_tick", "rewind_in_progress")):
                continue
            tgt = st.targets[0]
            if not (isinstance(tgt, ast.Tuple) and len(tgt.elts) == 2 and isinstance(tgt.elts[1], ast.Name)):
                continue
            n_prod += 1
            cmds = tgt.elts[1].id
            producer = last(call_name(call))
            def _over(it: ast.AST) -> bool:      # the list itself, or an element-preserving wrapper of it
                while isinstance(it, ast.Call) and isinstance(it.func, ast.Name) and it.func.id in ("list", "tuple", "iter") and len(it.args) == 1:
                    it = it.args[0]
                return isinstance(it, ast.Name) and it.id == cmds
            loops = [lp for lp in ast.walk(fn) if isinstance(lp, (ast.For, ast.AsyncFor)) and _over(lp.iter) and isinstance(lp.target, ast.Name)]
            bad = ""
            if not loops:
                bad = f"the commands returned by {producer} are never iterated in {name}"
            cfg = CFG(fn)
            for lp in loops:
                must = [c for c in ast.walk(lp) if isinstance(c, ast.Call) and last(call_name(c) or "") == "process_command" and c.args and isinstance(c.args[0], ast.Name) and c.args[0].id == lp.target.id]
                if not must or iteration_can_skip(cfg, lp, must):
                    bad = bad or (f"an iteration over the commands of {producer} can go on without `process_command({lp.target.id})`: commands of some kind (publications such as "
                                  f"StepStateChanged(RUNNING), schedules, …) are dropped on this path only")
            chk.ob(rule, f"every command returned by {producer} is executed through process_command", not bad, m=mr, node=st, fn=fn, instance=f"commands-processed:{producer}", reason=bad)
    chk.floor(rule, "reducer results (state, commands) consumed by the runner", n_prod, 2)


def conversion_completeness(chk, rule: str) -> int:
    """Inside the reducer module, an execution's bookkeeping moves between two record kinds: a queued `EventAttempt` becomes an
    `InProgressState` when it starts, and an interrupted `InProgressState` becomes an `EventAttempt` again when a resumed run
    re-queues it. Every such conversion `K(f=x.f, …)` — at least two fields fed from the same-named attributes of one source
    object — must carry *every* field the two record classes share: a field left out falls back to its default exactly on that
    path (attempt count, first-attempt time, last failure, recovery counts restart for work that crosses it). Returns the
    number of conversions examined."""
    repo = chk.repo
    ms = repo.module(STATE)
    mc = repo.module(CL)

    def fields_of(cls: ast.ClassDef) -> list[str]:
        return [s_.target.id for s_ in cls.body if isinstance(s_, ast.AnnAssign) and isinstance(s_.target, ast.Name) and "ClassVar" not in ast.unparse(s_.annotation)]

    records = {n: fields_of(c) for n, c in ms.classes.items() if "." not in n and fields_of(c)}
    sites = 0
    for qn, fn in mc.functions.items():
        for c in ast.walk(fn):
            if not (isinstance(c, ast.Call) and isinstance(c.func, ast.Name) and c.func.id in records):
                continue
            from ..index import enclosing_function
            if enclosing_function(c) is not fn:
                continue
            kfields = records[c.func.id]
            fed: dict[str, set[str]] = {}
            for k in c.keywords:
                if k.arg is None:
                    continue
                for x in ast.walk(k.value):
                    if isinstance(x, ast.Attribute) and x.attr == k.arg and isinstance(x.value, ast.Name):
                        fed.setdefault(x.value.id, set()).add(k.arg)
            for src, names in fed.items():
                if len(names) < 2:
                    continue
                # the source's record kind: the other record class sharing most fields with what is fed
                cands = [(len(set(f) & set(kfields)), n) for n, f in records.items() if n != c.func.id and names <= set(f)]
                if not cands:
                    continue
                skind = max(cands)[1]
                shared = [f for f in kfields if f in records[skind]]
                passed = {k.arg for k in c.keywords if k.arg} | set(kfields[:len(c.args)])
                missing = [f for f in shared if f not in passed]
                sites += 1
                chk.ob(rule, f"{qn}: the conversion `{c.func.id}(…)` built from `{src}` ({skind}) carries every field the two records share", not missing, m=mc, node=c, fn=fn,
                       instance=f"carry-complete:{qn}:{c.func.id}",
                       reason=f"fields {missing} of the {skind} are not carried into the {c.func.id}: work that crosses this conversion (a run resumed while the step was executing, "
                              f"an event starting from the queue) restarts them at their defaults — e.g. a resumed retry measures its elapsed time from the resume, so stop_after_delay "
                              f"and the failure reports count from there")
    return sites


def replay_consumes_whole_log(chk, rule: str) -> None:
    """The replay functions fold `_reduce_tick` over the *whole* recorded log: the loop over the ticks is left only when the log
    is exhausted. A `break` / `return` out of it (e.g. "the run exits on this tick") truncates the history at the first
    exit-shaped command — and an idle release is one: the run is reloaded under the same id and keeps appending ticks, so
    everything accepted after it would be lost at the next resume."""
    from ..astx import call_name, last

    repo = chk.repo
    m = repo.module(CL)
    n = 0
    for ref in ("rebuild_state_from_ticks", "replay_ticks_stream"):
        fn = m.functions.get(ref)
        if fn is None:
            raise AnchorError(f"{rule}: {ref} not found")
        loops = [l for l in ast.walk(fn) if isinstance(l, (ast.For, ast.AsyncFor)) and any(isinstance(x, ast.Call) and last(call_name(x) or "") == "_reduce_tick" for x in ast.walk(l))]
        for lp in loops:
            n += 1
            # exits of *this* loop: a break not nested in an inner loop, or a return anywhere inside it
            def exits(node: ast.AST, inner: bool) -> list[ast.AST]:
                out: list[ast.AST] = []
                for ch in ast.iter_child_nodes(node):
                    if isinstance(ch, (ast.FunctionDef, ast.AsyncFunctionDef, ast.Lambda)):
                        continue
                    if isinstance(ch, ast.Return) or (isinstance(ch, ast.Break) and not inner):
                        out.append(ch)
                    out += exits(ch, inner or isinstance(ch, (ast.For, ast.AsyncFor, ast.While)))
                return out
            ex = [e for s_ in lp.body for e in ([s_] if isinstance(s_, (ast.Return, ast.Break)) else []) + exits(s_, isinstance(s_, (ast.For, ast.AsyncFor, ast.While)))]
            chk.ob(rule, f"{ref} replays every recorded tick (the loop over the log is left only when the log is exhausted)", not ex, m=m, node=ex[0] if ex else lp, fn=fn,
                   instance=f"replay:{ref}:whole-log",
                   reason=f"the replay loop can be left early (`{type(ex[0]).__name__.lower()}` at line {getattr(ex[0], 'lineno', '?')})" if ex else "")
    chk.floor(rule, "replay loops over the recorded log", n, 2)
