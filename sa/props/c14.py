"""C14 — pending retries and waiter timeouts survive idle release and restart.

Decided (inventory): (R1) every timer kind the runner keeps in its wake-up heap for step work
(a delayed TickAddEvent retry, a TickWaiterTimeout) needs a *rehydration source*: something
persisted (a serialized field or a logged tick) from which code on the resume path
(rehydrate_with_ticks / rewind_in_progress / the runner's start-up / the replay helpers) schedules
it again — a timer survives release or restart only if something persisted can re-create it;
(R2) the timers are created correctly in the first place: each scheduling command becomes a heap
entry for the right tick at now + the requested delay; the in-process idle release aborts the run
only under its idle marker and timeout test.
Also (R2) heap discipline: the runner's wake-up list (target of heapq.heappush) is changed only through heapq, so `[0]` is always the
earliest pending retry delay / waiter timeout; a buried entry is pending work the idle release does not see in time.
Not decided: that a re-created timer fires at the right instant.
"""

from __future__ import annotations

import ast

from ..astx import call_name, enclosing_stmt, expand, facts_at, has_fact, kwarg, last
from ..cfg import CFG
from ..index import AnchorError
from ..selftest import Twin
from ._engine import CL, CL_REL, RUNNER, STATE, branch_for, param

EXPLANATION = __doc__.split("\n\n", 1)[1]
TECHNIQUE = 'static analysis: timer-kind inventory vs persisted fields and resume-path scheduling; scheduling arithmetic; release guards'
TRUSTED = ["CPython ast", "heapq"]
IR = "llama_agents.server._runtime.idle_release_runtime"
IR_REL = "packages/llama-agents-server/src/llama_agents/server/_runtime/idle_release_runtime.py"
CT = "workflows.context.context_types"
TIMER_WORDS = ("delay", "deadline", "wake", "not_before", "scheduled_at", "due_at", "retry_at", "expires", "timeout_at")



def _timeout_elapsed(atom: str, pol: bool) -> bool:
    """Does this path fact say "at least idle_timeout has passed since the idle marker"?  By role, on the fact with locals
    expanded: a comparison between a time difference `now(...) - <…>.idle_since` (in seconds) and `<…>._idle_timeout`, of the
    polarity / direction that puts the difference at or above the timeout."""
    try:
        e = ast.parse(atom, mode="eval").body
    except SyntaxError:
        return False
    if not (isinstance(e, ast.Compare) and len(e.ops) == 1):
        return False
    l, r, op = ast.unparse(e.left), ast.unparse(e.comparators[0]), e.ops[0]

    def is_elapsed(t: str) -> bool:
        return "idle_since" in t and "now(" in t and "-" in t

    def is_timeout(t: str) -> bool:
        return t.endswith("_idle_timeout")
    if is_elapsed(l) and is_timeout(r):        # elapsed < timeout  must be false / elapsed >= timeout true
        return (isinstance(op, (ast.Lt, ast.LtE)) and not pol) or (isinstance(op, (ast.Gt, ast.GtE)) and pol)
    if is_timeout(l) and is_elapsed(r):        # timeout > elapsed  must be false / timeout <= elapsed true
        return (isinstance(op, (ast.Gt, ast.GtE)) and not pol) or (isinstance(op, (ast.Lt, ast.LtE)) and pol)
    return False

def run(chk) -> None:
    repo = chk.repo
    from ._engine import engine_view
    chk.extra["helpers_inlined"] = engine_view(repo)
    # pending retry delays and waiter timeouts live only in the wake-up heap: a buried entry is work the idle release does not wait for
    from ._engine import heap_discipline
    heap_discipline(chk, "C14.R2")
    m = repo.module(CL)
    methods = repo.methods(RUNNER)
    pc = methods["process_command"]
    cmd = param(pc, 1)

    # timer kinds: ticks handed to schedule_tick by the runner
    kinds: dict[str, ast.Call] = {}
    for name, fn in methods.items():
        for c in ast.walk(fn):
            if isinstance(c, ast.Call) and last(call_name(c)) == "schedule_tick" and c.args:
                t = expand(c.args[0], c, depth=1)
                if isinstance(t, ast.Call):
                    kinds[last(call_name(t))] = c
    chk.floor("C14.R1", "timer kinds kept in the wake-up heap", len(kinds), 3)
    chk.extra["timer_kinds"] = sorted(kinds)
    step_work = [k for k in kinds if k in ("TickAddEvent", "TickWaiterTimeout")]
    if len(step_work) < 2:
        raise AnchorError(f"C14.R1: expected delayed TickAddEvent and TickWaiterTimeout among the timer kinds, found {sorted(kinds)}")

    # rehydration sources: (a) a persisted field that can carry the deadline, (b) resume-path code that schedules from it
    mct = repo.module(CT)
    persisted_fields = {}
    for cname in ("SerializedEventAttempt", "SerializedWaiter", "SerializedStepWorkerState", "SerializedContext"):
        cls = mct.classes.get(cname)
        if cls is None:
            raise AnchorError(f"C14.R1: {cname} not found")
        persisted_fields[cname] = [s.target.id for s in cls.body if isinstance(s, ast.AnnAssign) and isinstance(s.target, ast.Name)]
    resume_fns = [m.functions.get("rewind_in_progress"), repo.module(STATE).functions.get("BrokerState.rehydrate_with_ticks"), methods.get("__init__"), m.functions.get("replay_ticks_stream"), m.functions.get("rebuild_state_from_ticks")]
    resume_fns = [f for f in resume_fns if f is not None]
    run_fn = methods["run"]
    # the part of run() before the main loop
    pre_loop = []
    for s in run_fn.body:
        if isinstance(s, ast.Try) and any(isinstance(x, ast.While) for x in ast.walk(s)):
            break
        pre_loop.append(s)

    def resume_schedules(kind: str) -> bool:
        emit = {"TickAddEvent": ("CommandQueueEvent",), "TickWaiterTimeout": ("CommandScheduleWaiterTimeout", "TickWaiterTimeout")}[kind]
        for f in resume_fns:
            for c in ast.walk(f):
                if isinstance(c, ast.Call) and last(call_name(c)) in emit:
                    if kind == "TickAddEvent" and kwarg(c, "delay") is None:
                        continue
                    return True
                if isinstance(c, ast.Call) and last(call_name(c)) == "schedule_tick":
                    return True
        for s in pre_loop:
            for c in ast.walk(s):
                if isinstance(c, ast.Call) and last(call_name(c)) == "schedule_tick" and c.args:
                    t = expand(c.args[0], c, depth=1)
                    if isinstance(t, ast.Call) and last(call_name(t)) == kind:
                        return True
        return False

    carriers = {"TickAddEvent": "SerializedEventAttempt", "TickWaiterTimeout": "SerializedWaiter"}
    for kind in sorted(step_work):
        fields = persisted_fields[carriers[kind]]
        has_field = [f for f in fields if any(w in f for w in TIMER_WORDS)]
        sched = resume_schedules(kind)
        what = "a retry waiting out its delay" if kind == "TickAddEvent" else "a wait_for_event timeout that has not fired yet"
        chk.ob("C14.R1", f"{what} ({kind} in the wake-up heap) can be re-created after release/restart: a persisted deadline and resume-path code that schedules from it", bool(has_field) and sched,
               m=m, node=kinds[kind], fn=pc if kind != "TickTimeout" else run_fn, instance=f"timer-rehydration:{kind}",
               reason=f"{carriers[kind]} has no deadline/delay field ({fields}) and nothing on the resume path (rewind_in_progress, rehydrate_with_ticks, runner start-up, replay helpers) re-schedules it: after an idle release or restart the timer is gone — the step is never retried / the waiter never times out and the run stays running")

    # ---------------------------------------------------------------- R2 timers are created correctly
    cfg = CFG(pc)
    br = branch_for(pc, cmd, "CommandScheduleWaiterTimeout")
    scs = [c for s in br.body for c in ast.walk(s) if isinstance(c, ast.Call) and last(call_name(c)) == "schedule_tick"]
    chk.floor("C14.R2", "waiter-timeout scheduling sites", len(scs), 1)
    for c in scs:
        t = expand(c.args[0], c, depth=1)
        ok = isinstance(t, ast.Call) and last(call_name(t)) == "TickWaiterTimeout" and ast.unparse(kwarg(t, "step_name")) == f"{cmd}.step_name" and ast.unparse(kwarg(t, "waiter_id")) == f"{cmd}.waiter_id"
        chk.ob("C14.R2", "a waiter timeout is scheduled as TickWaiterTimeout for the same step and waiter id", ok, m=m, node=c, fn=pc, instance="waiter-timeout:tick", reason=ast.unparse(t)[:100])
        at = kwarg(c, "at_time", 1)
        e = expand(at, c, depth=0) if at is not None else None
        ok = isinstance(e, ast.BinOp) and isinstance(e.op, ast.Add) and f"{cmd}.timeout" in (ast.unparse(e.left), ast.unparse(e.right))
        chk.ob("C14.R2", "the waiter timeout fires at now + the requested timeout", ok, m=m, node=c, fn=pc, instance="waiter-timeout:at_time", reason=f"at_time={ast.unparse(at) if at is not None else None}")
        nows = [s for s in br.body if isinstance(s, ast.Assign) and "get_now" in ast.unparse(s.value)]
        chk.ob("C14.R2", "`now` comes from the adapter clock", bool(nows), m=m, node=c, fn=pc, instance="waiter-timeout:clock", reason="no adapter.get_now() in the branch")
    bad = cfg.must_pass(cfg.nodes_of(br.body[0]), [cfg.exit], [n for c in scs for n in cfg.node_of_containing(c)], labels_excluded=("exc", "cancel"))
    chk.ob("C14.R2", "every CommandScheduleWaiterTimeout becomes a heap entry", not bad and bool(scs), m=m, node=br, fn=pc, instance="waiter-timeout:always", reason="a path through the branch schedules nothing")
    # the reducer side: delayed retries carry the policy's delay (see C06.R2), timeouts are requested with the waiter's timeout (see C10.R3)

    _marker_retraction(chk, repo)
    # in-process release: abort only under the idle marker + timeout test, under the reload lock
    mi, rel = repo.func(f"{IR}:IdleReleaseDecorator._release_idle_handler")
    cfr = CFG(rel)
    aborts = [c for c in ast.walk(rel) if isinstance(c, ast.Call) and last(call_name(c)) == "_abort_inner_run"]
    chk.floor("C14.R2", "abort sites in _release_idle_handler", len(aborts), 1)
    for c in aborts:
        for n in cfr.nodes_of(enclosing_stmt(c)):
            f = facts_at(cfr, n, expand_locals=True)
            ok1 = any("idle_since is None" in a and p is False for a, p in f) or any("idle_since" in a and "None" in a and not p for a, p in f)
            ok2 = any(_timeout_elapsed(a, pol) for a, pol in f)
            ok3 = has_fact(f, "run_id not in self._active_run_ids", False) or has_fact(f, "run_id in self._active_run_ids")
            chk.ob("C14.R2", "the in-process release aborts a run only when it is marked idle", ok1, m=mi, node=c, fn=rel, instance="release:idle-marker", reason=f"guards {sorted(f)[:6]}")
            chk.ob("C14.R2", "… and only after idle_timeout has elapsed since the marker", ok2, m=mi, node=c, fn=rel, instance="release:timeout-elapsed", reason=f"guards {sorted(f)[:6]}")
            chk.ob("C14.R2", "… and only when the run is still active in this process", ok3, m=mi, node=c, fn=rel, instance="release:active", reason=f"guards {sorted(f)[:6]}")
        locked = any(isinstance(w, ast.AsyncWith) and "_reload_lock" in ast.unparse(w.items[0].context_expr) and any(x is c for x in ast.walk(w)) for w in ast.walk(rel))
        chk.ob("C14.R2", "the release decision and abort happen under the per-run reload lock", locked, m=mi, node=c, fn=rel, instance="release:locked", reason="abort outside `async with self._reload_lock(run_id)`")


def _marker_retraction(chk, repo) -> None:
    """R2: after the idle announcement, *whatever* tick the run processes next retracts the idle marker before the release
    timer can act on it: a waiter timeout or a delayed retry wakes the run through a timer tick, not through an external
    event, and the step it wakes must not be released from under it."""
    mi, cls = repo.cls(f"{IR}:_IdleReleaseInternalRunAdapter")
    ot = next((n for n in cls.body if isinstance(n, (ast.FunctionDef, ast.AsyncFunctionDef)) and n.name == "on_tick"), None)
    if ot is None:
        raise AnchorError("C14.R2: _IdleReleaseInternalRunAdapter.on_tick not found")
    cfo = CFG(ot)
    tickp = param(ot, 1)
    clears = [c for c in ast.walk(ot) if isinstance(c, ast.Call) and last(call_name(c)) == "update_handler_status" and kwarg(c, "idle_since") is not None
              and isinstance(kwarg(c, "idle_since"), ast.Constant) and kwarg(c, "idle_since").value is None]
    chk.floor("C14.R2", "retractions of the idle marker in on_tick", len(clears), 1)
    for c in clears:
        for n in cfo.nodes_of(enclosing_stmt(c)):
            f = facts_at(cfo, n, expand_locals=True)
            on_tick_kind = sorted(a for a, _p in f if tickp in [x.id for x in ast.walk(ast.parse(a, mode="eval")) if isinstance(x, ast.Name)]) if f else []
            chk.ob("C14.R2", "every tick processed after the idle announcement retracts the idle marker (timer ticks included)", not on_tick_kind, m=mi, node=c, fn=ot, instance="marker:retracted-by-any-tick",
                   reason=f"the retraction depends on the kind of tick ({on_tick_kind}): a waiter timeout or a delayed retry wakes the run through a timer tick, idle_since stays set, and the release timer aborts the step that is handling it")


TWINS = [
    Twin("benign: elapsed time and marker held in differently named locals, comparison reversed", "packages/llama-agents-server/src/llama_agents/server/_runtime/idle_release_runtime.py",
         "            elapsed = (\n                datetime.now(timezone.utc) - handlers[0].idle_since\n            ).total_seconds()\n            if elapsed < self._idle_timeout:\n                return\n",
         "            marked_at = handlers[0].idle_since\n            idle_for = datetime.now(timezone.utc) - marked_at\n            if self._idle_timeout > idle_for.total_seconds():\n                return\n", None),
    Twin("release as soon as the marker is set (timeout test inverted)", "packages/llama-agents-server/src/llama_agents/server/_runtime/idle_release_runtime.py",
         "            if elapsed < self._idle_timeout:\n                return\n", "            if elapsed > self._idle_timeout:\n                return\n", "C14.R2"),
    Twin("due wake-up taken with list.pop(0) instead of heapq.heappop", CL_REL, "heapq.heappop(self.scheduled_wakeups)", "self.scheduled_wakeups.pop(0)", "C14.R2"),
    Twin("first wake-up deleted by index", CL_REL, "            _, _, tick = heapq.heappop(self.scheduled_wakeups)\n", "            _, _, tick = self.scheduled_wakeups[0]\n            del self.scheduled_wakeups[0]\n", "C14.R2"),
    Twin("benign: heap popped through a local alias", CL_REL, "            _, _, tick = heapq.heappop(self.scheduled_wakeups)\n", "            _heap = self.scheduled_wakeups\n            _, _, tick = heapq.heappop(_heap)\n", None),
    Twin("marker retracted only by add-event ticks", IR_REL, "        if self._marked_idle:\n", "        if self._marked_idle and type(tick).__name__ == \"TickAddEvent\":\n", "C14.R2"),
    Twin("benign: marker flag read into a local", IR_REL, "        if self._marked_idle:\n", "        was_idle = self._marked_idle\n        if was_idle:\n", None),
    Twin("waiter timeout for wrong waiter", CL_REL, "                    step_name=command.step_name, waiter_id=command.waiter_id\n                ),\n                at_time=now + command.timeout,", "                    step_name=command.step_name, waiter_id=\"\"\n                ),\n                at_time=now + command.timeout,", "C14.R2"),
    Twin("waiter timeout immediate", CL_REL, "                at_time=now + command.timeout,", "                at_time=now,", "C14.R2"),
    Twin("release without timeout test", IR_REL, "            if elapsed < self._idle_timeout:\n                return\n", "", "C14.R2"),
    Twin("release ignores idle marker", IR_REL, "            if len(handlers) != 1 or handlers[0].idle_since is None:\n                return", "            if len(handlers) != 1:\n                return", "C14.R2"),
    Twin("release outside lock", IR_REL, "        async with self._reload_lock(run_id):\n            handlers = await self._store.query(HandlerQuery(run_id_in=[run_id]))\n            if len(handlers) != 1 or handlers[0].idle_since is None:", "        if True:\n            handlers = await self._store.query(HandlerQuery(run_id_in=[run_id]))\n            if len(handlers) != 1 or handlers[0].idle_since is None:", "C14.R2"),
    Twin("benign: timeout test reversed", IR_REL, "            if elapsed < self._idle_timeout:\n                return\n", "            if self._idle_timeout > elapsed:\n                return\n", None),
    Twin("benign: at_time commuted", CL_REL, "                at_time=now + command.timeout,", "                at_time=command.timeout + now,", None),
]
