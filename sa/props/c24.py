"""C24 — handler stores answer queries consistently and retain the newest completions.

Decided (static; nothing from /repo is imported or executed): the ASTs of the two store classes
(`MemoryWorkflowStore`, `SqliteWorkflowStore`: `__init__`, `update`, `query`, `delete`,
`_build_filters`, `_evict_oldest_completed`, inherited `update_handler_status`, and the module
function `_matches_query`) are interpreted by the framework's AST interpreter (extended in
c28.py) over small finite domains; the SQLite store runs against a model connection whose
schema is what the repo's own migrations produce and whose WHERE clauses are evaluated with SQL
three-valued logic.  The oracle is the statement itself, written once in `spec_match`.

R1 also decides that the filters of a query are a *conjunction under every list length* (`_ladder_queries`, instances
`list-length+other`): a list filter of 1..4 values combined with each value of each other filter must select exactly what
the statement selects, for `query` and for `delete`.  Necessary: "matching every given filter" has no exception for short
lists, so a filter builder that answers from one filter alone for some length (single-id fast path returning before the
other `HandlerQuery` fields are consulted) returns / deletes handlers the other filters exclude.  The only early exit the
statement allows is "an empty list matches nothing".  Decided by evaluation, not by the shape of the returns.
"""

from __future__ import annotations

import ast
import copy
import itertools
from typing import Any, Callable

from ..absint import Raised, Record, Unsupported
from ..index import AnchorError, FuncNode
from ..selftest import Twin
from .c28 import IN_BLOCKS_OLD, IN_TABLE_ROWS, FakeConn, FakeDT, MiniDB, ModelObject, Runner, SqlUnsupported, World, _bind_migrations, model_unsupported, event_insert_as_constant, in_blocks_table_driven

EXPLANATION = (
    "All rules interpret the AST of the store classes over finite domains (no repo code runs). The oracle `spec` is the statement: a handler "
    "matches a query iff for every list filter `<f>_in` that is not None the list is non-empty and contains the handler's `<f>`, and `is_idle` (if "
    "not None) equals `idle_since is not None`; the fields are enumerated from the `HandlerQuery` dataclass (an unknown field kind is exit 2). "
    "R1: for a population of 8 handlers and every query in the product {None, [], [values]}^4 x {None, True, False} plus single-filter queries with further value lists, `query` of each store "
    "returns exactly the handlers `spec` selects; the filters are a conjunction whatever the length of a list: the same is demanded for every query that combines a list filter of 1, 2, 3 or 4 values "
    "with each value (empty list, containing / not containing the handler's value, True/False) of each single other filter (instances `list-length+other`; 270 queries per store) — a builder that answers "
    "from one filter alone for some list length (e.g. a single-id 'primary key' lookup that returns before the other HandlerQuery fields are consulted) drops filters the statement requires, "
    "and the only permitted early exit is 'matches nothing'; for every such query with at least one filter `delete` returns their number and removes "
    "exactly them; for every sequence of at most 2 (thorough: 3) operations from {upsert, status update, delete by id, delete by status} both stores end "
    "with the handler set of a reference dictionary model (hence identical to each other). Behaviour of `delete` with no filter at all is only "
    "compared and reported as an observation. "
    "R2: for max_completed in {0,1,2} and every sequence (length <= 3 quick, <= 4 thorough) of upserts (3 ids x running/completed), status "
    "updates and deletes (plus, at cap 2, all length-4 histories over {A completed, B completed, B re-opened, B deleted, C completed}: a stale entry behind a live one), after each upsert at least min(max_completed, #terminal handlers) terminal handlers are retained (no eviction while "
    "the number of completed handlers is within the cap; repeated terminal upserts of one handler count once). "
    "R3: in the same sequences no non-terminal handler is ever removed by an upsert, nothing but the upserted handler appears, and the retained "
    "terminal handlers include every handler that is among the newest `max_completed` under both readings of 'most recently completed' (first "
    "and last terminal upsert), i.e. eviction is oldest-first; with max_completed=None nothing is evicted. "
    "R4 (stretch): `update_handler_status` on both stores changes exactly the requested fields (+updated_at, +completed_at for a terminal "
    "status) for every combination of status/error/idle_since in {unset, None, value}. "
    "Not decided: SQL engine semantics beyond the modelled subset (type affinity, collation), pydantic validation of PersistentHandler, "
    "concurrent callers, the Postgres / agent-data stores, eviction of events/ticks/state of evicted runs."
)
TRUSTED = [
    "CPython ast",
    "SQLite semantics as modelled by sqlmini (c28.py): IN/IS NULL/AND/OR with NULL, upsert ON CONFLICT DO UPDATE, rowcount",
    "pydantic stores/returns PersistentHandler fields unchanged (validators not modelled)",
]
LEVEL_TEXT = "bounded exhaustive model check by AST interpretation (finite query domain; operation sequences up to a stated length)"
LEVEL_NOTE = "a pass means the decided clauses hold on the enumerated domain; longer sequences, other value shapes (a special case for a list of 5+ values combined with another filter, or one that needs three filters to show) and SQL engine details are not covered"
TECHNIQUE = "abstract interpretation of the store ASTs against a reference dictionary model; SQL WHERE clauses evaluated by a mini SQL engine"

ABS = "llama_agents.server._store.abstract_workflow_store"
MEM = "llama_agents.server._store.memory_workflow_store"
SQL = "llama_agents.server._store.sqlite.sqlite_workflow_store"
MEM_CLS = f"{MEM}:MemoryWorkflowStore"
SQL_CLS = f"{SQL}:SqliteWorkflowStore"
T0 = FakeDT("T0")
STATUSES = ["running", "completed", "failed", "cancelled"]
TERMINAL = {"completed", "failed", "cancelled"}


# ---------------------------------------------------------------------------- model harness


class Cfg:
    """Which classes play the two store roles (the planted fixture swaps in its own memory store)."""

    def __init__(self, mem_cls: str = MEM_CLS, sql_cls: str | None = SQL_CLS):
        self.mem_cls, self.sql_cls = mem_cls, sql_cls
        self.kinds = ("memory", "sqlite") if sql_cls else ("memory",)

    def cls(self, kind: str) -> str:
        return self.mem_cls if kind == "memory" else self.sql_cls  # type: ignore[return-value]


class Harness:
    def __init__(self, repo: Any, cfg: Cfg | None = None):
        self.repo = repo
        self.cfg = cfg or Cfg()
        w0 = World(repo)
        _pkg, ms = _bind_migrations(repo, w0)
        self.w = Runner(repo).world(ms.entries, "sorted")
        self.w.max_steps = 60_000_000
        self.dbs: dict[str, MiniDB] = {}
        self.w.ext_calls["sqlite3.connect"] = lambda path, *a, **k: FakeConn(self.dbs.setdefault(path, MiniDB()))
        self._n = 0
        self.fields = self._query_fields()
        _, ph = repo.cls(f"{ABS}:PersistentHandler")
        self.handler_fields = [n.target.id for n in ph.body if isinstance(n, ast.AnnAssign) and isinstance(n.target, ast.Name)]
        for f, kind, attr in self.fields:
            if attr not in self.handler_fields:
                raise AnchorError(f"C24: HandlerQuery.{f} has no PersistentHandler field `{attr}` to be compared with")

    def _query_fields(self) -> list[tuple[str, str, str]]:
        _, hq = self.repo.cls(f"{ABS}:HandlerQuery")
        out = []
        for n in hq.body:
            if isinstance(n, ast.AnnAssign) and isinstance(n.target, ast.Name):
                f = n.target.id
                ann = ast.unparse(n.annotation)
                if f.endswith("_in") and "list" in ann:
                    out.append((f, "in", f[: -len("_in")]))
                elif f == "is_idle" and "bool" in ann:
                    out.append((f, "idle", "idle_since"))
                else:
                    raise AnchorError(f"C24: HandlerQuery has a field `{f}: {ann}` whose meaning this rule does not know; extend the oracle")
        if len(out) < 5:
            raise AnchorError(f"C24: HandlerQuery has {len(out)} filter fields, below the hand-confirmed 5")
        return out

    # ---- objects
    def handler(self, **kw: Any) -> Record:
        return self.w.new(f"{ABS}:PersistentHandler", **kw)

    def query(self, **kw: Any) -> Record:
        return self.w.new(f"{ABS}:HandlerQuery", **kw)

    def store(self, kind: str, max_completed: Any = None) -> "StoreModel":
        if kind == "memory":
            return StoreModel(self, kind, self.w.new(self.cfg.mem_cls, max_completed=max_completed), None)
        self._n += 1
        path = f"model-{self._n}.db"
        rec = self.w.new(self.cfg.sql_cls, path)
        return StoreModel(self, kind, rec, path)


class StoreModel:
    def __init__(self, h: Harness, kind: str, rec: Record, path: str | None):
        self.h, self.kind, self.rec, self.path = h, kind, rec, path

    def call(self, name: str, *a: Any, **k: Any) -> Any:
        return self.h.w.call_method(self.rec, name, *a, **k)

    def fork(self) -> "StoreModel":
        if self.kind == "memory":
            return StoreModel(self.h, self.kind, copy.deepcopy(self.rec), None)
        self.h._n += 1
        path = f"model-{self.h._n}.db"
        db = MiniDB()
        db.restore(self.h.dbs[self.path].snapshot())
        self.h.dbs[path] = db
        rec = copy.copy(self.rec)
        rec.__dict__ = dict(self.rec.__dict__)
        rec.__dict__["db_path"] = path
        if "db_path" not in self.rec.__dict__:
            raise AnchorError("C24: SqliteWorkflowStore no longer keeps `db_path`; the model cannot fork its database")
        return StoreModel(self.h, self.kind, rec, path)

    def listing(self) -> dict[str, tuple]:
        """All handlers through the public API (a query with one filter that every handler satisfies)."""
        res = self.call("query", self.h.query(status_in=list(STATUSES)))
        return {r.handler_id: (r.status, r.workflow_name, r.run_id, r.idle_since is not None) for r in res}


def spec_match(fields: list[tuple[str, str, str]], h: dict, q: dict) -> bool:
    for f, kind, attr in fields:
        v = q.get(f)
        if v is None:
            continue
        if kind == "in":
            if len(v) == 0 or h[attr] not in v:
                return False
        else:
            if bool(v) != (h[attr] is not None):
                return False
    return True


POPULATION = [
    dict(handler_id="h1", workflow_name="w1", status="running", run_id="r1", idle_since=None),
    dict(handler_id="h2", workflow_name="w1", status="completed", run_id="r2", idle_since=None),
    dict(handler_id="h3", workflow_name="w2", status="running", run_id="r3", idle_since=T0),
    dict(handler_id="h4", workflow_name="w2", status="failed", run_id=None, idle_since=None),
    dict(handler_id="h5", workflow_name="w1", status="running", run_id=None, idle_since=T0),
    dict(handler_id="h6", workflow_name="w3", status="cancelled", run_id="r6", idle_since=T0),
    dict(handler_id="h7", workflow_name="w2", status="completed", run_id="r7", idle_since=None),
    dict(handler_id="h8", workflow_name="w1", status="running", run_id="r8", idle_since=None),
]
# per list filter: values used in the full product, and extra values used when the filter stands alone
VALUES = {
    "handler_id": ([None, [], ["h1", "h2", "h3", "h5", "h7", "zz"]], [["h1"], ["zz"], ["h8", "h8"]]),
    "run_id": ([None, [], ["r1", "r2", "r3", "zz"]], [["r2"], ["zz"], ["r7", "r6"]]),
    "workflow_name": ([None, [], ["w1", "w9"]], [["w2"], ["w9"], ["w3", "w2"]]),
    "status": ([None, [], ["running", "completed"]], [["running"], ["failed", "cancelled"], ["completed"]]),
}


def _guard(rule: str, what: str, f: Callable[[], Any]) -> Any:
    try:
        return f()
    except SqlUnsupported as e:
        raise AnchorError(f"{rule}: {what}: SQL outside the model's subset: {e}")
    except Unsupported as e:
        raise model_unsupported(rule, what, e)


def _queries(h: Harness) -> list[dict]:
    doms = []
    singles: list[dict] = []
    for f, kind, attr in h.fields:
        if kind == "in":
            if attr not in VALUES:
                raise AnchorError(f"C24.R1: no value domain for HandlerQuery.{f}")
            doms.append([(f, v) for v in VALUES[attr][0]])
            singles += [{f: v} for v in VALUES[attr][1]]
        else:
            doms.append([(f, v) for v in (None, True, False)])
    return [dict(c) for c in itertools.product(*doms)] + [{**{f: None for f, _k, _a in h.fields}, **s} for s in singles]


LADDER_SLOT = "list-length+other"
LADDER_LENGTHS = (1, 2, 3, 4)
LADDER_FLOOR = 270  # hand-confirmed on /repo: 4 list filters x 4 lengths x 20 other-filter values, 50 duplicates removed


def _ladder_queries(h: Harness) -> list[dict]:
    """Conjunction under every list length: for each list filter `f` a list of 1, 2, 3 and 4 values (values that handlers of the
    population have; padded with an absent one when the population has fewer) combined with exactly one other filter `g`, `g` ranging
    over every non-None value of its domain (the empty list, lists that contain / do not contain the handler's value, True/False).
    A builder that treats `f` specially for some list length (a "primary key" fast path for one id, an `=` for one value, ...) must
    still apply `g`; the product domain of `_queries` only has one list length per filter."""
    present: dict[str, list] = {}
    for f, kind, attr in h.fields:
        if kind == "in":
            vals: list = []
            for p in POPULATION:
                if p[attr] is not None and p[attr] not in vals:
                    vals.append(p[attr])
            present[f] = vals + ["zz"] * max(0, max(LADDER_LENGTHS) - len(vals))
    others: dict[str, list] = {}
    for g, kind, attr in h.fields:
        others[g] = [v for v in VALUES[attr][0] + VALUES[attr][1] if v is not None] if kind == "in" else [True, False]
    none = {f: None for f, _k, _a in h.fields}
    out: list[dict] = []
    seen: set[str] = set()
    for f in present:
        for n in LADDER_LENGTHS:
            for g, gvals in others.items():
                if g == f:
                    continue
                for gv in gvals:
                    q = {**none, f: present[f][:n], g: gv}
                    key = repr(sorted(q.items(), key=lambda kv: kv[0]))
                    if key not in seen:
                        seen.add(key)
                        out.append(q)
    return out


def _slot(q: dict) -> str:
    used = [f for f, v in q.items() if v is not None]
    if not used:
        return "no-filter"
    return used[0] if len(used) == 1 else "combination"


# ---------------------------------------------------------------------------- R1


def rule_r1(chk: Any, h: Harness, fixture: bool = False, ladder: bool = True) -> None:
    repo = chk.repo
    queries = _queries(h)
    if fixture:  # the planted store only has to trip the rule: single-filter queries are enough
        queries = [q for q in queries if sum(v is not None for v in q.values()) == 1]
    ladder_qs = _ladder_queries(h) if ladder else []
    slot_of = {id(q): LADDER_SLOT for q in ladder_qs}
    queries = queries + ladder_qs
    anchors = {k: (repo.cls(h.cfg.cls(k))[0], repo.methods(h.cfg.cls(k))) for k in h.cfg.kinds}
    for kind in h.cfg.kinds:
        for need in ("query", "delete", "update"):
            if need not in anchors[kind][1]:
                raise AnchorError(f"C24.R1: {kind} store has no `{need}` method")
    nolist: dict[str, Any] = {}
    total = 0
    broken: set[str] = set()
    for kind in h.cfg.kinds:
        m, meths = anchors[kind]
        base = h.store(kind)
        try:
            for p in POPULATION:
                _guard("C24.R1", f"{kind} update", lambda: base.call("update", h.handler(**p)))
            ok_up, why_up = True, ""
        except Raised as r:
            ok_up, why_up = False, f"update of a well-formed handler raised {r}"
        chk.ob("C24.R1", f"{kind} store: `update` stores every handler of the 8-handler population", ok_up, m=m, node=meths["update"], fn=meths["update"],
               instance=f"{kind}:update-accepts", reason=why_up)
        if not ok_up:
            broken.add(kind)
            continue
        bad_q: dict[str, str] = {}
        bad_d: dict[str, str] = {}
        seen_slots: set[str] = set()
        for q in queries:
            slot = slot_of.get(id(q)) or _slot(q)
            seen_slots.add(slot)
            want = sorted(p["handler_id"] for p in POPULATION if spec_match(h.fields, p, q))
            qrec = h.query(**q)
            try:
                got = _guard("C24.R1", f"{kind} query", lambda: sorted(r.handler_id for r in base.call("query", qrec)))
            except Raised as r:
                got = [f"raised {r}"]
            total += 1
            if slot == "no-filter":
                nolist[kind] = {"query": len(got)}
            elif got != want and slot not in bad_q:
                bad_q[slot] = f"query({_fmt(q)}) returned {got}, the statement selects {want}"
            f = base.fork()
            try:
                n = f.call("delete", h.query(**q))
                left = sorted(f.listing())
            except Raised as r:
                n, left = f"raised {r}", []
            except SqlUnsupported as e:
                raise AnchorError(f"C24.R1: {kind} delete: SQL outside the model's subset: {e}")
            except Unsupported as e:
                raise model_unsupported("C24.R1", f"{kind} delete", e)
            total += 1
            keep = sorted(p["handler_id"] for p in POPULATION if p["handler_id"] not in want)
            if slot == "no-filter":
                nolist[kind]["delete"] = n
            elif (n != len(want) or left != keep) and slot not in bad_d:
                bad_d[slot] = f"delete({_fmt(q)}) returned {n} and left {left}; the statement removes exactly {want} (count {len(want)})"
        for slot in sorted(seen_slots - {"no-filter"}):
            what = slot
            if slot == LADDER_SLOT:
                what = (f"{slot}: the filters are a conjunction whatever the length of a list — a list filter of {', '.join(map(str, LADDER_LENGTHS))} values combined with each value "
                        f"of each other filter, {len(ladder_qs)} queries; a fast path for some list length must not drop the other filters or their 'empty list matches nothing'")
            chk.ob("C24.R1", f"{kind} store: `query` returns exactly the handlers matching every given filter ({what}; all {len(queries)} queries of the domain x 8 handlers)",
                   slot not in bad_q, m=m, node=meths["query"], fn=meths["query"], instance=f"{kind}:query:{slot}", reason=bad_q.get(slot, ""))
            chk.ob("C24.R1", f"{kind} store: `delete` with at least one filter removes exactly the matching handlers and returns their number ({slot})",
                   slot not in bad_d, m=m, node=meths["delete"], fn=meths["delete"], instance=f"{kind}:delete:{slot}", reason=bad_d.get(slot, ""))
    chk.floor("C24.R1", "query/delete evaluations against the oracle (2 stores)", total, len(h.cfg.kinds) * 2 * (250 + (LADDER_FLOOR if ladder else 0)) if not (broken or fixture) else 0)
    if ladder:
        chk.floor("C24.R1", "queries combining a list filter of 1..4 values with one other filter (per store, query and delete each)", len(ladder_qs), LADDER_FLOOR)
    chk.floor("C24.R1", "HandlerQuery filter fields enumerated from the dataclass", len(h.fields), 5)
    if not broken and len(h.cfg.kinds) == 2 and nolist.get("memory") != nolist.get("sqlite"):
        chk.observe(f"filter-less HandlerQuery(): memory store {nolist.get('memory')} vs SQLite store {nolist.get('sqlite')} over 8 handlers — `delete(HandlerQuery())` "
                    "removes everything in memory and nothing in SQLite. The statement only covers deletes with at least one filter, so this is not an obligation "
                    "(dynamic repro: triage/t_more.py::c24del).")
    if not fixture:
        rule_r1_sequences(chk, h, anchors)


def _fmt(q: dict) -> str:
    return ", ".join(f"{k}={v}" for k, v in q.items() if v is not None) or "<no filter>"


def _ops_r1(h: Harness) -> list[tuple[str, Callable[[StoreModel], Any], Callable[[dict], None]]]:
    def up(i: str, status: str, idle: Any) -> tuple:
        def run(s: StoreModel) -> Any:
            return s.call("update", h.handler(handler_id=i, workflow_name="w", status=status, run_id="r" + i, idle_since=idle))

        def ref(d: dict) -> None:
            d[i] = (status, "w", "r" + i, idle is not None)

        return (f"upsert({i},{status}{',idle' if idle else ''})", run, ref)

    def st(i: str, **kw: Any) -> tuple:
        def run(s: StoreModel) -> Any:
            return s.call("update_handler_status", "r" + i, **kw)

        def ref(d: dict) -> None:
            if i in d:
                s0, wn, r, idle = d[i]
                d[i] = (kw.get("status") or s0, wn, r, (kw["idle_since"] is not None) if "idle_since" in kw else idle)

        return (f"status(r{i},{_fmt(kw)})", run, ref)

    def de(label: str, pred: Callable[[str, tuple], bool], **q: Any) -> tuple:
        def run(s: StoreModel) -> Any:
            return s.call("delete", h.query(**q))

        def ref(d: dict) -> None:
            for k in [k for k, v in d.items() if pred(k, v)]:
                del d[k]

        return (label, run, ref)

    return [
        up("A", "running", None), up("A", "completed", None), up("B", "running", T0), up("B", "failed", None),
        st("A", status="completed"), st("A", idle_since=T0), st("B", idle_since=None),
        de("delete(id=[A])", lambda k, v: k == "A", handler_id_in=["A"]),
        de("delete(status=[completed])", lambda k, v: v[0] == "completed", status_in=["completed"]),
    ]


def rule_r1_sequences(chk: Any, h: Harness, anchors: dict) -> None:
    ops = _ops_r1(h)
    depth = 3 if chk.tier == "thorough" else 2
    n = 0
    anybad = False
    for kind in h.cfg.kinds:
        m, meths = anchors[kind]
        bad = ""

        def rec(s: StoreModel, d: dict, trail: list[str], level: int) -> None:
            nonlocal bad, n
            if level == depth:
                return
            for label, run, ref in ops:
                s2, d2 = s.fork(), dict(d)
                n += 1
                try:
                    run(s2)
                    ref(d2)
                    got = s2.listing()
                except Raised as r:
                    bad = bad or f"{' ; '.join(trail + [label])} raised {r}"
                    continue
                if got != d2:
                    bad = bad or f"after {' ; '.join(trail + [label])} the store holds {got}, a dictionary model holds {d2}"
                    continue  # the subtree below a wrong state says nothing more
                rec(s2, d2, trail + [label], level + 1)

        _guard("C24.R1", f"{kind} operation sequences", lambda: rec(h.store(kind), {}, [], 0))
        chk.ob("C24.R1", f"{kind} store: after every sequence of <= {depth} upserts / status updates / deletes the handlers visible to `query` equal a reference dictionary model (so both stores agree)",
               not bad, m=m, node=meths["update"], fn=meths["update"], instance=f"{kind}:sequences", reason=bad)
        anybad = anybad or bool(bad)
    chk.floor("C24.R1", "operation-sequence states compared with the reference model", n, len(h.cfg.kinds) * 90 if not anybad else 0)


# ---------------------------------------------------------------------------- R2 / R3


def _evict_ops(ids: list[str], ndel: int) -> list[tuple[str, str, str, Any]]:
    ops: list[tuple[str, str, str, Any]] = []
    for i in ids:
        ops.append((f"upsert({i},running)", "up", i, "running"))
        ops.append((f"upsert({i},completed)", "up", i, "completed"))
    for i in ids[:ndel]:
        ops.append((f"delete(id=[{i}])", "del", i, None))
    ops.append((f"status(r{ids[0]},completed)", "st", ids[0], {"status": "completed"}))
    ops.append((f"status(r{ids[0]},idle_since=None)", "st", ids[0], {"idle_since": None}))
    return ops


def rule_r2_r3(chk: Any, h: Harness, depth: int, fixture: bool = False) -> None:
    repo = chk.repo
    m = repo.cls(h.cfg.mem_cls)[0]
    meths = repo.methods(h.cfg.mem_cls)
    upd = meths["update"]
    fails: dict[str, str] = {}
    states = 0

    def apply(s: StoreModel, op: tuple) -> None:
        _label, kind, i, arg = op
        if kind == "up":
            s.call("update", h.handler(handler_id=i, workflow_name="w", status=arg, run_id="r" + i))
        elif kind == "del":
            s.call("delete", h.query(handler_id_in=[i]))
        else:
            s.call("update_handler_status", "r" + i, **arg)

    def cls_of(feats: frozenset) -> str:
        return "plain" if not feats else (next(iter(feats)) if len(feats) == 1 else "mixed")

    def explore(cap: Any, ops: list, depth: int, s: StoreModel, pre: dict, track: dict, trail: list[str], level: int, feats: frozenset = frozenset()) -> None:
        nonlocal states
        if level == depth:
            return
        for op in ops:
            label, kind, i, arg = op
            s2 = s.fork()
            try:
                apply(s2, op)
                post = {k: v[0] for k, v in s2.listing().items()}
            except Raised as r:
                fails.setdefault("raises", f"max_completed={cap}: {' ; '.join(trail + [label])} raised {r}")
                continue
            states += 1
            t = len(trail)
            tr = {k: v for k, v in track.items()}
            hist = f"max_completed={cap}: {' ; '.join(trail + [label])}"
            f2 = feats
            if kind == "del":
                want = {k: v for k, v in pre.items() if k != i}
                if post != want:
                    fails.setdefault("delete-exact", f"{hist}: store holds {post}, expected {want}")
                tr.pop(i, None)
                if pre.get(i) in TERMINAL:
                    f2 = feats | {"delete"}
            else:
                if kind == "up":
                    status = arg
                elif i in pre:
                    status = arg.get("status") or pre[i]
                else:
                    status = None  # status update of an unknown run: no-op
                cand = dict(pre)
                if status is not None:
                    if pre.get(i) in TERMINAL:
                        f2 = feats | ({"repeat"} if status in TERMINAL else {"reopen"})
                    cand[i] = status
                    if status in TERMINAL:
                        first = tr[i][0] if (i in tr and pre.get(i) in TERMINAL) else t
                        tr[i] = (first, t)
                    else:
                        tr.pop(i, None)
                term = [k for k, v in cand.items() if v in TERMINAL]
                nonterm = [k for k, v in cand.items() if v not in TERMINAL]
                extra = [k for k in post if k not in cand or post[k] != cand[k]]
                if extra:
                    fails.setdefault("no-foreign-change", f"{hist}: handlers {extra} appeared or changed status (store {post}, expected subset of {cand})")
                lost = [k for k in nonterm if k not in post]
                if lost:
                    fails.setdefault("non-terminal-kept", f"{hist}: non-terminal handler(s) {lost} were removed (store now {post})")
                kept_t = [k for k in term if k in post]
                if cap is None:
                    if len(kept_t) != len(term):
                        fails.setdefault("uncapped", f"{hist}: max_completed=None but {sorted(set(term) - set(kept_t))} were evicted")
                else:
                    need = min(cap, len(term))
                    if len(kept_t) < need:
                        fails.setdefault("retention-count:" + cls_of(f2), f"{hist}: {len(term)} completed handler(s) {sorted(term)} with cap {cap}, but only {sorted(kept_t)} retained "
                                                            f"(evicted {sorted(set(term) - set(kept_t))} although the cap was not exceeded by distinct handlers)")
                    elif need and all(k in tr for k in term):
                        by_first = sorted(term, key=lambda k: tr[k][0], reverse=True)[:need]
                        by_last = sorted(term, key=lambda k: tr[k][1], reverse=True)[:need]
                        must = set(by_first) & set(by_last)
                        if not must <= set(kept_t):
                            fails.setdefault("oldest-first", f"{hist}: retained {sorted(kept_t)} but {sorted(must - set(kept_t))} is among the {need} most recently completed under either reading")
                for k in list(tr):
                    if k not in post:
                        tr.pop(k)
            explore(cap, ops, depth, s2, post, tr, trail + [label], level + 1, f2)

    # cap 1 needs two ids, cap 2 three (ordering among three completions); caps 0 / None are degenerate and get shorter sequences
    plans = [(1, _evict_ops(["A", "B"], 1), depth), (2, _evict_ops(["A", "B", "C"], 1), depth), (0, _evict_ops(["A", "B"], 1), min(depth, 2)), (None, _evict_ops(["A", "B"], 1), min(depth, 2))]
    if depth > 3:
        plans[0] = (1, _evict_ops(["A", "B", "C"], 2), depth)
        plans[1] = (2, _evict_ops(["A", "B", "C"], 2), depth)
    else:
        # targeted length-4 histories: a stale queue entry *behind* a live one (completed, then re-opened or deleted, then another completion)
        a, b, c_ = "A", "B", "C"
        stale = [(f"upsert({a},completed)", "up", a, "completed"), (f"upsert({b},completed)", "up", b, "completed"), (f"upsert({b},running)", "up", b, "running"),
                 (f"delete(id=[{b}])", "del", b, None), (f"upsert({c_},completed)", "up", c_, "completed")]
        plans.append((2, stale, 4))
    if fixture:
        plans = plans[:2]
    for cap, ops, d in plans:
        _guard("C24.R2", "memory store eviction sequences", lambda: explore(cap, ops, d, h.store("memory", cap), {}, {}, [], 0))
    chk.floor("C24.R2", "store states checked after an operation (max_completed in {0,1,2,None})", states, 900 if "raises" not in fails and not fixture else 0)
    evict = meths.get("_evict_oldest_completed", upd)
    shapes = {
        "plain": "histories in which no handler is upserted again after completing and no completed handler is deleted",
        "repeat": "histories with a repeated terminal upsert / status update of an already completed handler",
        "reopen": "histories in which a completed handler is upserted non-terminal again",
        "delete": "histories in which a completed handler is deleted",
        "mixed": "histories combining repeated upserts, re-opening and deletes",
    }
    for shape, text in shapes.items():
        key = "retention-count:" + shape
        chk.ob("C24.R2", f"memory store retains min(max_completed, #completed) completed handlers after every upsert — {text} (all sequences of <= {depth} operations, caps 0..2)",
               key not in fails, m=m, node=upd, fn=upd, instance=key, reason=fails.get(key, ""))
    chk.ob("C24.R3", "an upsert never removes a non-terminal handler", "non-terminal-kept" not in fails, m=m, node=evict, fn=evict, instance="non-terminal-kept", reason=fails.get("non-terminal-kept", ""))
    chk.ob("C24.R3", "eviction is oldest-first: the newest max_completed completions (under both readings of 'most recent') stay", "oldest-first" not in fails,
           m=m, node=evict, fn=evict, instance="oldest-first", reason=fails.get("oldest-first", ""))
    chk.ob("C24.R3", "max_completed=None evicts nothing", "uncapped" not in fails, m=m, node=evict, fn=evict, instance="uncapped", reason=fails.get("uncapped", ""))
    chk.ob("C24.R3", "an upsert/status update changes no other handler; delete by id removes exactly that handler; no operation raises",
           not ({"no-foreign-change", "delete-exact", "raises"} & set(fails)), m=m, node=upd, fn=upd, instance="no-foreign-change",
           reason=fails.get("no-foreign-change") or fails.get("delete-exact") or fails.get("raises", ""))


# ---------------------------------------------------------------------------- R4


def rule_r4(chk: Any, h: Harness) -> None:
    repo = chk.repo
    found = repo.find_method(h.cfg.mem_cls, "update_handler_status")
    if found is None:
        raise AnchorError("C24.R4: `update_handler_status` not found on the store classes")
    _ref, m, fn = found
    UN = object()
    n = 0
    anybad = False
    for kind in h.cfg.kinds:
        bad = ""
        empty = h.store(kind)
        for init_status, init_idle, init_err in (("running", T0, "old"), ("completed", None, None)):
            base = empty.fork()
            try:
                base.call("update", h.handler(handler_id="A", workflow_name="w", status=init_status, run_id="rA", idle_since=init_idle, error=init_err, started_at=FakeDT("S")))
                base.call("update", h.handler(handler_id="B", workflow_name="w", status="running", run_id="rB"))
            except Raised as r:
                bad = bad or f"{kind}: update raised {r}"
                continue
            for status in (None, "running", "completed", "failed", "cancelled"):
                for error in (None, "boom"):
                    for idle in (UN, None, T0):
                        s = base.fork()
                        kw: dict = {}
                        if status is not None:
                            kw["status"] = status
                        if error is not None:
                            kw["error"] = error
                        if idle is not UN:
                            kw["idle_since"] = idle
                        try:
                            s.call("update_handler_status", "rA", **kw)
                            res = {r.handler_id: r for r in s.call("query", h.query(handler_id_in=["A", "B"]))}
                        except Raised as r:
                            bad = bad or f"{kind}: update_handler_status({_fmt(kw)}) raised {r}"
                            continue
                        n += 1
                        a = res.get("A")
                        want = dict(handler_id="A", workflow_name="w", run_id="rA", started_at=FakeDT("S"), status=status or init_status,
                                    error=error if error is not None else init_err, idle_since=init_idle if idle is UN else idle)
                        if a is None or "B" not in res:
                            bad = bad or f"{kind}: update_handler_status({_fmt(kw)}) lost a handler (visible: {sorted(res)})"
                            continue
                        diff = {k: (getattr(a, k), v) for k, v in want.items() if getattr(a, k) != v}
                        if status in TERMINAL and a.completed_at is None:
                            diff["completed_at"] = (None, "set")
                        if a.updated_at is None:
                            diff["updated_at"] = (None, "set")
                        if diff and not bad:
                            bad = f"{kind}: update_handler_status({_fmt(kw) or 'nothing'}) on status={init_status}, idle={init_idle}, error={init_err}: (got, expected) {diff}"
        anybad = anybad or bool(bad)
        chk.ob("C24.R4", f"{kind} store: `update_handler_status` changes exactly the requested fields (status/error/idle_since in unset/None/value; 60 combinations)",
               not bad, m=m, node=fn, fn=fn, instance=f"{kind}:status-update-fields", reason=bad)
    chk.floor("C24.R4", "status-update combinations evaluated", n, 60 * len(h.cfg.kinds) if not anybad else 0)


# ---------------------------------------------------------------------------- run


def run(chk: Any) -> None:
    repo = chk.repo
    for ref in (f"{MEM}:_matches_query",):
        mod, fn = repo.func(ref)
        chk.note_fn(mod, fn)
    for cls, names in ((MEM_CLS, ("query", "update", "delete", "_evict_oldest_completed")), (SQL_CLS, ("query", "update", "delete", "_build_filters"))):
        mod, _c = repo.cls(cls)
        meths = repo.methods(cls)
        for nme in names:
            if nme in meths:
                chk.note_fn(mod, meths[nme])
    h = _guard("C24", "store construction", lambda: Harness(repo))
    rule_r1(chk, h)
    rule_r2_r3(chk, h, 4 if chk.tier == "thorough" else 3)
    rule_r4(chk, h)
    chk.exhaustive = True
    chk.extra["interpreter_steps"] = h.w.steps
    planted_fixture(chk)


FIXTURE = "fixtures/c24/planted_store.py"
FIXTURE_MOD = "verif_fixture_c24.planted_store"
FIXTURE_FAST = "fixtures/c24/planted_fast_path.py"
FIXTURE_FAST_MOD = "verif_fixture_c24.planted_fast_path"
FIXTURE_FAST_NEED = {f"memory:query:{LADDER_SLOT}", f"memory:delete:{LADDER_SLOT}"}
FIXTURE_NEED = {"C24.R1": "memory:query:is_idle", "C24.R3": "non-terminal-kept", "C24.R3 ": "oldest-first", "C24.R4": "memory:status-update-fields"}


def planted_fixture(chk: Any) -> None:
    """R1/R3/R4 expect no finding on the repository: a planted store with known defects is analysed on every run and must be reported."""
    from ..index import Module, _set_parents
    from ..report import VERIF, Check

    path = VERIF / FIXTURE
    if not path.is_file():
        raise AnchorError(f"C24: fixture {path} is missing")
    src = path.read_text()
    tree = ast.parse(src, filename=str(path))
    _set_parents(tree)
    repo = chk.repo.with_overlay({})
    fm = Module(FIXTURE_MOD, path, f"verif-fixture/{FIXTURE}", src, tree)
    repo._collect(fm)
    repo.modules[FIXTURE_MOD] = fm
    repo.by_rel[fm.rel] = fm
    scratch = Check("C24", repo, "quick", 0, quiet=True, write=False)
    h = _guard("C24", "planted fixture", lambda: Harness(repo, Cfg(f"{FIXTURE_MOD}:PlantedStore", None)))
    rule_r1(scratch, h, fixture=True, ladder=False)
    rule_r2_r3(scratch, h, 3, fixture=True)
    rule_r4(scratch, h)
    got = {(o.rule, o.key.rsplit("|", 1)[-1]) for o in scratch.violations()}
    missing = [(r.strip(), i) for r, i in FIXTURE_NEED.items() if (r.strip(), i) not in got]
    if missing:
        raise AnchorError(f"C24: planted defects not reported on {FIXTURE}: {missing}; the rules are blind")
    chk.floor("C24.R1", "planted fixture defects reported (R1 is_idle, R3 non-terminal eviction, R3 newest-first eviction, R4 idle_since=None)", len(FIXTURE_NEED), 4)
    # the conjunction ladder: a store whose only defect is a fast path for one list length must be reported by the ladder instances and by nothing else
    path2 = VERIF / FIXTURE_FAST
    if not path2.is_file():
        raise AnchorError(f"C24: fixture {path2} is missing")
    src2 = path2.read_text()
    tree2 = ast.parse(src2, filename=str(path2))
    _set_parents(tree2)
    repo2 = chk.repo.with_overlay({})
    fm2 = Module(FIXTURE_FAST_MOD, path2, f"verif-fixture/{FIXTURE_FAST}", src2, tree2)
    repo2._collect(fm2)
    repo2.modules[FIXTURE_FAST_MOD] = fm2
    repo2.by_rel[fm2.rel] = fm2
    scratch2 = Check("C24", repo2, "quick", 0, quiet=True, write=False)
    h2 = _guard("C24", "planted fast-path fixture", lambda: Harness(repo2, Cfg(f"{FIXTURE_FAST_MOD}:PlantedFastPathStore", None)))
    rule_r1(scratch2, h2, fixture=True, ladder=True)
    got2 = {o.key.rsplit("|", 1)[-1] for o in scratch2.violations() if o.rule == "C24.R1"}
    if got2 != FIXTURE_FAST_NEED:
        raise AnchorError(f"C24: on {FIXTURE_FAST} (only defect: a list of three values answers alone) R1 reported {sorted(got2)}, expected exactly {sorted(FIXTURE_FAST_NEED)}; "
                          "the conjunction ladder is blind or imprecise")
    chk.floor("C24.R1", "planted fast-path store reported by the list-length ladder only (query and delete)", len(got2), 2)


_PM = "packages/llama-agents-server/src/llama_agents/server/_store/memory_workflow_store.py"
_PS = "packages/llama-agents-server/src/llama_agents/server/_store/sqlite/sqlite_workflow_store.py"
_PA = "packages/llama-agents-server/src/llama_agents/server/_store/abstract_workflow_store.py"

TWINS: list[Twin] = [
    # ---- R1: sqlite filters driven by a module-level table, the query fields read with getattr()
    Twin("benign: sqlite `_connect` returns early after yielding the persistent connection; event INSERT text in a module-level constant", _PS, *event_insert_as_constant(), None),
    Twin("benign: sqlite IN filters driven by a module-level (column, attribute) table read with getattr", _PS, IN_BLOCKS_OLD, in_blocks_table_driven(), None),
    Twin("benign: getattr with a default on a field that exists", _PS, IN_BLOCKS_OLD, in_blocks_table_driven(read="getattr(query, attr_name, None)"), None),
    Twin("sqlite table-driven: run_id values matched against the handler_id column", _PS, IN_BLOCKS_OLD,
         in_blocks_table_driven(IN_TABLE_ROWS.replace('("run_id", "run_id_in")', '("handler_id", "run_id_in")')), "C24.R1"),
    Twin("sqlite table-driven: a row of the table lost (status filter ignored)", _PS, IN_BLOCKS_OLD,
         in_blocks_table_driven(IN_TABLE_ROWS.replace(', ("status", "status_in")', "")), "C24.R1"),
    Twin("sqlite table-driven: misspelt attribute hidden by a getattr default (status filter ignored)", _PS, IN_BLOCKS_OLD,
         in_blocks_table_driven(IN_TABLE_ROWS.replace('"status_in"', '"statuses_in"'), read="getattr(query, attr_name, None)"), "C24.R1"),
    # ---- R1 breaking
    Twin("memory: is_idle=False ignored", _PM, "if query.is_idle != handler_is_idle:", "if query.is_idle and not handler_is_idle:", "C24.R1"),
    Twin("sqlite: is_idle tested by truthiness (False means no filter)", _PS, "        if query.is_idle is not None:\n            if query.is_idle:", "        if query.is_idle:\n            if query.is_idle:", "C24.R1"),
    Twin("sqlite: idle clauses swapped", _PS, 'clauses.append("idle_since IS NOT NULL")\n            else:\n                clauses.append("idle_since IS NULL")', 'clauses.append("idle_since IS NULL")\n            else:\n                clauses.append("idle_since IS NOT NULL")', "C24.R1"),
    Twin("sqlite: delete joins its filters with OR while query uses AND", _PS, "sql = f\"DELETE FROM handlers WHERE {' AND '.join(clauses)}\"", "sql = f\"DELETE FROM handlers WHERE {' OR '.join(clauses)}\"", "C24.R1"),
    Twin("sqlite: run_id filter applied to the handler_id column", _PS, 'add_in_clause("run_id", query.run_id_in)', 'add_in_clause("handler_id", query.run_id_in)', "C24.R1"),
    Twin("sqlite: upsert forgets the newest column", _PS, "completed_at = excluded.completed_at,\n                    idle_since = excluded.idle_since", "completed_at = excluded.completed_at", "C24.R1"),
    Twin("memory: status filter compares the workflow name", _PM, "if handler.status not in query.status_in:", "if handler.workflow_name not in query.status_in:", "C24.R1"),
    Twin("memory: empty handler_id list treated as no filter", _PM, "        if len(query.handler_id_in) == 0:\n            return False\n        if handler.handler_id not in query.handler_id_in:", "        if query.handler_id_in and handler.handler_id not in query.handler_id_in:", "C24.R1"),
    Twin("sqlite: empty status list treated as no filter", _PS, "            if len(query.status_in) == 0:\n                return None\n            add_in_clause(\"status\", query.status_in)", "            if len(query.status_in) > 0:\n                add_in_clause(\"status\", query.status_in)", "C24.R1"),
    Twin("memory: delete keeps what it should remove and removes the rest", _PM, "            for handler_id, handler in list(self.handlers.items())\n            if _matches_query(handler, query)", "            for handler_id, handler in list(self.handlers.items())\n            if not _matches_query(handler, query)", "C24.R1"),
    # ---- R1 conjunction ladder (seed S133): a fast path for one list length must not drop the other filters
    Twin("sqlite: a single id returns `handler_id = ?` alone (workflow clause collected so far and every later filter dropped; query and delete)", _PS,
         '            add_in_clause("handler_id", query.handler_id_in)\n',
         '            if len(query.handler_id_in) == 1:\n                return ["handler_id = ?"], list(query.handler_id_in)\n            add_in_clause("handler_id", query.handler_id_in)\n', "C24.R1"),
    Twin("sqlite: a single status returns early with the clauses collected so far (only is_idle is dropped)", _PS,
         '            add_in_clause("status", query.status_in)\n',
         '            if len(query.status_in) == 1:\n                return clauses + ["status = ?"], params + list(query.status_in)\n            add_in_clause("status", query.status_in)\n', "C24.R1"),
    Twin("sqlite: three run ids answer alone (length not in the product domain)", _PS,
         '            add_in_clause("run_id", query.run_id_in)\n',
         '            if len(query.run_id_in) == 3:\n                return ["run_id IN (?,?,?)"], list(query.run_id_in)\n            add_in_clause("run_id", query.run_id_in)\n', "C24.R1"),
    Twin("memory: a single id is answered by identity before the other filters are looked at", _PM,
         "        if handler.handler_id not in query.handler_id_in:\n            return False\n",
         "        if len(query.handler_id_in) == 1:\n            return handler.handler_id == query.handler_id_in[0]\n        if handler.handler_id not in query.handler_id_in:\n            return False\n", "C24.R1"),
    Twin("benign: a single id compared with `=` instead of IN, still one clause of the conjunction", _PS,
         '            add_in_clause("handler_id", query.handler_id_in)\n',
         '            if len(query.handler_id_in) == 1:\n                clauses.append("handler_id = ?")\n                params.append(query.handler_id_in[0])\n            else:\n                add_in_clause("handler_id", query.handler_id_in)\n', None),
    Twin("benign: memory single id compared by equality, falls through to the other filters", _PM,
         "        if handler.handler_id not in query.handler_id_in:\n            return False\n",
         "        if len(query.handler_id_in) == 1:\n            if handler.handler_id != query.handler_id_in[0]:\n                return False\n        elif handler.handler_id not in query.handler_id_in:\n            return False\n", None),
    Twin("benign: early return only for 'matches nothing' — all empty-list tests hoisted in front of the clause building", _PS,
         "        if query.workflow_name_in is not None:\n            if len(query.workflow_name_in) == 0:\n                return None\n",
         "        for given in (query.workflow_name_in, query.handler_id_in, query.run_id_in, query.status_in):\n            if given is not None and len(given) == 0:\n                return None\n        if query.workflow_name_in is not None:\n", None),
    # ---- R2 breaking (new shapes: the unchanged tree already fails repeat / reopen / delete)
    Twin("cap comparison off by one", _PM, "while len(self._terminal_queue) > self.max_completed:", "while len(self._terminal_queue) >= self.max_completed:", "C24.R2"),
    Twin("every upsert is queued as a completion", _PM, "        if is_terminal_status(handler.status):\n            self._terminal_queue[handler.handler_id] = None\n            self._evict_oldest_completed()", "        self._terminal_queue[handler.handler_id] = None\n        self._evict_oldest_completed()", "C24.R2"),
    Twin("pre-fix shape: a re-opened handler keeps its queue entry", _PM, "        self._terminal_queue.pop(handler.handler_id, None)\n        if is_terminal_status(handler.status):", "        if is_terminal_status(handler.status):", "C24.R2"),
    Twin("pre-fix shape: delete leaves the queue entry behind", _PM, "            del self.handlers[handler_id]\n            self._terminal_queue.pop(handler_id, None)", "            del self.handlers[handler_id]", "C24.R2"),
    Twin("pre-fix shape: queue entry only dropped when the new status is terminal", _PM, "        self._terminal_queue.pop(handler.handler_id, None)\n        if is_terminal_status(handler.status):", "        if is_terminal_status(handler.status):\n            self._terminal_queue.pop(handler.handler_id, None)", "C24.R2"),
    Twin("cap applied to all handlers", _PM, "while len(self._terminal_queue) > self.max_completed:", "while len(self.handlers) > self.max_completed and self._terminal_queue:", "C24.R2"),
    # ---- R3 breaking
    Twin("newest completion evicted first", _PM, "handler_id = next(iter(self._terminal_queue))", "handler_id = next(reversed(self._terminal_queue))", "C24.R3"),
    Twin("victim chosen by id, not by completion order", _PM, "handler_id = next(iter(self._terminal_queue))", "handler_id = min(self._terminal_queue)", "C24.R3"),
    Twin("benign: defensive non-terminal guard removed (the queue now holds terminal handlers only)", _PM, "            if not is_terminal_status(handler.status):\n", "            if False:\n", None),
    Twin("uncapped store compares with None", _PM, "        if self.max_completed is None:\n            return\n", "", "C24.R3"),
    # ---- R4 breaking
    Twin("idle_since=None indistinguishable from 'not given'", _PA, "        if not isinstance(idle_since, _Unset):\n            handler.idle_since = idle_since", "        if not isinstance(idle_since, _Unset) and idle_since is not None:\n            handler.idle_since = idle_since", "C24.R4"),
    Twin("status update clears the error", _PA, "        if error is not None:\n            handler.error = error", "        handler.error = error", "C24.R4"),
    # ---- benign
    Twin("benign: memory empty-list test is implied by the membership test", _PM, "        if len(query.status_in) == 0:\n            return False\n", "", None),
    Twin("benign: sqlite `IN ()` already matches nothing", _PS, "            if len(query.status_in) == 0:\n                return None\n", "", None),
    Twin("benign: truthiness instead of len()", _PM, "if len(query.handler_id_in) == 0:", "if not query.handler_id_in:", None),
    Twin("benign: idle test folded into one condition", _PM, "    if query.is_idle is not None:\n        handler_is_idle = handler.idle_since is not None\n        if query.is_idle != handler_is_idle:\n            return False", "    if query.is_idle is not None and query.is_idle != (handler.idle_since is not None):\n        return False", None),
    Twin("benign: placeholders built by a generator", _PS, 'placeholders = ",".join(["?"] * len(values))', 'placeholders = ", ".join("?" for _ in values)', None),
    Twin("benign: NOT ... IS NULL", _PS, 'clauses.append("idle_since IS NOT NULL")', 'clauses.append("NOT idle_since IS NULL")', None),
    Twin("benign: delete without the defensive list() copy", _PM, "for handler_id, handler in list(self.handlers.items())", "for handler_id, handler in self.handlers.items()", None),
    Twin("benign: reversed cap comparison", _PM, "while len(self._terminal_queue) > self.max_completed:", "while self.max_completed < len(self._terminal_queue):", None),
    Twin("benign: del instead of pop", _PM, "            self.handlers.pop(handler_id, None)\n            run_id = handler.run_id", "            del self.handlers[handler_id]\n            run_id = handler.run_id", None),
    Twin("benign: guards merged", _PM, "            if handler is None:\n                # Already removed (e.g. via delete()), skip.\n                continue\n            if not is_terminal_status(handler.status):", "            if handler is None or not is_terminal_status(handler.status):", None),
    Twin("benign: terminal statuses tested through the helper", _PA, 'if status in ("completed", "failed", "cancelled"):', "if status is not None and is_terminal_status(status):", None),
    Twin("benign: status update reads the handler by position", _PA, "        handler = found[0]\n", "        handler = found[-1] if len(found) == 1 else found[0]\n", None),
]
