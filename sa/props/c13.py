"""C13 — a server restart at any persisted point resumes without losing work.

Decided: (R1) volatile-work inventory for crash points: a work-carrying command whose payload
lives only in runner memory between two persisted ticks (the CommandQueueEvent a persisted
TickStepResult reduces to sits in tick_buffer until it is reduced and logged itself) must be
re-derived by the replay path — replay_ticks_stream may not discard that command class; (R2)
write-ahead: the persistence adapter awaits store.append_tick with the dumped tick on every normal
path of on_tick, after forwarding, and (C11.R2) before any command of the tick runs; the server
start-up resume selects running, non-idle handlers; (R3) handler_status_from_exit_command,
evaluated from its AST on the five kinds of exit command, maps them to completed / failed /
cancelled / not-final, and covers every member of the ExitCommand union; every resume path that
can meet a terminated log consults the exit command before workflow.run.
Also (R2) pagination: each durable store's stream_ticks is evaluated from its AST on a model table of 0 … 3·page+2 rows (a small
model of the one SQL / search shape the stores use, see _paging.py); the yielded sequences must be exactly 1..N in order.
Not decided: equality of results; store write failures (swallowed with a log line — observation).
"""

from __future__ import annotations

import ast

from ..absint import Interp, Raised, Record, Unsupported
from ..astx import call_name, enclosing_stmt, facts_at, kwarg, last
from ..cfg import CFG, exprs_in_node
from ..index import AnchorError, enclosing_function, qualname_of
from ..selftest import Twin, multi
from ._engine import CL, CL_REL, RUNNER, branch_for, param, union_members

EXPLANATION = __doc__.split("\n\n", 1)[1]
TECHNIQUE = 'static analysis: volatile-work inventory vs replay path, write-ahead must-pass, finite AST evaluation of the exit-command mapping, resume callers consult exit command'
TRUSTED = ["CPython ast", "the store returns ticks in append order"]
PR = "llama_agents.server._runtime.persistence_runtime"
PR_REL = "packages/llama-agents-server/src/llama_agents/server/_runtime/persistence_runtime.py"


def run(chk) -> None:
    repo = chk.repo
    from ._engine import engine_view
    chk.extra["helpers_inlined"] = engine_view(repo)
    # the replay at resume folds the whole recorded log (an idle release is exit-shaped but not an end)
    from ._engine import replay_consumes_whole_log
    replay_consumes_whole_log(chk, "C13.R1")
    m = repo.module(CL)
    mp = repo.module(PR)

    # ---------------------------------------------------------------- R1 derived work must be re-derivable on replay
    _, pc = repo.func(f"{RUNNER}.process_command")
    cmd = param(pc, 1)
    qbr = branch_for(pc, cmd, "CommandQueueEvent")
    volatile = [c for s in qbr.body for c in ast.walk(s) if isinstance(c, ast.Call) and (call_name(c) or "").startswith("self.tick_buffer.")]
    persisted_in_branch = [c for s in qbr.body for c in ast.walk(s) if isinstance(c, ast.Call) and any(k in (call_name(c) or "") for k in ("append_tick", "on_tick", "persist"))]
    chk.floor("C13.R1", "volatile hand-offs of a queued event in process_command", len(volatile), 1)
    _, rp = repo.func(f"{CL}:replay_ticks_stream")
    handled = set()
    for n in ast.walk(rp):
        if isinstance(n, ast.Call) and call_name(n) == "isinstance" and len(n.args) == 2:
            t = n.args[1]
            for e in t.elts if isinstance(t, ast.Tuple) else [t]:
                handled.add(ast.unparse(e).split(".")[-1])
    rederives = "CommandQueueEvent" in handled or any(isinstance(c, ast.Call) and last(call_name(c)) in ("process_command", "_derive_ticks", "derived_ticks") for c in ast.walk(rp))
    ok = rederives or bool(persisted_in_branch)
    chk.ob("C13.R1", "events derived from a persisted tick (CommandQueueEvent) survive a crash before they are reduced: replay re-derives them or they are persisted with their cause",
           ok, m=m, node=rp, fn=rp, instance="replay-rederives:CommandQueueEvent",
           reason="process_command keeps the derived TickAddEvent only in tick_buffer; replay_ticks_stream keeps exit commands only and discards CommandQueueEvent, so a stop right after a persisted TickStepResult loses the step's output events and the resumed run stays idle-running forever")
    # replay keeps the *last* exit command
    exits_kept = {"CommandCompleteRun", "CommandFailWorkflow", "CommandHalt"} <= handled
    chk.ob("C13.R1", "replay surfaces every kind of exit command", exits_kept, m=m, node=rp, fn=rp, instance="replay-keeps:exit-commands", reason=f"replay inspects only {sorted(handled)}")

    # the exit command replay reports is exactly the last exit command the reducer emitted: nothing else may reset or filter it
    cr = CFG(rp)
    ec_assigns = [n for n in cr.nodes if isinstance(n.ast, (ast.Assign, ast.AnnAssign)) and any(isinstance(t, ast.Name) and t.id == "exit_command" for t in ast.walk(n.ast) if isinstance(t, ast.Name) and isinstance(t.ctx, ast.Store))]
    loops_rp = [l for l in ast.walk(rp) if isinstance(l, (ast.AsyncFor, ast.For)) and any(isinstance(x, ast.Call) and last(call_name(x)) == "_reduce_tick" for x in ast.walk(l))]
    chk.floor("C13.R3", "assignments to exit_command in replay_ticks_stream", len(ec_assigns), 2)
    for n in ec_assigns:
        val = n.ast.value
        inside = any(n.ast is x for l in loops_rp for x in ast.walk(l))
        if not inside:
            ok = val is None or (isinstance(val, ast.Constant) and val.value is None)
            before = all(n not in cr.reach([h], include_starts=False) for l in loops_rp for h in cr.nodes_of(l))
            chk.ob("C13.R3", "outside the replay loop exit_command is only initialised (to None, before the loop)", bool(ok and before), m=m, node=n.ast, fn=rp, instance="replay-exit:init-only",
                   reason="exit_command is (re)assigned after or around the replay loop: a terminated log can be reported as not terminated (or vice versa) and the restart re-runs a finished run")
        else:
            f = facts_at(cr, n, expand_locals=False)
            from_cmd = isinstance(val, ast.Name)
            only_cls = [a for a, pol in f if pol and a.startswith("isinstance(") and all(k in a for k in ("CommandCompleteRun", "CommandFailWorkflow", "CommandHalt"))]
            extra = [a for a, pol in f if not (a.startswith("isinstance(") and "Command" in a)]
            chk.ob("C13.R3", "inside the loop exit_command takes every exit-indicating command and nothing else (last one wins)", from_cmd and bool(only_cls) and not extra, m=m, node=n.ast, fn=rp,
                   instance="replay-exit:last-wins", reason=f"assignment guarded by {sorted(f)}")
    rr = [c for c in ast.walk(rp) if isinstance(c, ast.Call) and last(call_name(c)) == "ReplayResult"]
    ok = bool(rr) and all(kwarg(c, "exit_command") is not None and ast.unparse(kwarg(c, "exit_command")) == "exit_command" and kwarg(c, "state") is not None for c in rr)
    chk.ob("C13.R3", "replay returns the collected exit command unchanged together with the rebuilt state", ok, m=m, node=rr[0] if rr else rp, fn=rp, instance="replay-exit:returned", reason="ReplayResult does not carry exit_command=exit_command")

    # ---------------------------------------------------------------- R2 write-ahead
    _, ot = repo.func(f"{PR}:_PersistenceInternalRunAdapter.on_tick")
    cfg = CFG(ot)
    tickp = param(ot, 1)
    apps = [n for n in cfg.nodes if n.ast is not None and any(isinstance(x, ast.Await) and isinstance(x.value, ast.Call) and (call_name(x.value) or "").endswith("append_tick") for x in exprs_in_node(n))]
    anycalls = [n for n in cfg.nodes if n.ast is not None and any(isinstance(x, ast.Call) and (call_name(x) or "").endswith("append_tick") for x in exprs_in_node(n))]
    chk.floor("C13.R2", "append_tick calls in the persistence adapter", len(anycalls), 1)
    for n in anycalls:
        chk.ob("C13.R2", "store.append_tick is awaited (the tick is durable before on_tick returns)", n in apps, m=mp, node=n.ast, fn=ot, instance="write-ahead:awaited", reason="append_tick is started but not awaited: commands of the tick can run before the tick is durable")
    bad = cfg.must_pass([cfg.entry], [cfg.exit], apps, labels_excluded=("exc", "cancel"))
    chk.ob("C13.R2", "on_tick awaits store.append_tick on every normal path", not bad, m=mp, node=ot, fn=ot, instance="write-ahead:always", reason="on_tick can return without appending the tick")
    for n in apps:
        c = next(x.value for x in exprs_in_node(n) if isinstance(x, ast.Await) and isinstance(x.value, ast.Call) and (call_name(x.value) or "").endswith("append_tick"))
        from ..astx import expand
        data = expand(c.args[1], c, depth=1) if len(c.args) > 1 else None
        ok = ast.unparse(c.args[0]) == "self.run_id" and data is not None and "dump" in ast.unparse(data) and tickp in ast.unparse(data)
        chk.ob("C13.R2", "the appended record is this run's dump of the tick being recorded", ok, m=mp, node=c, fn=ot, instance="write-ahead:payload", reason=ast.unparse(c)[:100])
    fw = [n for n in cfg.nodes if n.ast is not None and any(isinstance(x, ast.Call) and ast.unparse(x.func) == "super().on_tick" for x in exprs_in_node(n))]
    chk.ob("C13.R2", "the persistence adapter still forwards on_tick to the wrapped adapter", bool(fw), m=mp, node=ot, fn=ot, instance="write-ahead:forwards", reason="super().on_tick not called")
    swallowed = [h for h in ast.walk(ot) if isinstance(h, ast.ExceptHandler) and not any(isinstance(x, ast.Raise) for x in ast.walk(h))]
    if swallowed:
        chk.observe("C13.R4 (not gating; the statement quantifies over crash points, not store faults): _PersistenceInternalRunAdapter.on_tick logs and swallows append_tick failures, so a failed write leaves a gap in the persisted log while the run continues")
    _, oss = repo.func(f"{PR}:PersistenceDecorator._on_server_start")
    q = [c for c in ast.walk(oss) if isinstance(c, ast.Call) and last(call_name(c)) == "HandlerQuery"]
    ok = bool(q) and kwarg(q[0], "status_in") is not None and "running" in ast.unparse(kwarg(q[0], "status_in")) and kwarg(q[0], "is_idle") is not None and ast.unparse(kwarg(q[0], "is_idle")) == "False"
    chk.ob("C13.R2", "server start resumes the handlers that were running and not idle", ok, m=mp, node=q[0] if q else oss, fn=oss, instance="resume:selection", reason=ast.unparse(q[0])[:120] if q else "no HandlerQuery")

    # ---------------------------------------------------------------- R2b the resume path replays the whole log, in order
    _, cft = repo.func(f"{PR}:TickPersistenceDecorator.context_from_ticks")
    inner = [n for n in ast.walk(cft) if isinstance(n, (ast.AsyncFunctionDef, ast.FunctionDef)) and n is not cft]
    peeked = [s_ for s_ in ast.walk(cft) if isinstance(s_, ast.Assign) and isinstance(s_.value, ast.Await) and "__anext__" in ast.unparse(s_.value)]
    if peeked:
        first = ast.unparse(peeked[0].targets[0])
        gen_ok = False
        for g in inner:
            ys = [y for y in ast.walk(g) if isinstance(y, ast.Yield)]
            cg = CFG(g)
            y_first = [n for n in cg.nodes if n.ast is not None and any(isinstance(x, ast.Yield) and x.value is not None and ast.unparse(x.value) == first for x in exprs_in_node(n))]
            loops = [l for l in ast.walk(g) if isinstance(l, (ast.AsyncFor, ast.For)) and any(isinstance(y, ast.Yield) and y.value is not None and ast.unparse(y.value) == ast.unparse(l.target) for y in ast.walk(l))]
            if y_first and loops:
                ln = [x for l in loops for x in cg.nodes_of(l)]
                # the peeked tick is yielded before the rest of the stream, on every path
                gen_ok = all(x not in cg.reach([cg.entry], blocked=y_first) for x in ln)
        chk.ob("C13.R2", "the tick peeked from the store to test for emptiness is replayed first, followed by the rest of the stream", gen_ok, m=mp, node=peeked[0], fn=cft, instance="replay:first-tick-reinjected",
               reason="the first persisted tick is consumed by the emptiness test and not replayed (or replayed out of order)")
    rcalls = [c for c in ast.walk(cft) if isinstance(c, ast.Call) and last(call_name(c)) == "replay_ticks_stream"]
    chk.floor("C13.R2", "replay_ticks_stream calls on the resume path", len(rcalls), 1)
    used = any(isinstance(s_, ast.Assign) and ast.unparse(s_.value).endswith(".state") and "replay" in ast.unparse(s_.value) for s_ in ast.walk(cft))
    chk.ob("C13.R2", "the resumed context is built from the replayed state", used and any("to_serialized" in ast.unparse(c) for c in ast.walk(cft) if isinstance(c, ast.Call)), m=mp, node=cft, fn=cft, instance="replay:state-used", reason="replay result not used for the rebuilt context")
    # both stores hand ticks back in append order
    msq = repo.module("llama_agents.server._store.sqlite.sqlite_workflow_store")
    gt = msq.functions.get("SqliteWorkflowStore.get_ticks")
    if gt is None:
        raise AnchorError("C13.R2: SqliteWorkflowStore.get_ticks not found")
    def _sql_texts(fnx, mod_) -> list[str]:
        """SQL string constants a store method uses: literal in the method, or a module-level constant it names."""
        out_ = [c.value for c in ast.walk(fnx) if isinstance(c, ast.Constant) and isinstance(c.value, str)]
        names_ = {x.id for x in ast.walk(fnx) if isinstance(x, ast.Name)}
        for st_ in mod_.tree.body:
            tg_ = st_.targets[0] if isinstance(st_, ast.Assign) and len(st_.targets) == 1 else (st_.target if isinstance(st_, ast.AnnAssign) else None)
            if isinstance(tg_, ast.Name) and tg_.id in names_ and getattr(st_, "value", None) is not None:
                out_ += [c.value for c in ast.walk(st_.value) if isinstance(c, ast.Constant) and isinstance(c.value, str)]
        return out_

    sqls = [q for q in _sql_texts(gt, msq) if "SELECT" in q.upper() and "ticks" in q]
    ok = bool(sqls) and all("ORDER BY SEQUENCE" in " ".join(q.upper().split()) and "DESC" not in q.upper() for q in sqls)
    chk.ob("C13.R2", "SQLite returns a run's ticks ordered by sequence (ascending)", ok, m=msq, node=gt, fn=gt, instance="tick-order:sqlite", reason=f"queries: {sqls}")
    at = msq.functions.get("SqliteWorkflowStore.append_tick")
    ins = [q for q in _sql_texts(at, msq) if "INSERT" in q.upper()] if at is not None else []
    ok = bool(ins) and all("MAX(SEQUENCE)" in "".join(q.upper().split()) and "+1" in "".join(q.split()) for q in ins)
    chk.ob("C13.R2", "SQLite numbers a new tick MAX(sequence)+1 inside the INSERT", ok, m=msq, node=at or msq.tree, fn=at, instance="tick-seq:sqlite", reason=f"insert: {ins}")
    mmem = repo.module("llama_agents.server._store.memory_workflow_store")
    mat = mmem.functions.get("MemoryWorkflowStore.append_tick")
    ok = mat is not None and any(isinstance(c, ast.Call) and isinstance(c.func, ast.Attribute) and c.func.attr == "append" for c in ast.walk(mat)) and not any(isinstance(c, ast.Call) and isinstance(c.func, ast.Attribute) and c.func.attr == "insert" for c in ast.walk(mat))
    chk.ob("C13.R2", "the memory store appends ticks at the end of the run's list", ok, m=mmem, node=mat or mmem.tree, fn=mat, instance="tick-order:memory", reason="append_tick does not append")
    _, swt = repo.func("llama_agents.server._store.abstract_workflow_store:stream_workflow_ticks")
    from ..astx import expand as _expand
    ok = any(isinstance(l, ast.AsyncFor) and "stream_ticks" in ast.unparse(l.iter) and any(isinstance(y, ast.Yield) and y.value is not None and "validate_python" in ast.unparse(_expand(y.value, y, depth=2)) and ast.unparse(l.target) in ast.unparse(_expand(y.value, y, depth=2)) for y in ast.walk(l)) for l in ast.walk(swt))
    # … and no iteration skips its yield: every stored row reaches the replay (no filter, no de-duplication on the read side —
    # two equal events accepted back to back are two rows, and both must be replayed)
    from ..astx import iteration_can_skip
    for gfn, gmod, label in [(swt, repo.module("llama_agents.server._store.abstract_workflow_store"), "stream_workflow_ticks")] + [(g_, mp, f"context_from_ticks.{g_.name}") for g_ in inner]:
        for l in [x for x in ast.walk(gfn) if isinstance(x, (ast.AsyncFor, ast.For)) and ("tick" in ast.unparse(x.iter))]:
            ys = [y for y in ast.walk(l) if isinstance(y, ast.Yield)]
            if not ys:
                continue
            skip = iteration_can_skip(CFG(gfn), l, ys)
            ok = ok and not skip
            chk.ob("C13.R2", f"{label}: every tick read from the store is passed on (no iteration skips the yield)", not skip, m=gmod, node=l, fn=gfn, instance=f"tick-stream:no-skip:{label}",
                   reason="an iteration of the read loop can go on to the next row without yielding: stored ticks are dropped from the replay, the resumed run loses accepted work or fails on the orphaned results")
    chk.ob("C13.R2", "stream_workflow_ticks yields every stored tick, validated, in store order", ok, m=repo.module("llama_agents.server._store.abstract_workflow_store"), node=swt, fn=swt, instance="tick-stream:all", reason="stream_workflow_ticks does not yield each stored tick")

    # the durable stores stream a run's ticks page by page: no row may be lost or repeated at a page boundary (decided by evaluating
    # each store's own stream_ticks on a model table of 0 … 3·page+2 rows, see _paging.py)
    from ._paging import evaluate_stream_ticks
    pages = evaluate_stream_ticks(repo)
    chk.floor("C13.R2", "paginating tick stores evaluated on the model table", len(pages), 3)
    for r_ in pages:
        chk.ob("C13.R2", f"{r_['label']} store: stream_ticks yields exactly the stored sequences 1..N in order for every N around the page boundaries (page size {r_['page_size']})",
               not r_["bad"], m=r_["module"], node=r_["fn"], fn=r_["fn"], instance=f"tick-stream:pages:{r_['label']}", reason=r_["bad"])
    chk.extra["paging_model_evaluations"] = sum(r_["evaluated"] for r_ in pages)

    # ---------------------------------------------------------------- R3 finalize instead of re-run
    _, hs = repo.func(f"{PR}:handler_status_from_exit_command")
    env = {n: n for n in ("CommandCompleteRun", "CommandFailWorkflow", "CommandHalt", "IdleReleasedEvent", "WorkflowCancelledByUser", "WorkflowTimeoutError", "StopEvent")}
    cases = [
        ("complete", Record("CommandCompleteRun", result=Record("StopEvent")), "completed"),
        ("idle-release", Record("CommandCompleteRun", result=Record("IdleReleasedEvent")), None),
        ("fail", Record("CommandFailWorkflow", exception=Record("ValueError")), "failed"),
        ("cancel", Record("CommandHalt", exception=Record("WorkflowCancelledByUser")), "cancelled"),
        ("timeout", Record("CommandHalt", exception=Record("WorkflowTimeoutError")), "failed"),
    ]
    rows, bad = [], ""
    try:
        for label, cmdrec, want in cases:
            got = Interp(env).call_function(hs, {param(hs, 0): cmdrec})
            st = got[0] if got is not None else None
            rows.append({"exit": label, "status": st})
            if st != want:
                bad = bad or f"{label} exit maps to {st!r}, expected {want!r}"
            if label == "complete" and got is not None and got[1] is not cmdrec.result:
                bad = bad or "a completed run is finalized without its result"
            if label in ("fail", "timeout") and got is not None and not got[2]:
                bad = bad or f"{label} exit is finalized without an error text"
    except (Unsupported, Raised) as e:
        raise AnchorError(f"C13.R3: cannot evaluate handler_status_from_exit_command: {e}")
    chk.ob("C13.R3", "handler_status_from_exit_command maps complete/idle-release/fail/cancel/timeout to completed/None/failed/cancelled/failed (AST evaluation of all five kinds)", not bad, m=mp, node=hs, fn=hs, instance="finalize:mapping", reason=bad)
    chk.extra["exit_mapping"] = rows
    members = set(union_members(repo, CL, "ExitCommand"))
    chk.ob("C13.R3", "the five evaluated kinds cover the ExitCommand union", members == {"CommandCompleteRun", "CommandFailWorkflow", "CommandHalt"}, m=m, node=m.tree, instance="finalize:union", reason=f"ExitCommand = {sorted(members)}")
    callers = []
    for mod in repo.by_rel.values():
        if not mod.name.startswith("llama_agents"):
            continue
        for c in ast.walk(mod.tree):
            if isinstance(c, ast.Call) and last(call_name(c)) == "context_from_ticks":
                fn = enclosing_function(c)
                if fn is not None and fn.name != "context_from_ticks":
                    callers.append((mod, fn, c))
    chk.floor("C13.R3", "callers of context_from_ticks", len(callers), 2)
    for mod, fn, c in callers:
        cf = CFG(fn)
        runs = [n for n in cf.nodes if n.ast is not None and any(isinstance(x, ast.Call) and ast.unparse(x.func).endswith("workflow.run") for x in exprs_in_node(n))]
        tests = [n for n in cf.nodes if n.kind == "test" and ("exit_command" in ast.unparse(n.ast.test) or "finalize" in ast.unparse(n.ast.test))]
        starts = cf.node_of_containing(c)
        bad = cf.must_pass(starts, runs, tests, labels_excluded=("exc", "cancel"), include_starts=False) if runs else []
        gating = qualname_of(fn).endswith("_on_server_start")
        if gating:
            chk.ob("C13.R3", "the start-up resume consults the replay's exit command before re-running a workflow", not bad and bool(runs), m=mod, node=c, fn=fn, instance=f"consults-exit:{qualname_of(fn)}",
                   reason="workflow.run is reachable without testing exit_command: a run whose log already ended would be run again")
            fin = [n for n in cf.nodes if n.ast is not None and any(isinstance(x, ast.Call) and last(call_name(x)) == "update_handler_status" and kwarg(x, "status") is not None and ast.unparse(kwarg(x, "status")) == "status" for x in exprs_in_node(n))]
            chk.ob("C13.R3", "a terminated log is finalized with the mapped status", bool(fin), m=mod, node=c, fn=fn, instance=f"finalizes:{qualname_of(fn)}", reason="no update_handler_status(status=status, …) on the finalize path")
        elif bad:
            chk.observe(f"{mod.rel}:{c.lineno} {qualname_of(fn)} calls context_from_ticks and runs the workflow without looking at exit_command (reload of an idle-released run; a released run's log has no terminal tick unless another defect marked a busy run idle) — not gated")


TWINS = [
    Twin("replay stops at the first exit-shaped command", CL_REL, "                exit_command = command\n    return ReplayResult(state=state, exit_command=exit_command)\n", "                exit_command = command\n        if exit_command is not None:\n            break\n    return ReplayResult(state=state, exit_command=exit_command)\n", "C13.R1"),
    Twin("sqlite: look-ahead row fetched, never yielded, cursor taken from it", "packages/llama-agents-server/src/llama_agents/server/_store/sqlite/sqlite_workflow_store.py", *multi("packages/llama-agents-server/src/llama_agents/server/_store/sqlite/sqlite_workflow_store.py", [
        ("params: list[Any] = [run_id, _TICK_PAGE_SIZE]", "params: list[Any] = [run_id, _TICK_PAGE_SIZE + 1]"),
        ("params = [run_id, seq_cursor, _TICK_PAGE_SIZE]", "params = [run_id, seq_cursor, _TICK_PAGE_SIZE + 1]"),
        ("            for row in rows:\n", "            for row in rows[:_TICK_PAGE_SIZE]:\n"),
        ("                seq_cursor = tick.sequence\n            if len(rows) < _TICK_PAGE_SIZE:\n                return\n", "            if len(rows) <= _TICK_PAGE_SIZE:\n                return\n            seq_cursor = rows[-1][1]\n")]), "C13.R2"),
    Twin("postgres: stream stops at a page that is exactly full", "packages/llama-agents-server/src/llama_agents/server/_store/postgres_workflow_store.py", "            if len(rows) < _TICK_PAGE_SIZE:\n                return\n\n    # ── Helpers", "            if len(rows) <= _TICK_PAGE_SIZE:\n                return\n\n    # ── Helpers", "C13.R2"),
    Twin("agent-data: next page asked from the cursor inclusive", "packages/llama-agents-server/src/llama_agents/server/_store/agent_data_store.py", 'filters["sequence"] = {"gt": cursor}', 'filters["sequence"] = {"gte": cursor}', "C13.R2"),
    Twin("benign: sqlite look-ahead row with the cursor taken from the last yielded row", "packages/llama-agents-server/src/llama_agents/server/_store/sqlite/sqlite_workflow_store.py", *multi("packages/llama-agents-server/src/llama_agents/server/_store/sqlite/sqlite_workflow_store.py", [
        ("params: list[Any] = [run_id, _TICK_PAGE_SIZE]", "params: list[Any] = [run_id, _TICK_PAGE_SIZE + 1]"),
        ("params = [run_id, seq_cursor, _TICK_PAGE_SIZE]", "params = [run_id, seq_cursor, _TICK_PAGE_SIZE + 1]"),
        ("            for row in rows:\n", "            for row in rows[:_TICK_PAGE_SIZE]:\n"),
        ("            if len(rows) < _TICK_PAGE_SIZE:\n                return\n", "            if len(rows) <= _TICK_PAGE_SIZE:\n                return\n")]), None),
    Twin("read side drops a row equal to the previous one", "packages/llama-agents-server/src/llama_agents/server/_store/abstract_workflow_store.py", "    async for stored in store.stream_ticks(run_id):\n        yield WorkflowTickAdapter.validate_python(stored.tick_data)", "    previous = None\n    async for stored in store.stream_ticks(run_id):\n        if stored.tick_data == previous:\n            continue\n        previous = stored.tick_data\n        yield WorkflowTickAdapter.validate_python(stored.tick_data)", "C13.R2"),
    Twin("benign: validated tick bound to a local before the yield", "packages/llama-agents-server/src/llama_agents/server/_store/abstract_workflow_store.py", "    async for stored in store.stream_ticks(run_id):\n        yield WorkflowTickAdapter.validate_python(stored.tick_data)", "    async for stored in store.stream_ticks(run_id):\n        validated = WorkflowTickAdapter.validate_python(stored.tick_data)\n        yield validated", None),
    Twin("persist fire and forget", PR_REL, "            await self._store.append_tick(self.run_id, tick_data)", "            asyncio.ensure_future(self._store.append_tick(self.run_id, tick_data))", "C13.R2"),
    Twin("persist only step results", PR_REL, "        await super().on_tick(tick)\n        tick_data = WorkflowTickAdapter.dump_python(tick, mode=\"json\")\n        try:\n            await self._store.append_tick", "        await super().on_tick(tick)\n        if not isinstance(tick, TickStepResult):\n            return\n        tick_data = WorkflowTickAdapter.dump_python(tick, mode=\"json\")\n        try:\n            await self._store.append_tick", "C13.R2"),
    Twin("cancel finalized as failed", PR_REL, "    if isinstance(command.exception, WorkflowCancelledByUser):\n        return (\"cancelled\", None, None)\n", "", "C13.R3"),
    Twin("idle release finalized as completed", PR_REL, "        if isinstance(command.result, IdleReleasedEvent):\n            return None\n", "", "C13.R3"),
    Twin("resume ignores exit command", PR_REL, "                if finalize is not None:\n                    status, result, error = finalize", "                if False:\n                    status, result, error = finalize", "C13.R3"),
    Twin("resume idle handlers too", PR_REL, "                is_idle=False,\n", "", "C13.R2"),
    Twin("replay forgets failures", CL_REL, "                command, (CommandCompleteRun, CommandFailWorkflow, CommandHalt)\n            ):", "                command, (CommandCompleteRun, CommandHalt)\n            ):", "C13.R1"),
    Twin("first tick swallowed by the emptiness test", PR_REL, "            async def _with_first() -> AsyncIterator[WorkflowTick]:\n                yield first_tick\n                async for tick in tick_stream:", "            async def _with_first() -> AsyncIterator[WorkflowTick]:\n                async for tick in tick_stream:", "C13.R2"),
    Twin("ticks read newest first", "packages/llama-agents-server/src/llama_agents/server/_store/sqlite/sqlite_workflow_store.py", "FROM ticks WHERE run_id = ? ORDER BY sequence", "FROM ticks WHERE run_id = ? ORDER BY sequence DESC", "C13.R2"),
    Twin("ticks unordered", "packages/llama-agents-server/src/llama_agents/server/_store/sqlite/sqlite_workflow_store.py", "FROM ticks WHERE run_id = ? ORDER BY sequence", "FROM ticks WHERE run_id = ?", "C13.R2"),
    Twin("exit command dropped while the rebuilt state still runs", CL_REL, "    return ReplayResult(state=state, exit_command=exit_command)", "    if state.is_running:\n        exit_command = None\n    return ReplayResult(state=state, exit_command=exit_command)", "C13.R3"),
    Twin("first exit command wins", CL_REL, "                # Last wins: a successful retry supersedes earlier failures.\n                exit_command = command", "                # Last wins: a successful retry supersedes earlier failures.\n                exit_command = exit_command or command", "C13.R3"),
    Twin("benign: mapping with elif", PR_REL, "    if isinstance(command, CommandFailWorkflow):\n        return (\"failed\", None, str(command.exception))", "    elif isinstance(command, CommandFailWorkflow):\n        return (\"failed\", None, str(command.exception))", None),
]
