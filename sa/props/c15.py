"""C15 — the server's handler record always reflects the run outcome.

Decided (necessary conditions of the statement that are visible in the code):

* R1  terminal stream events -> status.  The guards of the status writes in
      `_ServerInternalRunAdapter.write_to_event_stream` are evaluated for *every* event class of
      workflows/events.py (plus a user StopEvent subclass and a user Event subclass): each
      StopEvent-family class reaches exactly one awaited status write, with status failed (error=…)
      for WorkflowFailedEvent / WorkflowTimedOutEvent, cancelled for WorkflowCancelledEvent,
      completed (result = the event) otherwise; no other event class reaches a status write.
      Wiring: `_handle_status_update` forwards status/result/error unchanged through
      `_retry_store_write`; `update_handler_status` stores each given field into the record it
      passes to `self.update(...)` on every path, and never refuses running -> terminal.
* R2  every way the run task can end is observed by the server.  The control loop ends its task
      without a terminal event on engine-side failures (an adapter/store call raising inside
      `process_command`, a reducer bug, a scheduling error): so either the engine publishes a
      WorkflowFailedEvent from a catch-all around the loop, or the server attaches, at every run
      start (`workflow.run(…, run_id=…)` in the server package, or once in
      `ServerRuntimeDecorator.run_workflow`, the choke point of those calls), an observer that awaits
      the run's completion and writes a terminal status on the exception path.  On-demand awaits
      (`await_workflow`) do not count: nobody has to call them.  The observer that discharges a site
      must also (i) write only when no terminal status is stored (cancel / timeout / step failure
      raise in the run task too, after their terminal event — guards evaluated over the 3 terminal
      statuses), (ii) not record cancellation of the run task (abort for idle release / shutdown)
      as an outcome, (iii) be awaited in place, registered as a done-callback, or spawned as a task
      that stays referenced (asyncio holds tasks weakly).
* R3  no terminal -> running.  Every site that can store status "running" is (a) the creation of the
      record of a *new* run id, or (b) unreachable when the stored status is terminal (guards
      evaluated over the 3 terminal statuses), or (c) the awaited reaction of an internal adapter
      to a non-terminal stream event (which the control loop publishes, awaited, strictly before
      the terminal event — C04), or the primitive `update_handler_status` itself refuses
      terminal -> running (evaluated over all (stored, new) status pairs).
* R4  `_retry_store_write`, interpreted from its AST for back-off lists of length 0..3 and 0..len+2
      consecutive store failures: attempts = min(failures, len) + 1, sleeps = the configured back-offs
      in order, the last error is re-raised after the final attempt, the configured list is not
      consumed (the next write gets the same retries).
* R5  the handler record is created (awaited, through `_retry_store_write`) before the run is
      started, with the run id the run is started with.

Not decided: store failures that outlast the configured back-offs; read-modify-write races of
`update_handler_status` in stores whose query/update really suspend (observation); runs resumed by
the DBOS idle-release decorator (they bypass ServerRuntimeDecorator; observation); handler-id
re-use by `start_workflow` (a new run under an old handler id replaces the old terminal record by
design; observation).
"""

from __future__ import annotations

import ast

from ..absint import Interp, Raised, Record, Unsupported
from ..astx import call_name, calls_named, dotted, enclosing_stmt, expand, kwarg, last
from ..cfg import CFG, _catches_all
from ..index import AnchorError, FuncNode, Module, _set_parents, ancestors, enclosing_class, enclosing_function, parent, qualname_of, walk_shallow
from ..inline import Inliner, clone
from ..report import VERIF
from ..selftest import Twin
from .c25 import Sim  # shared helper (Interp + await / async with / try with BaseException-aware handlers)

EXPLANATION = (
    "R1: the isinstance dispatch of _ServerInternalRunAdapter.write_to_event_stream is evaluated for every event class of workflows/events.py: each "
    "StopEvent-family class reaches exactly one awaited status write with the matching status (failed+error / cancelled / completed+result), no other "
    "class reaches one; the status travels unchanged through _handle_status_update -> _retry_store_write -> update_handler_status -> self.update(record). "
    "R2: the run task can end without a terminal event (engine-side failure); the server must observe task completion at every run start (or at the "
    "ServerRuntimeDecorator.run_workflow choke point) with an observer that writes a terminal status on the exception path, or the engine must publish a "
    "failure event from a catch-all around the loop; the observer writes only over a non-terminal stored status, ignores cancellation of the run task, and its task stays referenced. R3: every writer of status 'running' is a creation, is unreachable for a terminal stored status, is the "
    "awaited reaction to a non-terminal stream event, or goes through a primitive that refuses terminal->running. R4: _retry_store_write interpreted over "
    "back-off lists of length 0..3 x failure counts: exact attempts, sleeps, re-raise, configuration not consumed. R5: record created before the run starts, same run id. "
    "Not decided: failures beyond the back-offs, RMW races in suspending stores, DBOS-resumed runs, handler-id re-use."
)
TRUSTED = ["CPython ast", "asyncio task semantics", "C04: the control loop publishes the terminal event last and awaits each publication (cross-reference, re-checked for the await)",
           "workflows served by WorkflowServer use the ServerRuntimeDecorator as `workflow._runtime` (server.py add_workflow; bound by name)"]
LEVEL_NOTE = "Necessary structural conditions; R1 and R3 enumerate finite class/status domains exhaustively, R4 interprets the retry helper from its AST. Store semantics and DBOS are trusted / not decided."
TECHNIQUE = "static analysis: guard evaluation over the event-class hierarchy, completion-observer reachability from run-start sites, status-transition guards over a finite status domain, AST interpretation of the retry helper"

SR = "llama_agents.server._runtime.server_runtime"
SVC = "llama_agents.server._service"
STORE = "llama_agents.server._store.abstract_workflow_store"
EVENTS = "workflows.events"
CL = "workflows.runtime.control_loop"
STEPFN = "workflows.runtime.types.step_function"
SERVER_PKG = "llama_agents.server"
SCOPE = ("llama_agents.server", "llama_agents.dbos", "llama_agents.agentcore")
STATUS_CALLS = {"_handle_status_update": 1, "update_handler_status": None}  # name -> positional index of status
STATUSES = ("running", "completed", "failed", "cancelled")
TERMINAL = ("completed", "failed", "cancelled")
FORWARD = "<forwarded parameter>"


# ======================================================================================= helpers
def _scope_mods(repo) -> list[Module]:
    return [m for m in repo.by_rel.values() if m.name.startswith(SCOPE)]


def _status_arg(c: ast.Call) -> ast.AST | None:
    n = last(call_name(c))
    return kwarg(c, "status", STATUS_CALLS.get(n)) if n in STATUS_CALLS else kwarg(c, "status")


def _enclosing_def(node: ast.AST) -> ast.AST | None:
    """Nearest enclosing def (lambdas are looked through)."""
    for a in ancestors(node):
        if isinstance(a, FuncNode):
            return a
    return None


def _params(fn: ast.AST) -> list[str]:
    a = fn.args
    return [p.arg for p in a.posonlyargs + a.args + a.kwonlyargs]


def _event_universe(repo) -> dict[str, set[str]]:
    m = repo.module(EVENTS)
    anc: dict[str, set[str]] = {}
    for q in m.classes:
        if "." in q:
            continue
        names = {r.split(":")[-1].split(".")[-1] for r in repo.mro_names(f"{EVENTS}:{q}")}
        if q == "Event" or "Event" in names:
            anc[q] = names
    if "StopEvent" not in anc or "Event" not in anc:
        raise AnchorError("workflows.events: Event / StopEvent classes not found")
    anc["<user StopEvent subclass>"] = {"StopEvent"} | anc["StopEvent"]
    anc["<user Event subclass>"] = {"Event"} | anc["Event"]
    return anc


def _isa(anc: dict[str, set[str]], k: str, c: str) -> bool:
    return k == c or c in anc.get(k, set())


def _class_test(test: ast.AST, ev: str, anc: dict[str, set[str]], k: str) -> bool | None:
    """Value of a guard for an event of class k; None = does not depend on the class (unknown)."""
    if isinstance(test, ast.UnaryOp) and isinstance(test.op, ast.Not):
        v = _class_test(test.operand, ev, anc, k)
        return None if v is None else not v
    if isinstance(test, ast.BoolOp):
        vals = [_class_test(v, ev, anc, k) for v in test.values]
        if isinstance(test.op, ast.And):
            if any(v is False for v in vals):
                return False
            return True if all(v is True for v in vals) else None
        if any(v is True for v in vals):
            return True
        return False if all(v is False for v in vals) else None
    if isinstance(test, ast.Call) and call_name(test) == "isinstance" and len(test.args) == 2 and isinstance(test.args[0], ast.Name) and test.args[0].id == ev:
        t = test.args[1]
        names = [last(dotted(e)) for e in (t.elts if isinstance(t, ast.Tuple) else [t])]
        if any(n is None for n in names):
            return None
        return any(_isa(anc, k, n) for n in names)
    if (isinstance(test, ast.Compare) and len(test.ops) == 1 and isinstance(test.ops[0], (ast.Is, ast.Eq, ast.IsNot, ast.NotEq))
            and isinstance(test.left, ast.Call) and call_name(test.left) == "type" and len(test.left.args) == 1
            and isinstance(test.left.args[0], ast.Name) and test.left.args[0].id == ev):
        n = last(dotted(test.comparators[0]))
        if n is None:
            return None
        exact = k == n  # exact-class test: subclasses (incl. user subclasses) do not match
        return exact if isinstance(test.ops[0], (ast.Is, ast.Eq)) else not exact
    return None


def _reaches(cfg: CFG, node, ev: str, anc, k: str, unknown: list) -> bool:
    for t, label in cfg.guards(node):
        if t.kind == "test":
            test = t.ast.test
            v = _class_test(test, ev, anc, k)
            if v is None:
                test = expand(test, t.ast)
                v = _class_test(test, ev, anc, k)
            if v is None:
                unknown.append(test)
                continue
            if v != (label == "T"):
                return False
        elif t.kind == "case":
            pat = t.ast.pattern
            if isinstance(pat, ast.MatchClass):
                v = _isa(anc, k, last(dotted(pat.cls)) or "?")
                if t.ast.guard is not None:
                    unknown.append(t.ast.guard)
                if v != (label == "match"):
                    return False
            else:
                unknown.append(pat)
    return True


def _store_env(repo) -> dict:
    """Constants and small pure functions of the store module, for guard evaluation (AST only)."""
    m = repo.module(STORE)
    env: dict = {}
    for s in m.tree.body:
        tgt = val = None
        if isinstance(s, ast.Assign) and len(s.targets) == 1 and isinstance(s.targets[0], ast.Name):
            tgt, val = s.targets[0].id, s.value
        elif isinstance(s, ast.AnnAssign) and isinstance(s.target, ast.Name) and s.value is not None:
            tgt, val = s.target.id, s.value
        if tgt is not None:
            try:
                env[tgt] = Interp(env).eval(val, env)
            except (Unsupported, Raised):
                pass
        elif isinstance(s, ast.FunctionDef):
            env[s.name] = ("__fn__", s, env)
    return env


class _StaticFolder(Inliner):
    """Folds private `@staticmethod` helpers of the caller's own class (reached as `self._h(...)` or `Cls._h(...)`) into
    the caller. Repo.auto_inline leaves every decorated helper alone; a static method has no receiver, so its parameters
    bind positionally like those of a plain function."""

    def helper_for(self, call: ast.Call, cls: ast.ClassDef | None):
        f = call.func
        if cls is None or not (isinstance(f, ast.Attribute) and isinstance(f.value, ast.Name) and f.value.id in ("self", "cls", cls.name)):
            return None
        h = self.mod.functions.get(f"{qualname_of(cls)}.{f.attr}")
        if h is None or not f.attr.startswith("_") or f.attr.startswith("__"):
            return None
        if [last(dotted(d)) for d in h.decorator_list] != ["staticmethod"] or h.args.vararg or h.args.kwarg:
            return None
        if any(isinstance(n, (ast.Yield, ast.YieldFrom)) for n in ast.walk(h)):
            return None
        if any(isinstance(n, ast.Call) and n is not call and last(call_name(n)) == f.attr for n in ast.walk(h)):
            return None  # recursive
        return h, False


def _fold_static_helpers(mod: Module, fn: ast.AST) -> ast.AST:
    """View of method `fn` with the static helpers of its class folded in (fn itself when there is nothing to fold)."""
    cls = enclosing_class(fn)
    if cls is None or not any(isinstance(c, ast.Call) and _StaticFolder(mod, ()).helper_for(c, cls) is not None for c in ast.walk(fn)):
        return fn
    tree = clone(mod.tree)
    _set_parents(tree)
    q = qualname_of(fn)
    twin = [n for n in ast.walk(tree) if isinstance(n, FuncNode) and n.name == fn.name and qualname_of(n) == q]
    if len(twin) != 1:
        return fn
    new = twin[0]
    new.body = _StaticFolder(mod, ()).inline_block(new.body, new, enclosing_class(new), 2)
    ast.fix_missing_locations(tree)
    _set_parents(tree)
    return new


def _primitive(repo) -> tuple[Module, ast.AST]:
    m, prim = repo.func(f"{STORE}:AbstractWorkflowStore.update_handler_status")
    return m, _fold_static_helpers(m, prim)


def _guard_allows(cfg: CFG, node, env: dict) -> bool:
    """False iff some dominating guard evaluates (AST interpretation) against reaching the node under env.
    Guards that cannot be evaluated are treated as possibly satisfied."""
    for t, label in cfg.guards(node):
        if t.kind != "test":
            continue
        for variant in (t.ast.test, expand(t.ast.test, t.ast)):
            try:
                v = Interp(env).eval(variant, dict(env))
            except (Unsupported, Raised, Exception):  # noqa: BLE001 - any failure = unknown
                continue
            if bool(v) != (label == "T"):
                return False
            break
    return True


def _names_with_status(cfg: CFG, node) -> set[str]:
    out = set()
    for t, _l in cfg.guards(node):
        if t.kind != "test":
            continue
        for variant in (t.ast.test, expand(t.ast.test, t.ast)):
            for x in ast.walk(variant):
                if isinstance(x, ast.Attribute) and x.attr == "status":
                    b = x.value
                    if isinstance(b, ast.Subscript):
                        b = b.value
                    if isinstance(b, ast.Name):
                        out.add((b.id, isinstance(x.value, ast.Subscript)))
    return out


# ======================================================================================= run
def run(chk) -> None:
    repo = chk.repo
    anc = _event_universe(repo)
    senv = _store_env(repo)
    _r1(chk, repo, anc, senv)
    _r2(chk, repo)
    _r3(chk, repo, anc, senv)
    _r4(chk, repo)
    _r5(chk, repo)


# --------------------------------------------------------------------------------------- R1
def _expected_status(anc, k: str) -> str:
    if _isa(anc, k, "WorkflowFailedEvent") or _isa(anc, k, "WorkflowTimedOutEvent"):
        return "failed"
    if _isa(anc, k, "WorkflowCancelledEvent"):
        return "cancelled"
    return "completed"


def _r1(chk, repo, anc, senv) -> None:
    m, fn = repo.func(f"{SR}:_ServerInternalRunAdapter.write_to_event_stream")
    ps = _params(fn)
    if len(ps) < 2:
        raise AnchorError("write_to_event_stream has no event parameter")
    ev = ps[1]
    cfg = CFG(fn)
    writes = [c for c in ast.walk(fn) if isinstance(c, ast.Call) and last(call_name(c)) in STATUS_CALLS and _enclosing_def(c) is fn]
    chk.floor("C15.R1", "status writes in _ServerInternalRunAdapter.write_to_event_stream", len(writes), 3)
    lits = {}
    for w in writes:
        s = _status_arg(w)
        if not (isinstance(s, ast.Constant) and s.value in STATUSES):
            raise AnchorError(f"C15.R1: status argument `{ast.unparse(s) if s is not None else None}` of a status write in write_to_event_stream is not a literal status")
        lits[id(w)] = s.value
    unknown: list = []
    term = [k for k in anc if _isa(anc, k, "StopEvent")]
    skipped = [k for k in term if k == "IdleReleasedEvent"]
    for k in sorted(term):
        if k in skipped:
            continue
        hit = []
        for w in writes:
            nodes = cfg.nodes_of(enclosing_stmt(w))
            if any(_reaches(cfg, n, ev, anc, k, unknown) for n in nodes):
                hit.append(w)
        want = _expected_status(anc, k)
        ok = len(hit) == 1 and lits[id(hit[0])] == want
        reason = ""
        if not hit:
            reason = f"an event of class {k} reaches no status write: the run ends and the handler stays running"
        elif len(hit) > 1:
            reason = f"an event of class {k} reaches {len(hit)} status writes ({[lits[id(h)] for h in hit]})"
        elif not ok:
            reason = f"an event of class {k} is recorded as `{lits[id(hit[0])]}`, the run ended as `{want}` (a more general isinstance branch shadows the specific one?)"
        node = hit[0] if hit else fn
        chk.ob("C15.R1", f"terminal event {k} -> exactly one status write, status `{want}`", ok, m=m, node=node, fn=fn, instance=f"terminal:{k}", reason=reason)
        if ok:
            w = hit[0]
            awaited = isinstance(parent(w), ast.Await)
            chk.ob("C15.R1", f"the `{want}` status write for {k} is awaited inside write_to_event_stream (stored before the run task can end)", awaited, m=m, node=w, fn=fn,
                   instance=f"awaited:{k}", reason="status write is not awaited (fire-and-forget): the run can end before the record is terminal")
            if want == "failed":
                e = kwarg(w, "error", 3 if last(call_name(w)) == "_handle_status_update" else None)
                okf = e is not None and not (isinstance(e, ast.Constant) and e.value is None)
                chk.ob("C15.R1", f"failed status for {k} carries an error text", okf, m=m, node=w, fn=fn, instance=f"error-field:{k}", reason="`failed` is written without error=")
            if want == "completed":
                r = kwarg(w, "result", 2 if last(call_name(w)) == "_handle_status_update" else None)
                rr = expand(r, enclosing_stmt(w)) if r is not None else None
                okr = isinstance(rr, ast.Name) and rr.id == ev
                chk.ob("C15.R1", f"completed status for {k} carries the stop event as result", okr, m=m, node=w, fn=fn, instance=f"result-field:{k}",
                       reason=f"result= is `{ast.unparse(r) if r is not None else None}`, not the event")
    others = [k for k in anc if k not in term]
    leak = []
    for k in others:
        for w in writes:
            if any(_reaches(cfg, n, ev, anc, k, unknown) for n in cfg.nodes_of(enclosing_stmt(w))):
                leak.append((k, w))
    chk.ob("C15.R1", f"no non-terminal event class ({len(others)} classes) reaches a status write", not leak, m=m, node=(leak[0][1] if leak else fn), fn=fn, instance="non-terminal",
           reason=f"an event of class {leak[0][0]} sets status `{lits[id(leak[0][1])]}`" if leak else "")
    # guards that are not about the class must be about replay only
    for u in unknown:
        txt = ast.unparse(u)
        if "replay" not in txt.lower():
            raise AnchorError(f"C15.R1: status writes are guarded by `{txt[:80]}`, which the rule cannot interpret")
    if skipped:
        chk.observe("IdleReleasedEvent is a StopEvent subclass that would be recorded as `completed` if it were ever published; the reducer returns it as the run result of "
                    "TickIdleRelease without a CommandPublishEvent (C04's listed exception), so it never reaches write_to_event_stream. Not an obligation here.")

    # ---- wiring: _handle_status_update -> _retry_store_write -> update_handler_status
    mh, hsu = repo.func(f"{SR}:ServerRuntimeDecorator._handle_status_update")
    inner = [c for c in ast.walk(hsu) if isinstance(c, ast.Call) and last(call_name(c)) == "update_handler_status"]
    chk.floor("C15.R1", "update_handler_status calls in _handle_status_update", len(inner), 1)
    hp = _params(hsu)
    for c in inner:
        bad = [f for f in ("status", "result", "error") if f in hp and not (isinstance(kwarg(c, f), ast.Name) and kwarg(c, f).id == f)]
        rid = c.args[0] if c.args else kwarg(c, "run_id")
        if not (isinstance(rid, ast.Name) and rid.id in hp):
            bad.append("run_id")
        chk.ob("C15.R1", "_handle_status_update forwards run_id/status/result/error unchanged to the store primitive", not bad, m=mh, node=c, fn=hsu, instance="forward-fields",
               reason=f"not forwarded unchanged: {bad}")
        retry = [a for a in ancestors(c) if isinstance(a, ast.Call) and last(call_name(a)) == "_retry_store_write"]
        ok = bool(retry) and isinstance(parent(retry[0]), ast.Await)
        chk.ob("C15.R1", "the terminal status write goes through the awaited retry wrapper `_retry_store_write`", ok, m=mh, node=c, fn=hsu, instance="through-retry",
               reason="update_handler_status is not called inside an awaited self._retry_store_write(...)")

    # ---- the primitive stores what it is given and never refuses running -> terminal
    mp, prim = _primitive(repo)
    pcfg = CFG(prim)
    upd = [c for c in calls_named(prim, "update") if isinstance(c.func, ast.Attribute) and dotted(c.func.value) == _params(prim)[0]]
    if not upd:
        raise AnchorError("update_handler_status does not call self.update(...)")
    upd_nodes = [n for c in upd for n in pcfg.nodes_of(enclosing_stmt(c))]
    rec_names = {a.id for c in upd for a in c.args if isinstance(a, ast.Name)}
    for f in ("status", "result", "error"):
        assigns = [s for s in walk_shallow(prim) if isinstance(s, ast.Assign) and len(s.targets) == 1 and isinstance(s.targets[0], ast.Attribute) and s.targets[0].attr == f
                   and isinstance(s.targets[0].value, ast.Name) and s.targets[0].value.id in rec_names]
        good = [s for s in assigns if isinstance(s.value, ast.Name) and s.value.id == f]
        ok = bool(good)
        if not ok:
            # the record handed, together with the field, to code the rule cannot see into: undecided, not a violation
            opaque = [c for c in walk_shallow(prim) if isinstance(c, ast.Call) and c not in upd
                      and any(isinstance(a, ast.Name) and a.id in rec_names for a in list(c.args) + [k.value for k in c.keywords])
                      and any(isinstance(a, ast.Name) and a.id == f for a in list(c.args) + [k.value for k in c.keywords])]
            if opaque:
                raise AnchorError(f"C15.R1: update_handler_status hands the record and `{f}` to `{ast.unparse(opaque[0].func)}`, which the rule cannot fold into the primitive")
        reason = f"no assignment `<record>.{f} = {f}` on the record passed to self.update" if not ok else ""
        if ok:
            for s in good:
                for n in pcfg.nodes_of(s):
                    off = pcfg.must_pass([n], [pcfg.exit], upd_nodes, labels_excluded=("exc", "cancel"), include_starts=False)
                    if off:
                        ok, reason = False, f"after `{ast.unparse(s)}` the function can return without `self.update(record)`"
        chk.ob("C15.R1", f"update_handler_status stores the given `{f}` into the record it writes back", ok, m=mp, node=(good[0] if good else prim), fn=prim, instance=f"primitive-field:{f}", reason=reason)
    st_assign = [s for s in walk_shallow(prim) if isinstance(s, ast.Assign) and isinstance(s.targets[0], ast.Attribute) and s.targets[0].attr == "status"
                 and isinstance(s.targets[0].value, ast.Name) and s.targets[0].value.id in rec_names]
    refused = []
    for s in st_assign:
        for n in pcfg.nodes_of(s):
            for new in TERMINAL:
                env = _prim_env(senv, prim, s, "running", new)
                if not _guard_allows(pcfg, n, env):
                    refused.append(new)
    chk.ob("C15.R1", "update_handler_status never refuses running -> completed/failed/cancelled", bool(st_assign) and not refused, m=mp, node=(st_assign[0] if st_assign else prim), fn=prim,
           instance="primitive-accepts-terminal", reason=f"the status assignment is unreachable for new status {sorted(set(refused))} on a running record" if refused else "no status assignment")


def _prim_env(senv: dict, prim: ast.AST, assign: ast.Assign, cur: str, new: str | None) -> dict:
    env = dict(senv)
    rec = Record("PersistentHandler", status=cur, idle_since=None, run_id="r", result=None, error=None)
    env[assign.targets[0].value.id] = rec
    env["found"] = [rec]
    env["status"] = new
    env["result"] = None
    env["error"] = None
    return env


# --------------------------------------------------------------------------------------- R2
def _is_completion_await(a: ast.Await) -> bool:
    v = a.value
    if isinstance(v, ast.Call) and last(call_name(v)) in ("wait_for", "shield") and v.args:
        v = v.args[0]
    if isinstance(v, ast.Call) and isinstance(v.func, ast.Attribute) and v.func.attr in ("get_result", "stop_event_result", "result"):
        return True
    return isinstance(v, (ast.Name, ast.Attribute))


def _terminal_writes(stmts: list[ast.stmt], mod: Module, depth: int = 1, via: ast.Call | None = None) -> list[tuple[ast.Call, ast.Call | None]]:
    """Terminal status writes in the statements (or one helper call deep): (write call, helper call in the
    original statements through which it is reached, or None)."""
    out: list[tuple[ast.Call, ast.Call | None]] = []
    for s in stmts:
        for c in [x for x in ast.walk(s) if isinstance(x, ast.Call)]:
            n = last(call_name(c))
            if n in STATUS_CALLS:
                sv = _status_arg(c)
                if sv is not None and not (isinstance(sv, ast.Constant) and sv.value == "running"):
                    out.append((c, via))
            elif depth > 0 and n is not None:
                # helper one call deep: a method / function of the same module with that name
                for q, f in mod.functions.items():
                    if q.split(".")[-1] == n:
                        out.extend(_terminal_writes(f.body, mod, depth - 1, via=c))
    return out


def _terminal_write_in(stmts: list[ast.stmt], mod: Module, depth: int = 1) -> bool:
    return bool(_terminal_writes(stmts, mod, depth))


_CACHE: dict[tuple[str, int], tuple[Module, object]] = {}


def _per_module(kind: str, mod: Module, compute):
    """Results that depend on one parsed module only are computed once per Module object
    (overlays share the unchanged modules)."""
    k = (kind, id(mod))
    hit = _CACHE.get(k)
    if hit is None or hit[0] is not mod:
        if len(_CACHE) > 4000:
            _CACHE.clear()
        hit = _CACHE[k] = (mod, compute(mod))
    return hit[1]


def _observers(mods: list[Module]) -> dict[str, dict]:
    out: dict[str, dict] = {}
    for mod in mods:
        out.update(_per_module("observers", mod, _observers_of))
    return out


def _names_cancel(h: ast.ExceptHandler) -> bool:
    t = h.type
    if t is None:
        return False
    return any("Cancelled" in ast.unparse(e) for e in (t.elts if isinstance(t, ast.Tuple) else [t]))


def _observers_of(mod: Module) -> dict[str, dict]:
    """Functions that await a run's completion and write a terminal status on the exception path
    (or inspect `task.exception()` in a done-callback and then write one).  Per observer: the writes, and
    whether the writing handler also catches cancellation of the run task (abort for idle release / shutdown)."""
    out: dict[str, dict] = {}
    if "await" not in mod.src and ".exception()" not in mod.src:
        return out
    for q, fn in mod.functions.items():
        writes: list = []
        catches_cancel = False
        for t in [x for x in walk_shallow(fn) if isinstance(x, ast.Try)]:
            body_awaits = [a for s in t.body for a in [s, *walk_shallow(s)] if isinstance(a, ast.Await) and _is_completion_await(a)]
            if not body_awaits:
                continue
            for i, h in enumerate(t.handlers):
                kind = _catches_all(h)
                if kind not in ("all", "exception"):
                    continue
                w = _terminal_writes(h.body, mod)
                if not w:
                    continue
                writes += w
                if kind == "all":
                    # an earlier `except CancelledError: raise` takes cancellation away from this handler
                    earlier = [e for e in t.handlers[:i] if _names_cancel(e) and e.body and isinstance(e.body[-1], ast.Raise) and e.body[-1].exc is None]
                    if not earlier:
                        catches_cancel = True
        if not writes:
            exc_calls = [c for c in walk_shallow(fn) if isinstance(c, ast.Call) and isinstance(c.func, ast.Attribute) and c.func.attr == "exception" and not c.args]
            if exc_calls:
                writes = _terminal_writes(fn.body, mod)
        if writes:
            out[q.split(".")[-1]] = {"mod": mod, "fn": fn, "writes": writes, "catches_cancel": catches_cancel}
    return out


def _refs_observer(stmt_node: ast.AST, observers: dict) -> str | None:
    for x in ast.walk(stmt_node):
        n = x.attr if isinstance(x, ast.Attribute) else (x.id if isinstance(x, ast.Name) else None)
        if n in observers:
            return n
    return None


def _attached_after(fn: ast.AST, start_call: ast.Call, observers: dict) -> tuple[bool, str, list[tuple[ast.AST, str]]]:
    """Every normal path from the run-start statement to the function's exit passes a statement that
    spawns / awaits / registers an observer.  Also returns the attaching statements with the observer's name."""
    cfg = CFG(fn)
    st = enclosing_stmt(start_call)
    starts = cfg.nodes_of(st)
    if not starts:
        return False, "run-start statement not found in the CFG", []
    attach = [n for n in cfg.nodes if n.ast is not None and n.kind == "stmt" and n.ast is not st and any(isinstance(c, ast.Call) for c in ast.walk(n.ast)) and _refs_observer(n.ast, observers)]
    if _refs_observer(st, observers):  # e.g. self._observe(super().run_workflow(...))
        return True, "", [(st, _refs_observer(st, observers))]
    if not attach:
        return False, "no completion observer is spawned, awaited or registered after the run is started", []
    used = [(n.ast, _refs_observer(n.ast, observers)) for n in attach]
    off = cfg.must_pass(starts, [cfg.exit], attach, labels_excluded=("exc", "cancel"), include_starts=False)
    return (not off), ("" if not off else "the observer is attached only on some paths after the run start"), used


_SPAWN = ("create_task", "ensure_future")
_KEEP = ("add", "append", "appendleft", "setdefault", "__setitem__")


def _task_kept(fn: ast.AST, stmt: ast.AST, mod: Module, obs_name: str) -> tuple[bool, str]:
    """asyncio holds tasks weakly: an observer spawned as a task must be referenced until it is done."""
    calls = [c for c in ast.walk(stmt) if isinstance(c, ast.Call)]
    if any(last(call_name(c)) == "add_done_callback" for c in calls):
        return True, ""
    for a in [x for x in ast.walk(stmt) if isinstance(x, ast.Await)]:
        if any((isinstance(x, ast.Attribute) and x.attr == obs_name) or (isinstance(x, ast.Name) and x.id == obs_name) for x in ast.walk(a)):
            return True, ""  # awaited in place
    spawns = [c for c in calls if last(call_name(c)) in _SPAWN]
    if not spawns:
        # the coroutine is handed to a helper: it must be a spawner that keeps the task
        for c in calls:
            n = last(call_name(c))
            for q, f in mod.functions.items():
                if q.split(".")[-1] == n and n != obs_name:
                    fc = [x for x in ast.walk(f) if isinstance(x, ast.Call)]
                    if any(last(call_name(x)) in _SPAWN for x in fc) and any(isinstance(x.func, ast.Attribute) and x.func.attr in _KEEP for x in fc):
                        return True, ""
        return False, "the observer coroutine is neither awaited nor handed to a helper that creates and keeps a task"
    for sp in spawns:
        p = parent(sp)
        if isinstance(p, ast.Call) and isinstance(p.func, ast.Attribute) and p.func.attr in _KEEP:
            continue  # container.add(create_task(...))
        if isinstance(p, (ast.Assign, ast.AnnAssign)):
            tgts = p.targets if isinstance(p, ast.Assign) else [p.target]
            if any(isinstance(t, (ast.Attribute, ast.Subscript)) for t in tgts):
                continue
            names = {t.id for t in tgts if isinstance(t, ast.Name)}
            kept = False
            for x in walk_shallow(fn):
                if isinstance(x, ast.Call) and isinstance(x.func, ast.Attribute) and x.func.attr in _KEEP and any(isinstance(a, ast.Name) and a.id in names for a in x.args):
                    kept = True
                if isinstance(x, ast.Assign) and isinstance(x.value, ast.Name) and x.value.id in names and any(isinstance(t, (ast.Attribute, ast.Subscript)) for t in x.targets):
                    kept = True
            if kept:
                continue
        return False, "the observer task is created but no reference to it is kept (asyncio holds tasks weakly; it can be collected before the run ends)"
    return True, ""


def _observer_quality(senv: dict, attach_fn: ast.AST, attach_mod: Module, used: list[tuple[ast.AST, str]], observers: dict) -> list[dict]:
    """Obligations on the observers that discharge R2 and on how they are attached."""
    out = []
    seen = set()
    for stmt, name in used:
        ok, why = _task_kept(attach_fn, stmt, attach_mod, name)
        out.append({"slot": f"observer-task-kept:{qualname_of(attach_fn)}", "ok": ok, "reason": why, "mod": attach_mod, "fn": attach_fn, "node": stmt,
                    "text": "the completion observer is awaited in place, registered as a done-callback, or spawned as a task that stays referenced"})
        if name in seen:
            continue
        seen.add(name)
        ob = observers[name]
        out.append({"slot": f"observer-ignores-cancel:{name}", "ok": not ob["catches_cancel"], "mod": ob["mod"], "fn": ob["fn"], "node": ob["fn"],
                    "reason": "the handler that writes the terminal status also catches CancelledError: aborting the run task for idle release or shutdown (the run has not ended) would be recorded as a failure",
                    "text": "cancellation of the run task (idle release / shutdown abort) is not recorded as an outcome"})
        bad = ""
        for w, via in ob["writes"]:
            sites = [(ob["fn"], via)] if via is not None and enclosing_function(via) is ob["fn"] else []
            sites.append((enclosing_function(w), w))
            guarded = False
            for f, node in sites:
                if f is None:
                    continue
                cfg = CFG(f)
                nodes = cfg.nodes_of(enclosing_stmt(node))
                names = set()
                for n in nodes:
                    names |= _names_with_status(cfg, n)
                if not names or not nodes:
                    continue
                blocked = True
                for cur in TERMINAL:
                    env = dict(senv)
                    for nm, sub in names:
                        rec = Record("PersistentHandler", status=cur, idle_since=None, run_id="r")
                        env[nm] = [rec] if sub else rec
                    if any(_guard_allows(cfg, n, env) for n in nodes):
                        blocked = False
                guarded = guarded or blocked
            if not guarded:
                bad = bad or f"`{ast.unparse(w)[:70]}` is reachable when the stored status is already completed/failed/cancelled"
        out.append({"slot": f"observer-keeps-outcome:{name}", "ok": not bad, "reason": bad + " — a run that ended with its terminal event (cancel, timeout, step failure all raise in the run task) would be re-labelled",
                    "mod": ob["mod"], "fn": ob["fn"], "node": ob["fn"],
                    "text": "the observer writes its status only when no terminal status is stored (the outcome recorded from the terminal event is kept)"})
    return out


def _engine_publishes_failure(repo) -> tuple[bool, str]:
    for ref in (f"{CL}:_ControlLoopRunner.run", f"{CL}:control_loop", f"{STEPFN}:create_workflow_run_function.run_workflow"):
        if not repo.has_func(ref):
            continue
        m, fn = repo.func(ref)
        for t in [x for x in walk_shallow(fn) if isinstance(x, ast.Try)]:
            covers = any(isinstance(x, (ast.While, ast.Await)) for s in t.body for x in [s, *walk_shallow(s)])
            if not covers:
                continue
            for h in t.handlers:
                if _catches_all(h) not in ("all", "exception"):
                    continue
                for c in [x for s in h.body for x in ast.walk(s) if isinstance(x, ast.Call)]:
                    if last(call_name(c)) == "write_to_event_stream" and isinstance(parent(c), ast.Await) and c.args:
                        if "WorkflowFailedEvent" in ast.unparse(expand(c.args[0], enclosing_stmt(c))):
                            return True, ref
    return False, ""


def _start_sites(mods: list[Module]) -> list[tuple[Module, ast.AST, ast.Call, str]]:
    out = []
    for mod in mods:
        out.extend(_per_module("starts", mod, _start_sites_of))
    return out


def _start_sites_of(mod: Module) -> list[tuple[Module, ast.AST, ast.Call, str]]:
    out = []
    if ".run(" not in mod.src and ".run_workflow(" not in mod.src:
        return out
    for c in ast.walk(mod.tree):
        if not (isinstance(c, ast.Call) and isinstance(c.func, ast.Attribute)):
            continue
        fn = enclosing_function(c)
        if fn is None:
            continue
        if c.func.attr == "run" and any(k.arg == "run_id" for k in c.keywords):
            out.append((mod, fn, c, "workflow.run"))
        elif c.func.attr == "run_workflow" and fn.name != "run_workflow" and not (isinstance(c.func.value, ast.Call) and call_name(c.func.value) == "super"):
            out.append((mod, fn, c, "runtime.run_workflow"))
    return out


def _r2_eval(repo) -> tuple[list[dict], list[dict]]:
    """Judge every run-start site of the server package on the given tree; second value: obligations on the
    observers that were used to discharge sites."""
    server_mods = [m for m in repo.by_rel.values() if m.name.startswith(SERVER_PKG)]
    sr = repo.module(SR)
    senv = _store_env(repo)
    observers = _observers([m for m in repo.by_rel.values() if m.name.startswith(SCOPE)])
    engine_ok, engine_where = _engine_publishes_failure(repo)
    quality: list[dict] = []
    # choke point: ServerRuntimeDecorator.run_workflow
    choke_ok, choke_reason = False, "ServerRuntimeDecorator.run_workflow only forwards; it attaches no completion observer"
    rw = sr.functions.get("ServerRuntimeDecorator.run_workflow")
    if rw is not None and not engine_ok:
        inner = [c for c in walk_shallow(rw) if isinstance(c, ast.Call) and isinstance(c.func, ast.Attribute) and c.func.attr == "run_workflow"]
        for c in inner:
            ok, why, used = _attached_after(rw, c, observers)
            if ok:
                choke_ok = True
                quality += _observer_quality(senv, rw, sr, used, observers)
            else:
                choke_reason = "ServerRuntimeDecorator.run_workflow: " + why
    res = []
    for mod, fn, c, kind in _start_sites(server_mods):
        ok, how, reason = False, "", ""
        if engine_ok:
            ok, how = True, f"engine publishes WorkflowFailedEvent from a catch-all in {engine_where}"
        elif kind == "workflow.run" and choke_ok:
            ok, how = True, "observer attached in ServerRuntimeDecorator.run_workflow (choke point of workflow.run)"
        else:
            ok, why, used = _attached_after(fn, c, observers)
            how = "observer attached at the start site" if ok else ""
            reason = (why + "; " + choke_reason) if kind == "workflow.run" else why
            if ok:
                quality += _observer_quality(senv, fn, mod, used, observers)
        res.append({"mod": mod, "fn": fn, "call": c, "kind": kind, "ok": ok, "how": how, "reason": reason})
    uniq, seen = [], set()
    for q in quality:
        if q["slot"] not in seen:
            seen.add(q["slot"])
            uniq.append(q)
    return res, uniq


FIXTURE = VERIF / "fixtures" / "c15" / "server_runtime_observed.py"
# (name, old, new, observed?)  — textual variants of the planted fixture; each must be judged as stated
FIXTURE_VARIANTS = [
    ("as planted", None, None, True),
    ("observer only logs", "                await self._handle_status_update(run_id, \"failed\", error=str(e))\n\n    async def _mark_failed",
     "                logger.error(\"run %s failed: %s\", run_id, e)\n\n    async def _mark_failed", False),
    ("observer never attached", "        self._spawn_task(self._observe_completion(run_id, adapter))\n", "", False),
    ("observer catches one exception class only", "        except Exception as e:\n            found", "        except TimeoutError as e:\n            found", False),
    ("observer writes `running`", "await self._handle_status_update(run_id, \"failed\", error=str(e))\n\n    async def _mark_failed", "await self._handle_status_update(run_id, \"running\")\n\n    async def _mark_failed", False),
    ("observer attached on one path only", "        self._spawn_task(self._observe_completion(run_id, adapter))\n",
     "        if start_event is not None:\n            self._spawn_task(self._observe_completion(run_id, adapter))\n", False),
    ("status written on the success path only", "        except asyncio.CancelledError:\n            raise\n        except Exception as e:\n            found",
     "        except asyncio.CancelledError:\n            raise\n        else:\n            e = None\n            found", False),
    ("completion never awaited", "            await adapter.get_result()\n", "            adapter.get_result()\n", False),
    ("observer task not referenced", "self._spawn_task(self._observe_completion(run_id, adapter))", "asyncio.ensure_future(self._observe_completion(run_id, adapter))", False),
    ("observer task bound to a local only", "self._spawn_task(self._observe_completion(run_id, adapter))", "watcher = asyncio.create_task(self._observe_completion(run_id, adapter))", False),
    ("cancellation of the run task recorded as failure", "        except asyncio.CancelledError:\n            raise\n        except Exception as e:", "        except BaseException as e:", False),
    ("observer overwrites a recorded outcome", "            if found and not is_terminal_status(found[0].status):\n", "            if found:\n", False),
    ("observer guard tests the wrong polarity", "            if found and not is_terminal_status(found[0].status):\n", "            if found and is_terminal_status(found[0].status):\n", False),
    ("benign: task kept in the set directly", "self._spawn_task(self._observe_completion(run_id, adapter))", "self._observers.add(asyncio.ensure_future(self._observe_completion(run_id, adapter)))", True),
    ("benign: task local then stored", "        self._spawn_task(self._observe_completion(run_id, adapter))\n",
     "        watcher = asyncio.create_task(self._observe_completion(run_id, adapter))\n        self._observers.add(watcher)\n        watcher.add_done_callback(self._observers.discard)\n", True),
    ("benign: BaseException after a CancelledError re-raise", "        except Exception as e:\n            found", "        except BaseException as e:\n            found", True),
    ("benign: guard by equality with running", "            if found and not is_terminal_status(found[0].status):\n", "            if found and found[0].status == \"running\":\n", True),
    ("benign: early return on a terminal status", "            if found and not is_terminal_status(found[0].status):\n                await self._handle_status_update(run_id, \"failed\", error=str(e))\n",
     "            if not found or is_terminal_status(found[0].status):\n                return\n            await self._handle_status_update(run_id, \"failed\", error=str(e))\n", True),
    ("benign: write through a helper", "                await self._handle_status_update(run_id, \"failed\", error=str(e))\n\n    async def _mark_failed",
     "                await self._mark_failed(run_id, e)\n\n    async def _mark_failed", True),
    ("benign: keyword status on the primitive", "await self._handle_status_update(run_id, \"failed\", error=str(e))\n\n    async def _mark_failed",
     "await self._store.update_handler_status(run_id, status=\"failed\", error=str(e))\n\n    async def _mark_failed", True),
    ("benign: observer wraps the start expression", "        self._spawn_task(self._observe_completion(run_id, adapter))\n        return adapter",
     "        return self._watch(adapter, self._spawn_task(self._observe_completion(run_id, adapter)))", True),
]


def _r2(chk, repo) -> None:
    res, quality = _r2_eval(repo)
    server_sites = [r for r in res]
    chk.floor("C15.R2", "run-start sites in the server package (`workflow.run(…, run_id=…)` / direct `run_workflow`)", len(server_sites), 3)
    for r in server_sites:
        q = qualname_of(r["fn"])
        chk.ob("C15.R2", f"the end of the run task started in {q} is observed by the server (a terminal status is written when the task ends without a terminal event)"
               + (f" — {r['how']}" if r["ok"] else ""), r["ok"], m=r["mod"], node=r["call"], fn=r["fn"], instance=f"run-start:{r['kind']}",
               reason="engine-side failures (a store/adapter call raising in process_command, a reducer error) end the run task with no terminal event and nothing reacts: "
                      + r["reason"] + " — the handler stays `running` (triage/t_c15.py::r2a)")
    for q in quality:
        chk.ob("C15.R2", q["text"], q["ok"], m=q["mod"], node=q["node"], fn=q["fn"], instance=q["slot"], reason=q["reason"])
    # DBOS resume path: not an obligation (cannot be exercised here), but say what was seen
    dbos = [s for s in _start_sites([m for m in repo.by_rel.values() if m.name.startswith("llama_agents.dbos")])]
    for mod, fn, c, kind in dbos:
        chk.observe(f"{mod.rel}:{c.lineno} {qualname_of(fn)} starts a run with `{ast.unparse(c.func)}` on the *inner* runtime; it does not pass through ServerRuntimeDecorator.run_workflow, "
                    "so an observer attached there would not cover DBOS-resumed runs. Not decided (dbos not installed; DBOS has its own workflow recovery).")
    # planted fixture: the recogniser must accept the planted observer and judge the variants as stated
    if not FIXTURE.is_file():
        raise AnchorError(f"C15.R2 fixture {FIXTURE} missing")
    base = FIXTURE.read_text()
    rel = repo.module(SR).rel
    judged = 0
    for name, old, new, want in FIXTURE_VARIANTS:
        src = base
        if old is not None:
            if old not in base:
                raise AnchorError(f"C15.R2 fixture variant `{name}`: anchor text not found in the fixture")
            src = base.replace(old, new, 1)
        try:
            fx = repo.with_overlay({rel: src})
        except SyntaxError as e:
            raise AnchorError(f"C15.R2 fixture variant `{name}` does not parse: {e}")
        fres, fq = _r2_eval(fx)
        got = [r for r in fres if r["kind"] == "workflow.run"]
        verdict = bool(got) and all(r["ok"] for r in got) and all(q["ok"] for q in fq)
        if not got or verdict != want or (not want and all(r["ok"] for r in got) and all(q["ok"] for q in fq)):
            raise AnchorError(f"C15.R2 checker self-test: fixture variant `{name}` should be judged {'correctly observed' if want else 'NOT correctly observed'}; "
                              f"sites {[r['ok'] for r in got]}, observer obligations {[(q['slot'], q['ok']) for q in fq]}")
        judged += 1
    chk.floor("C15.R2", "planted-observer fixture variants judged correctly (accepting and rejecting)", judged, len(FIXTURE_VARIANTS))


# --------------------------------------------------------------------------------------- R3
def _returned_component(e: ast.AST, i: int | None, callee: ast.AST, depth: int = 4) -> set[str]:
    """May-set of the literal values of component `i` of a returned expression (i=None: of the expression itself).
    A returned None contributes nothing (the caller's unpacking is not reached with it); a conditional expression
    contributes both arms; a local contributes every value assigned to it anywhere in the helper (flow-insensitive,
    so an over-approximation). Anything else cannot be resolved: AnchorError."""
    if isinstance(e, ast.Constant):
        if e.value is None:  # no tuple / no status: nothing is written with it
            return set()
        if i is None and isinstance(e.value, str):
            return {e.value}
    elif isinstance(e, ast.IfExp):
        return _returned_component(e.body, i, callee, depth) | _returned_component(e.orelse, i, callee, depth)
    elif isinstance(e, ast.Tuple) and i is not None and len(e.elts) > i and not any(isinstance(x, ast.Starred) for x in e.elts):
        return _returned_component(e.elts[i], None, callee, depth)
    elif isinstance(e, ast.Name) and depth > 0 and e.id not in _params(callee):
        defs = [s for s in walk_shallow(callee) if isinstance(s, (ast.Assign, ast.AnnAssign, ast.AugAssign, ast.For, ast.AsyncFor, ast.With, ast.AsyncWith, ast.NamedExpr, ast.ExceptHandler))
                and e.id in _binds(s)]
        plain = [s for s in defs if (isinstance(s, ast.Assign) and len(s.targets) == 1 and isinstance(s.targets[0], ast.Name))
                 or (isinstance(s, ast.AnnAssign) and isinstance(s.target, ast.Name) and s.value is not None)]
        if defs and len(plain) == len(defs):
            out: set[str] = set()
            for s in plain:
                out |= _returned_component(s.value, i, callee, depth - 1)
            return out
    raise AnchorError(f"C15.R3: cannot resolve the status returned by `{callee.name}`: `{ast.unparse(e)[:60]}`")


def _binds(s: ast.AST) -> set[str]:
    if isinstance(s, ast.ExceptHandler):
        return {s.name} if s.name else set()
    tgts: list[ast.AST] = []
    if isinstance(s, ast.Assign):
        tgts = list(s.targets)
    elif isinstance(s, (ast.AnnAssign, ast.AugAssign, ast.NamedExpr, ast.For, ast.AsyncFor)):
        tgts = [s.target]
    elif isinstance(s, (ast.With, ast.AsyncWith)):
        tgts = [w.optional_vars for w in s.items if w.optional_vars is not None]
    return {n.id for t in tgts for n in ast.walk(t) if isinstance(n, ast.Name)}


def _status_values(expr: ast.AST, site: ast.AST, mod: Module, repo) -> set[str]:
    if isinstance(expr, ast.Constant):
        return {expr.value} if isinstance(expr.value, str) else set()
    if isinstance(expr, ast.Name):
        fn = _enclosing_def(site)
        if fn is not None and expr.id in _params(fn):
            return {FORWARD}
        # tuple unpacking from a helper that returns (status, ...)
        if fn is not None:
            for s in ast.walk(fn):
                if isinstance(s, ast.Assign) and len(s.targets) == 1 and isinstance(s.targets[0], ast.Tuple):
                    names = [e.id if isinstance(e, ast.Name) else None for e in s.targets[0].elts]
                    if expr.id in names:
                        i = names.index(expr.id)
                        src = expand(s.value, s)
                        vals: set[str] = set()
                        resolved = False
                        for c in [x for x in ast.walk(src) if isinstance(x, ast.Call)]:
                            callee = mod.functions.get(last(call_name(c)) or "")
                            if callee is None:
                                continue
                            resolved = True
                            for r in [x for x in walk_shallow(callee) if isinstance(x, ast.Return)]:
                                if r.value is not None:
                                    vals |= _returned_component(r.value, i, callee)
                        if resolved:
                            return vals
    raise AnchorError(f"C15.R3: cannot resolve the status value `{ast.unparse(expr)[:60]}` at {mod.rel}:{getattr(site, 'lineno', '?')}")


def _status_sites(repo) -> list[dict]:
    sites = []
    for mod in _scope_mods(repo):
        uses_store = mod.name == STORE or any("abstract_workflow_store" in v for v in mod.imports.values())
        for n in ast.walk(mod.tree):
            if isinstance(n, ast.Call):
                name = last(call_name(n))
                if name in STATUS_CALLS:
                    sv = _status_arg(n)
                    if sv is None or (isinstance(sv, ast.Constant) and sv.value is None):
                        continue
                    sites.append({"mod": mod, "node": n, "kind": name, "values": _status_values(sv, n, mod, repo)})
                elif name == "PersistentHandler":
                    sv = kwarg(n, "status")
                    if isinstance(sv, ast.Constant) and isinstance(sv.value, str):
                        sites.append({"mod": mod, "node": n, "kind": "create-record", "values": {sv.value}})
            elif isinstance(n, ast.Assign) and uses_store and len(n.targets) == 1 and isinstance(n.targets[0], ast.Attribute) and n.targets[0].attr == "status":
                if isinstance(n.value, ast.Constant) and n.value.value in STATUSES or isinstance(n.value, ast.Name):
                    sites.append({"mod": mod, "node": n, "kind": "attr-status", "values": _status_values(n.value, n, mod, repo)})
    return sites


def _r3(chk, repo, anc, senv) -> None:
    sites = _status_sites(repo)
    chk.floor("C15.R3", "status-writing sites classified (server / dbos / agentcore packages)", len(sites), 8)
    running = [s for s in sites if "running" in s["values"]]
    chk.floor("C15.R3", "sites that can store status `running`", len(running), 1)
    chk.extra["status_sites"] = [{"at": f"{s['mod'].rel}:{s['node'].lineno}", "kind": s["kind"], "values": sorted(s["values"])} for s in sites]

    # does the primitive refuse terminal -> running ?
    mp, prim = _primitive(repo)
    pcfg = CFG(prim)
    st_assign = [s for s in walk_shallow(prim) if isinstance(s, ast.Assign) and isinstance(s.targets[0], ast.Attribute) and s.targets[0].attr == "status"]
    prim_refuses = bool(st_assign)
    for s in st_assign:
        for n in pcfg.nodes_of(s):
            for cur in TERMINAL:
                if _guard_allows(pcfg, n, _prim_env(senv, prim, s, cur, "running")):
                    prim_refuses = False
    chk.extra["primitive_refuses_terminal_to_running"] = prim_refuses

    # support for form (c): the control loop awaits every publication
    mc, pc = repo.func(f"{CL}:_ControlLoopRunner.process_command")
    pubs = [c for c in ast.walk(pc) if isinstance(c, ast.Call) and last(call_name(c)) == "write_to_event_stream"]
    chk.floor("C15.R3", "publications in process_command", len(pubs), 1)
    loop_awaits = all(isinstance(parent(c), ast.Await) for c in pubs)
    chk.ob("C15.R3", "the control loop awaits each stream publication (so a reaction to a pre-terminal event finishes before the terminal event is published)", loop_awaits,
           m=mc, node=pubs[0], fn=pc, instance="loop-awaits-publication", reason="write_to_event_stream is not awaited in process_command")

    for s in running:
        mod, node = s["mod"], s["node"]
        fn = _enclosing_def(node)
        if fn is None:
            raise AnchorError(f"C15.R3: `running` written at module level in {mod.rel}")
        cfg = CFG(fn)
        how = ""
        # (a) creation of the record of a new run
        if s["kind"] == "create-record" and kwarg(node, "run_id") is not None:
            how = "creation of the record of a new run id (ordering: R5)"
        # primitive refuses
        if not how and s["kind"] in STATUS_CALLS and prim_refuses:
            how = "update_handler_status refuses terminal -> running"
        # (b) guarded against a terminal stored status
        if not how:
            st = enclosing_stmt(node)
            nodes = cfg.nodes_of(st)
            names = set()
            for n in nodes:
                names |= _names_with_status(cfg, n)
            if names and nodes:
                blocked_all = True
                for cur in TERMINAL:
                    env = dict(senv)
                    for nm, sub in names:
                        rec = Record("PersistentHandler", status=cur, idle_since=None, run_id="r")
                        env[nm] = [rec] if sub else rec
                    if any(_guard_allows(cfg, n, env) for n in nodes):
                        blocked_all = False
                if blocked_all:
                    how = "unreachable when the stored status is completed/failed/cancelled (guards evaluated for the 3 terminal statuses)"
        # (c) awaited reaction to a non-terminal stream event inside an internal adapter
        if not how and fn.name == "write_to_event_stream" and isinstance(parent(node), ast.Await):
            cls = enclosing_class(fn)
            is_internal = cls is not None and any(r.endswith(":InternalRunAdapter") for r in repo.mro_names(f"{mod.name}:{cls.name}"))
            ev = _params(fn)[1] if len(_params(fn)) > 1 else None
            if is_internal and ev:
                # the event classes for which the write is reachable: every dominating guard (either polarity, early return or
                # nested if, the test possibly held in a local) evaluated per class. The reaction must be specific to named
                # engine event classes: an arbitrary user event must not reach it, nor any StopEvent-family class.
                nodes = cfg.nodes_of(enclosing_stmt(node))
                reach = {k for k in anc if any(_reaches(cfg, n, ev, anc, k, []) for n in nodes)}
                classes = [k for k in reach if not k.startswith("<")] if "<user Event subclass>" not in reach else []
                if classes and not any(_isa(anc, k, "StopEvent") for k in reach):
                    how = f"awaited reaction of an internal adapter to the non-terminal stream event(s) {sorted(set(classes))}, which precede the terminal event (C04) and are published awaited"
        chk.ob("C15.R3", f"a stored terminal status cannot be overwritten with `running` here ({s['kind']})" + (f" — {how}" if how else ""), bool(how), m=mod, node=node, fn=fn,
               instance=f"running-writer:{s['kind']}",
               reason="status `running` is written without looking at the stored status: neither a creation, nor guarded by a non-terminal check, nor the reaction to a pre-terminal stream event, "
                      "and update_handler_status accepts terminal -> running")
    # RMW observation
    awaits = [a for a in walk_shallow(prim) if isinstance(a, ast.Await)]
    chk.observe(f"update_handler_status is a read-modify-write of the whole record across {len(awaits)} awaits (query … update); callers that change only idle_since (send_event, reload) write back the status they read. "
                "With stores whose query/update really suspend (Postgres) a terminal write that lands in between is overwritten by the stale status. Not decided here (store concurrency), reported as an observation.")
    chk.observe("start_workflow with the id of an existing (terminal) handler creates the record of a *new* run under that id (`_context_from_handler_id` continuation); the old terminal record is replaced by design, "
                "so the creation site is treated as a creation, not as a terminal -> running transition.")


# --------------------------------------------------------------------------------------- R4
def _r4(chk, repo) -> None:
    m, fn = repo.func(f"{SR}:ServerRuntimeDecorator._retry_store_write")
    ps = _params(fn)
    if len(ps) < 2:
        raise AnchorError("_retry_store_write has no write-factory parameter")
    selfname, cb = ps[0], ps[1]
    m2, init = repo.func(f"{SR}:ServerRuntimeDecorator.__init__")
    # the attribute that holds the configured back-offs: the one derived from the `persistence_backoff` parameter
    field = None
    for s in walk_shallow(init):
        if isinstance(s, ast.Assign) and isinstance(s.targets[0], ast.Attribute) and "persistence_backoff" in ast.unparse(s.value):
            field = s.targets[0].attr
    if field is None:
        raise AnchorError("ServerRuntimeDecorator.__init__ does not store persistence_backoff")
    cases = 0
    bad: dict[str, str] = {}
    for blen in range(0, 4):
        backoffs = [0.5 * (i + 1) for i in range(blen)]
        for fails in range(0, blen + 3):
            for second in (False, True):  # the second invocation on the same object must behave the same
                me = Record("ServerRuntimeDecorator", **{field: list(backoffs)})
                outcome = None
                for _round in range(2 if second else 1):
                    attempts = [0]
                    sleeps: list = []

                    def write(_a=attempts, _f=fails):
                        _a[0] += 1
                        if _a[0] > 25:
                            raise Raised("TooManyAttempts", "more than 25 attempts")
                        if _a[0] <= _f:
                            raise Raised("ConnectionError", f"store failure #{_a[0]}")
                        return None

                    hooks = {"asyncio.sleep": lambda d, _s=sleeps: _s.append(d), "logger.error": lambda *a, **k: None, "logger.warning": lambda *a, **k: None,
                             "logger.exception": lambda *a, **k: None, "logger.info": lambda *a, **k: None}
                    sim = Sim({}, hooks)
                    try:
                        sim.call_function(fn, {selfname: me, cb: write})
                        outcome = None
                    except Raised as r:
                        outcome = r.name
                    except Unsupported as e:
                        raise AnchorError(f"C15.R4: `_retry_store_write` uses a construct the interpreter does not model: {e}")
                cases += 1
                where = f"back-offs {backoffs}, {fails} consecutive failures" + (", second write on the same runtime" if second else "")
                want_attempts = min(fails, blen) + 1
                if attempts[0] != want_attempts:
                    bad.setdefault("attempts", f"{where}: {attempts[0]} attempts, expected {want_attempts}")
                if sleeps != backoffs[: min(fails, blen)]:
                    bad.setdefault("sleeps", f"{where}: slept {sleeps}, expected {backoffs[:min(fails, blen)]}")
                if fails > blen and outcome != "ConnectionError":
                    bad.setdefault("reraise", f"{where}: after the final attempt the helper {'returns normally' if outcome is None else 'raises ' + outcome} instead of re-raising the store error")
                if fails <= blen and outcome is not None:
                    bad.setdefault("returns", f"{where}: the write eventually succeeded but the helper raises {outcome}")
                if getattr(me, field) != backoffs:
                    bad.setdefault("config-kept", f"{where}: the configured back-off list was consumed ({getattr(me, field)}): later writes get fewer retries")
    chk.exhaustive = True
    chk.extra["retry_enumeration"] = {"cases": cases}
    chk.floor("C15.R4", "interpreted (back-off list, failure count) cases", cases, 30)
    texts = {
        "attempts": "the write is attempted exactly min(failures, len(back-offs)) + 1 times (each retry calls the write factory again)",
        "sleeps": "between attempts the helper sleeps exactly the configured back-offs, in order",
        "reraise": "after the final attempt the store error is re-raised (not swallowed)",
        "returns": "a write that succeeds within the retries returns normally",
        "config-kept": "the configured back-off list is not consumed by a write",
    }
    for slot, text in texts.items():
        chk.ob("C15.R4", f"{text} [{cases} interpreted cases]", slot not in bad, m=m, node=fn, fn=fn, instance=f"retry:{slot}", reason=bad.get(slot, ""))


# --------------------------------------------------------------------------------------- R5
def _r5(chk, repo) -> None:
    ms, sw = repo.func(f"{SVC}:_WorkflowService.start_workflow")
    cfg = CFG(sw)
    creates = [c for c in calls_named(sw, "run_workflow_handler")]
    runs = [c for c in ast.walk(sw) if isinstance(c, ast.Call) and isinstance(c.func, ast.Attribute) and c.func.attr == "run" and any(k.arg == "run_id" for k in c.keywords)]
    chk.floor("C15.R5", "run starts in start_workflow", len(runs), 1)
    chk.floor("C15.R5", "record creations in start_workflow", len(creates), 1)
    cnodes = [n for c in creates for n in cfg.nodes_of(enclosing_stmt(c)) if isinstance(parent(c), ast.Await)]
    for r in runs:
        rn = cfg.nodes_of(enclosing_stmt(r))
        off = cfg.must_pass([cfg.entry], rn, cnodes) if cnodes else rn
        rid = kwarg(r, "run_id")
        same = any(isinstance(rid, ast.Name) and any(isinstance(a, ast.Name) and a.id == rid.id for a in list(c.args) + [k.value for k in c.keywords]) for c in creates)
        ok = not off and same
        reason = "the run can be started before (or without) the awaited creation of its handler record: a fast run's terminal update finds no row and is skipped, the later creation says `running`" if off else (
            "" if same else "the record is created for a different run id than the run is started with")
        chk.ob("C15.R5", "the handler record is created (awaited) before the run is started, for the same run id", ok, m=ms, node=r, fn=sw, instance="create-before-run", reason=reason)
    mc, rwh = repo.func(f"{SR}:ServerRuntimeDecorator.run_workflow_handler")
    recs = [c for c in ast.walk(rwh) if isinstance(c, ast.Call) and last(call_name(c)) == "PersistentHandler"]
    chk.floor("C15.R5", "record constructions in run_workflow_handler", len(recs), 1)
    for c in recs:
        retry = [a for a in ancestors(c) if isinstance(a, ast.Call) and last(call_name(a)) == "_retry_store_write"]
        upd = [a for a in ancestors(c) if isinstance(a, ast.Call) and last(call_name(a)) == "update"]
        ok = bool(retry) and bool(upd) and isinstance(parent(retry[0]), ast.Await)
        rid = kwarg(c, "run_id")
        ok_id = isinstance(rid, ast.Name) and rid.id in _params(rwh)
        chk.ob("C15.R5", "run_workflow_handler persists the new record through the awaited retry wrapper, with the caller's run id", ok and ok_id, m=mc, node=c, fn=rwh, instance="creation-persisted",
               reason="record is not written via `await self._retry_store_write(lambda: self._store.update(...))`" if not ok else "run_id of the record is not the parameter")


# ======================================================================================= twins
_SR = "packages/llama-agents-server/src/llama_agents/server/_runtime/server_runtime.py"
_SV = "packages/llama-agents-server/src/llama_agents/server/_service.py"
_ST = "packages/llama-agents-server/src/llama_agents/server/_store/abstract_workflow_store.py"
_ID = "packages/llama-agents-server/src/llama_agents/server/_runtime/idle_release_runtime.py"
_DB = "packages/llama-agents-dbos/src/llama_agents/dbos/idle_release.py"
_PR = "packages/llama-agents-server/src/llama_agents/server/_runtime/persistence_runtime.py"
_IDLE_WRITE_OLD = ("        if isinstance(event, WorkflowIdleEvent):\n            idle_since = datetime.now(timezone.utc)\n            await self._store.update_handler_status(\n"
                   "                self.run_id, status=\"running\", idle_since=idle_since\n            )\n            self._marked_idle = True\n        await super().write_to_event_stream(event)\n"
                   "        if isinstance(event, WorkflowIdleEvent):\n    ")
_PRIM_TAIL = "        if not isinstance(idle_since, _Unset):\n            handler.idle_since = idle_since\n        await self.update(handler)\n"
_PRIM_FIELDS_OLD = ("        if status is not None:\n            handler.status = status\n        handler.updated_at = now\n        if status in (\"completed\", \"failed\", \"cancelled\"):\n"
                    "            handler.completed_at = now\n        if result is not None:\n            handler.result = result\n        if error is not None:\n            handler.error = error\n" + _PRIM_TAIL)
_PRIM_HELPER_HEAD = "\n    @staticmethod\n    def _apply_status_fields(handler, now, status, result, error) -> None:\n"
_CLP = "packages/llama-index-workflows/src/workflows/runtime/control_loop.py"
TWINS = [
    # ---- R1 breaking
    Twin("generic StopEvent branch tested before the cancelled branch (shadows it)", _SR,
         "                elif isinstance(event, WorkflowCancelledEvent):\n                    await self._runtime._handle_status_update(\n                        run_id=self.run_id, status=\"cancelled\"\n                    )\n"
         "                elif isinstance(event, StopEvent):\n                    await self._runtime._handle_status_update(\n                        run_id=self.run_id,\n                        status=\"completed\",\n                        result=event,\n                    )\n",
         "                elif isinstance(event, StopEvent):\n                    await self._runtime._handle_status_update(\n                        run_id=self.run_id,\n                        status=\"completed\",\n                        result=event,\n                    )\n"
         "                elif isinstance(event, WorkflowCancelledEvent):\n                    await self._runtime._handle_status_update(\n                        run_id=self.run_id, status=\"cancelled\"\n                    )\n", "C15.R1"),
    Twin("timeout branch tests the wrong class (timeouts recorded as completed)", _SR, "                elif isinstance(event, WorkflowTimedOutEvent):", "                elif isinstance(event, StartEvent):", "C15.R1"),
    Twin("cancelled recorded as failed", _SR, "                        run_id=self.run_id, status=\"cancelled\"", "                        run_id=self.run_id, status=\"failed\", error=\"cancelled\"", "C15.R1"),
    Twin("completed without the result", _SR, "                        status=\"completed\",\n                        result=event,", "                        status=\"completed\",", "C15.R1"),
    Twin("status write fire-and-forget", _SR, "                    await self._runtime._handle_status_update(\n                        run_id=self.run_id, status=\"cancelled\"\n                    )",
         "                    asyncio.ensure_future(self._runtime._handle_status_update(\n                        run_id=self.run_id, status=\"cancelled\"\n                    ))", "C15.R1"),
    Twin("exact-class test misses user StopEvent subclasses", _SR, "                elif isinstance(event, StopEvent):", "                elif type(event) is StopEvent:", "C15.R1"),
    Twin("forwarder drops the error", _SR, "run_id, status=status, result=result, error=error", "run_id, status=status, result=result, error=None", "C15.R1"),
    Twin("forwarder bypasses the retry wrapper", _SR, "        await self._retry_store_write(\n            lambda: self._store.update_handler_status(\n                run_id, status=status, result=result, error=error\n            )\n        )",
         "        await self._store.update_handler_status(\n            run_id, status=status, result=result, error=error\n        )", "C15.R1"),
    Twin("primitive skips the write-back unless idle_since is given", _ST, "        if not isinstance(idle_since, _Unset):\n            handler.idle_since = idle_since\n        await self.update(handler)",
         "        if not isinstance(idle_since, _Unset):\n            handler.idle_since = idle_since\n            await self.update(handler)", "C15.R1"),
    Twin("primitive status guard inverted (running -> terminal refused)", _ST, "        if status is not None:\n            handler.status = status", "        if status is not None and handler.status != \"running\":\n            handler.status = status", "C15.R1"),
    Twin("every event completes the handler", _SR, "                elif isinstance(event, StopEvent):", "                elif isinstance(event, (StopEvent, Event)):", "C15.R1"),
    # ---- R1 benign
    Twin("benign: generic branch first but excluding the cancelled class", _SR,
         "                elif isinstance(event, WorkflowCancelledEvent):\n                    await self._runtime._handle_status_update(\n                        run_id=self.run_id, status=\"cancelled\"\n                    )\n"
         "                elif isinstance(event, StopEvent):\n                    await self._runtime._handle_status_update(\n                        run_id=self.run_id,\n                        status=\"completed\",\n                        result=event,\n                    )\n",
         "                elif isinstance(event, StopEvent) and not isinstance(event, WorkflowCancelledEvent):\n                    await self._runtime._handle_status_update(\n                        run_id=self.run_id,\n                        status=\"completed\",\n                        result=event,\n                    )\n"
         "                elif isinstance(event, WorkflowCancelledEvent):\n                    await self._runtime._handle_status_update(\n                        run_id=self.run_id, status=\"cancelled\"\n                    )\n", None),
    Twin("benign: tuple form of isinstance", _SR, "                elif isinstance(event, WorkflowCancelledEvent):", "                elif isinstance(event, (WorkflowCancelledEvent,)):", None),
    Twin("benign: extracted replay guard", _SR, "            if not replaying:\n                if isinstance(event, WorkflowFailedEvent):", "            live = not replaying\n            if live:\n                if isinstance(event, WorkflowFailedEvent):", None),
    Twin("benign: reordered keywords in the forwarder", _SR, "run_id, status=status, result=result, error=error", "run_id,\n                status=status,\n                error=error,\n                result=result", None),
    Twin("benign: result through a local", _SR, "                    await self._runtime._handle_status_update(\n                        run_id=self.run_id,\n                        status=\"completed\",\n                        result=event,",
         "                    stop = event\n                    await self._runtime._handle_status_update(\n                        run_id=self.run_id,\n                        status=\"completed\",\n                        result=stop,", None),
    # ---- R3 breaking
    Twin("reload marks the handler running again", _ID, "        await self._store.update_handler_status(run_id, idle_since=None)\n        logger.info(", "        await self._store.update_handler_status(run_id, status=\"running\", idle_since=None)\n        logger.info(", "C15.R3"),
    Twin("idle mark moved after forwarding, not awaited", _ID, "            await self._store.update_handler_status(\n                self.run_id, status=\"running\", idle_since=idle_since\n            )",
         "            asyncio.ensure_future(self._store.update_handler_status(\n                self.run_id, status=\"running\", idle_since=idle_since\n            ))", "C15.R3"),
    Twin("running written for every event incl. terminal ones", _ID, "        if isinstance(event, WorkflowIdleEvent):\n            idle_since = datetime.now(timezone.utc)", "        if isinstance(event, Event):\n            idle_since = datetime.now(timezone.utc)", "C15.R3"),
    Twin("resume-on-start marks unresumable handlers running", _PR, "                        status=\"failed\",\n                        error=\"handler crashed before persisting any state; cannot resume\",", "                        status=\"running\",", "C15.R3"),
    Twin("control loop publishes without awaiting", _CLP, "            await self.adapter.write_to_event_stream(command.event)\n            return None", "            asyncio.ensure_future(self.adapter.write_to_event_stream(command.event))\n            return None", "C15.R3"),
    # ---- R3 benign
    Twin("benign: guarded running write", _ID, "        await self._store.update_handler_status(run_id, idle_since=None)\n        logger.info(",
         "        if not is_terminal_status(handler.status):\n            await self._store.update_handler_status(run_id, status=\"running\", idle_since=None)\n        logger.info(", None),
    Twin("benign: guarded by equality with running (early return)", _ID, "        await self._store.update_handler_status(run_id, idle_since=None)\n        logger.info(",
         "        if handler.status != \"running\":\n            return\n        await self._store.update_handler_status(run_id, status=\"running\", idle_since=None)\n        logger.info(", None),
    Twin("benign: primitive refuses terminal -> running (discharges every primitive caller)", _ST, "        if status is not None:\n            handler.status = status",
         "        if status is not None and not (status == \"running\" and is_terminal_status(handler.status)):\n            handler.status = status", None),
    # ---- shapes of behaviour-preserving refactorings (class test in a local, early return, flattened status helper, static field helper)
    Twin("benign: idle test held in a local", _ID, "        if isinstance(event, WorkflowIdleEvent):\n            idle_since = datetime.now(timezone.utc)",
         "        became_idle = isinstance(event, WorkflowIdleEvent)\n        if became_idle:\n            idle_since = datetime.now(timezone.utc)", None),
    Twin("benign: idle reaction behind an early return", _ID, _IDLE_WRITE_OLD,
         "        if not isinstance(event, WorkflowIdleEvent):\n            await super().write_to_event_stream(event)\n            return\n"
         "        idle_since = datetime.now(timezone.utc)\n        await self._store.update_handler_status(\n            self.run_id, status=\"running\", idle_since=idle_since\n        )\n"
         "        self._marked_idle = True\n        await super().write_to_event_stream(event)\n", None),
    Twin("class test in a local also matches terminal events", _ID, "        if isinstance(event, WorkflowIdleEvent):\n            idle_since = datetime.now(timezone.utc)",
         "        became_idle = isinstance(event, (WorkflowIdleEvent, StopEvent))\n        if became_idle:\n            idle_since = datetime.now(timezone.utc)", "C15.R3"),
    Twin("early return with the class test inverted (running written for everything but the idle event)", _ID, _IDLE_WRITE_OLD,
         "        if isinstance(event, WorkflowIdleEvent):\n            await super().write_to_event_stream(event)\n            return\n"
         "        idle_since = datetime.now(timezone.utc)\n        await self._store.update_handler_status(\n            self.run_id, status=\"running\", idle_since=idle_since\n        )\n"
         "        self._marked_idle = True\n        await super().write_to_event_stream(event)\n", "C15.R3"),
    Twin("benign: exit-command status helper flattened into a conditional expression", _PR, "        if isinstance(command.result, IdleReleasedEvent):\n            return None\n        return (\"completed\", command.result, None)",
         "        released_as_idle = isinstance(command.result, IdleReleasedEvent)\n        return None if released_as_idle else (\"completed\", command.result, None)", None),
    Twin("benign: exit-command status through a local", _PR, "        return (\"cancelled\", None, None)", "        outcome = \"cancelled\"\n        return (outcome, None, None)", None),
    Twin("flattened exit-command helper can yield running", _PR, "        return (\"completed\", command.result, None)",
         "        return (\"running\" if command.result is None else \"completed\", command.result, None)", "C15.R3"),
    Twin("benign: primitive's field assignments in a static helper", _ST, _PRIM_FIELDS_OLD,
         "        self._apply_status_fields(handler, now, status, result, error)\n" + _PRIM_TAIL + _PRIM_HELPER_HEAD +
         "        handler.updated_at = now\n        if status is not None:\n            handler.status = status\n            if status in (\"completed\", \"failed\", \"cancelled\"):\n                handler.completed_at = now\n"
         "        if result is not None:\n            handler.result = result\n        if error is not None:\n            handler.error = error\n", None),
    Twin("static field helper refuses running -> terminal", _ST, _PRIM_FIELDS_OLD,
         "        self._apply_status_fields(handler, now, status, result, error)\n" + _PRIM_TAIL + _PRIM_HELPER_HEAD +
         "        handler.updated_at = now\n        if status is not None and handler.status != \"running\":\n            handler.status = status\n"
         "        if result is not None:\n            handler.result = result\n        if error is not None:\n            handler.error = error\n", "C15.R1"),
    Twin("static field helper drops the error", _ST, _PRIM_FIELDS_OLD,
         "        self._apply_status_fields(handler, now, status, result, error)\n" + _PRIM_TAIL + _PRIM_HELPER_HEAD +
         "        handler.updated_at = now\n        if status is not None:\n            handler.status = status\n"
         "        if result is not None:\n            handler.result = result\n", "C15.R1"),
    # ---- R4 breaking
    Twin("shared back-off list consumed", _SR, "backoffs = list(self._persistence_backoff)", "backoffs = self._persistence_backoff", "C15.R4"),
    Twin("final failure swallowed", _SR, "                        exc_info=True,\n                    )\n                    raise", "                        exc_info=True,\n                    )\n                    return", "C15.R4"),
    Twin("one retry too few", _SR, "                backoff = backoffs.pop(0) if backoffs else None", "                backoff = backoffs.pop(0) if len(backoffs) > 1 else None", "C15.R4"),
    Twin("back-offs taken from the end", _SR, "backoffs.pop(0) if backoffs else None", "backoffs.pop() if backoffs else None", "C15.R4"),
    Twin("retry without sleeping", _SR, "                await asyncio.sleep(backoff)", "                await asyncio.sleep(0)", "C15.R4"),
    # ---- R4 benign
    Twin("benign: copy by slicing", _SR, "backoffs = list(self._persistence_backoff)", "backoffs = self._persistence_backoff[:]", None),
    Twin("benign: explicit emptiness test", _SR, "backoffs.pop(0) if backoffs else None", "backoffs.pop(0) if len(backoffs) > 0 else None", None),
    # ---- R5 breaking
    Twin("run started before the record exists", _SV,
         "            await self._runtime.run_workflow_handler(\n                handler_id, workflow.workflow_name, run_id\n            )\n            _ = workflow.run(\n                ctx=context,\n                start_event=start_event,\n                run_id=run_id,\n            )",
         "            _ = workflow.run(\n                ctx=context,\n                start_event=start_event,\n                run_id=run_id,\n            )\n            await self._runtime.run_workflow_handler(\n                handler_id, workflow.workflow_name, run_id\n            )", "C15.R5"),
    Twin("record creation not awaited", _SV, "            await self._runtime.run_workflow_handler(\n                handler_id, workflow.workflow_name, run_id\n            )",
         "            asyncio.ensure_future(self._runtime.run_workflow_handler(\n                handler_id, workflow.workflow_name, run_id\n            ))", "C15.R5"),
    Twin("record created for another run id", _SV, "                handler_id, workflow.workflow_name, run_id\n            )\n            _ = workflow.run(", "                handler_id, workflow.workflow_name, nanoid()\n            )\n            _ = workflow.run(", "C15.R5"),
    Twin("creation bypasses the retry wrapper", _SR, "        await self._retry_store_write(\n            lambda: self._store.update(\n                PersistentHandler(", "        await self._store.update(\n            (\n                PersistentHandler(", "C15.R5"),
    # ---- R5 / R2 benign
    Twin("benign: handler kept in a local", _SV, "            _ = workflow.run(", "            started = workflow.run(", None),
    Twin("benign: run id local renamed", _SV,
         "            run_id = nanoid()\n            await self._runtime.run_workflow_handler(\n                handler_id, workflow.workflow_name, run_id\n            )\n            _ = workflow.run(\n                ctx=context,\n                start_event=start_event,\n                run_id=run_id,\n            )",
         "            rid = nanoid()\n            await self._runtime.run_workflow_handler(\n                handler_id, workflow.workflow_name, rid\n            )\n            _ = workflow.run(\n                ctx=context,\n                start_event=start_event,\n                run_id=rid,\n            )", None),
    # ---- R2 (repaired shape: ServerRuntimeDecorator.run_workflow spawns _observe_completion)
    Twin("pre-fix shape: run_workflow only forwards, no observer (revert of de3d8e7)", _SR,
         "        task = asyncio.create_task(self._observe_completion(run_id, adapter))\n        self._completion_observers.add(task)\n        task.add_done_callback(self._completion_observers.discard)\n        return adapter",
         "        return adapter", "C15.R2"),
    Twin("observer swallows the failure instead of recording it", _SR, "                    await self._handle_status_update(run_id, \"failed\", error=str(e))",
         "                    logger.error(\"run %s ended with %s\", run_id, e)", "C15.R2"),
    Twin("observer writes failed over a recorded outcome", _SR, "                if found and not is_terminal_status(found[0].status):", "                if found:", "C15.R2"),
    Twin("observer guard inverted", _SR, "                if found and not is_terminal_status(found[0].status):", "                if found and is_terminal_status(found[0].status):", "C15.R2"),
    Twin("observer task not kept", _SR, "        self._completion_observers.add(task)\n        task.add_done_callback(self._completion_observers.discard)\n", "", "C15.R2"),
    Twin("completion not awaited", _SR, "            await adapter.get_result()\n", "            adapter.get_result()\n", "C15.R2"),
    Twin("cancellation of the run task recorded as failure", _SR, "        except asyncio.CancelledError:\n            raise\n        except Exception as e:\n            try:\n                found",
         "        except BaseException as e:\n            try:\n                found", "C15.R2"),
    Twin("observer attached for fresh starts only", _SR,
         "        task = asyncio.create_task(self._observe_completion(run_id, adapter))\n        self._completion_observers.add(task)\n        task.add_done_callback(self._completion_observers.discard)\n",
         "        if start_event is not None:\n            task = asyncio.create_task(self._observe_completion(run_id, adapter))\n            self._completion_observers.add(task)\n            task.add_done_callback(self._completion_observers.discard)\n", "C15.R2"),
    Twin("observer handles one exception class only", _SR, "        except Exception as e:\n            try:\n                found", "        except ConnectionError as e:\n            try:\n                found", "C15.R2"),
    Twin("observer marks the handler running", _SR, "                    await self._handle_status_update(run_id, \"failed\", error=str(e))", "                    await self._handle_status_update(run_id, \"running\")", "C15.R2"),
    Twin("direct start on the inner runtime bypasses the choke point", _ID, "        workflow.run(ctx=context, run_id=run_id)\n        self._active_run_ids.add(run_id)",
         "        self._decorated.run_workflow(run_id, workflow, None)\n        self._active_run_ids.add(run_id)", "C15.R2"),
    Twin("benign: a further workflow.run start is covered by the choke point", _ID, "    async def _ensure_active_run(self, run_id: str) -> None:\n        if run_id in self._active_run_ids:\n            return",
         "    async def _ensure_active_run(self, run_id: str) -> None:\n        if run_id in self._active_run_ids:\n            return\n        if run_id.startswith(\"warm-\"):\n            self._persistence.get_tracked_workflow(run_id).run(run_id=run_id)\n            return", None),
    Twin("benign: observer spawned through a helper that keeps the task", _SR,
         "        task = asyncio.create_task(self._observe_completion(run_id, adapter))\n        self._completion_observers.add(task)\n        task.add_done_callback(self._completion_observers.discard)\n        return adapter\n",
         "        self._spawn_observer(self._observe_completion(run_id, adapter))\n        return adapter\n\n    def _spawn_observer(self, coro):\n        task = asyncio.create_task(coro)\n        self._completion_observers.add(task)\n"
         "        task.add_done_callback(self._completion_observers.discard)\n        return task\n", None),
    Twin("benign: observer guard by equality with running", _SR, "                if found and not is_terminal_status(found[0].status):", "                if found and found[0].status == \"running\":", None),
    Twin("benign: BaseException after the CancelledError re-raise", _SR, "        except Exception as e:\n            try:\n                found", "        except BaseException as e:\n            try:\n                found", None),
    Twin("benign: early return on a terminal status", _SR,
         "                if found and not is_terminal_status(found[0].status):\n                    await self._handle_status_update(run_id, \"failed\", error=str(e))",
         "                if not found or is_terminal_status(found[0].status):\n                    return\n                await self._handle_status_update(run_id, \"failed\", error=str(e))", None),
    # ---- R3: pre-fix shapes of 48dd9ef must be detected
    Twin("pre-fix shape: release marker forces status running (revert of 48dd9ef, part 1)", _DB, "                run_id, idle_since=datetime.now(timezone.utc)",
         "                run_id, status=\"running\", idle_since=datetime.now(timezone.utc)", "C15.R3"),
    Twin("pre-fix shape: resume writes back a stale snapshot with status running (revert of 48dd9ef, part 2)", _DB,
         "        await self._store.update_handler_status(run_id, idle_since=None)\n\n        logger.info(f\"Resumed DBOS",
         "        handler.status = \"running\"\n        handler.updated_at = datetime.now(timezone.utc)\n        handler.idle_since = None\n        await self._store.update(handler)\n\n        logger.info(f\"Resumed DBOS", "C15.R3"),
    Twin("benign: on-demand await stays on-demand", _SV, "        try:\n            await run\n        except Exception:\n            logger.error(", "        try:\n            await run.stop_event_result()\n        except Exception:\n            logger.error(", None),
    Twin("benign: log-only catch-all in the engine does not count as observation", _CLP,
         "        finally:\n            # Cancel pull task if running", "        except Exception:\n            logger.exception(\"control loop failed\")\n            raise\n        finally:\n            # Cancel pull task if running", None),
]
