"""C31 — timeout and cancellation stop the run cleanly and keep it resumable.

Decided: (R1) timers are serviced on every iteration of the runner's main loop: the statement that
moves due ticks out of the wake-up heap lies on every path around the loop, not only on the
branch taken when nothing else completed (a run whose steps keep completing must still time out);
(R2) the workflow timeout is scheduled at start + timeout before the loop whenever one is
configured, and the timeout reducer names the steps active in the *incoming* state and pairs
WorkflowTimedOutEvent with CommandHalt(WorkflowTimeoutError); (R3) cancellation leaves the run
state untouched (serializable, resumable) and pairs WorkflowCancelledEvent with
CommandHalt(WorkflowCancelledByUser); an exit command cancels pending and running workers before
the exception leaves; cancel_run sends exactly a TickCancelRun; (R4) a run that completes returns
from inside the loop and nothing is processed afterwards.
Also (R1) heap discipline: the wake-up list holding the TickTimeout is changed only through heapq.
Not decided: wall-clock accuracy.
"""

from __future__ import annotations

import ast

from ..astx import attr_writes, call_name, enclosing_stmt, expand, kwarg, last
from ..cfg import CFG, exprs_in_node
from ..index import AnchorError, walk_shallow
from ..selftest import Twin
from ._engine import CL, CL_REL, RUNNER, command_constructions, param, published_event_class

EXPLANATION = __doc__.split("\n\n", 1)[1]
TECHNIQUE = 'static analysis: per-iteration dominance of timer servicing (back-edge), timeout scheduling def-use, cancel-reducer effect containment, cleanup structure'
TRUSTED = ["CPython ast", "asyncio task cancellation"]


def run(chk) -> None:
    repo = chk.repo
    from ._engine import engine_view
    chk.extra["helpers_inlined"] = engine_view(repo)
    # the workflow timeout is one entry of the wake-up heap: it fires on time only while [0] is the earliest entry
    from ._engine import heap_discipline
    heap_discipline(chk, "C31.R1")
    m = repo.module(CL)
    methods = repo.methods(RUNNER)
    rn = methods["run"]
    cfg = CFG(rn)

    # ---------------------------------------------------------------- R1 timers serviced every iteration
    main = [n for n in ast.walk(rn) if isinstance(n, ast.While) and isinstance(n.test, ast.Constant) and n.test.value is True]
    if not main:
        raise AnchorError("C31.R1: main `while True` loop not found in run()")
    loop = main[0]
    head = cfg.nodes_of(loop)[0]
    pops = [n for n in cfg.nodes if n.ast is not None and n.tag == "" and any(isinstance(x, ast.Call) and last(call_name(x)) == "pop_due_ticks" for x in exprs_in_node(n)) and any(n.ast is x for x in ast.walk(loop))]
    chk.floor("C31.R1", "pop_due_ticks sites inside the main loop", len(pops), 1)
    # a cycle head -> ... -> head that avoids every pop site?
    succs = [s for lab, s in cfg.succ[head] if lab == "T"]
    r = cfg.reach(succs, blocked=pops, labels_excluded=("exc", "cancel"))
    starve = head in r
    chk.ob("C31.R1", "every iteration of the main loop services due timers (pop_due_ticks dominates the back edge)", not starve, m=m, node=pops[0].ast, fn=rn, instance="timers:every-iteration",
           reason="an iteration in which a worker or pull task completed goes round the loop without popping due ticks: while steps keep completing, the workflow timeout and every delayed retry / waiter timeout starve",
           path=cfg.describe_path(cfg.path(succs[0], head, blocked=pops, labels_excluded=("exc", "cancel")))[:14] if starve and succs else [])
    for n in pops:
        # the due ticks reach the buffer
        st = n.ast
        feeds = isinstance(st, ast.For) and any(isinstance(c, ast.Call) and (call_name(c) or "") == "self.tick_buffer.append" and ast.unparse(c.args[0]) == ast.unparse(st.target) for c in ast.walk(st)) or \
            any(isinstance(c, ast.Call) and (call_name(c) or "") in ("self.tick_buffer.extend",) for c in ast.walk(st))
        chk.ob("C31.R1", "due ticks are moved into the tick buffer", bool(feeds), m=m, node=st, fn=rn, instance="timers:into-buffer", reason="popped ticks are not appended to tick_buffer")
        call = next(x for x in exprs_in_node(n) if isinstance(x, ast.Call) and last(call_name(x)) == "pop_due_ticks")
        fresh = call.args and "now" in ast.unparse(call.args[0])
        chk.ob("C31.R1", "due ticks are selected with the current time", bool(fresh), m=m, node=call, fn=rn, instance="timers:now", reason=f"pop_due_ticks({ast.unparse(call.args[0]) if call.args else ''})")
    # the wait is bounded by the next wake-up
    waits = [c for c in ast.walk(loop) if isinstance(c, ast.Call) and last(call_name(c)) == "wait_for_next_task"]
    chk.floor("C31.R1", "wait_for_next_task sites", len(waits), 1)
    for c in waits:
        t = c.args[2] if len(c.args) > 2 else kwarg(c, "timeout")
        e = expand(t, c, depth=1) if t is not None else None
        ok = e is not None and "next_wakeup_timeout" in ast.unparse(e)
        chk.ob("C31.R1", "the loop never sleeps past the next scheduled wake-up", ok, m=m, node=c, fn=rn, instance="timers:bounded-wait", reason=f"timeout={ast.unparse(t) if t is not None else None}")
    nw = methods.get("next_wakeup_timeout")
    if nw is None:
        raise AnchorError("C31.R1: next_wakeup_timeout not found")
    # evaluated from its AST on small heaps: None iff nothing is scheduled; otherwise max(0, earliest - now) — never negative, and
    # never None for an entry that is already due (None means "wait without a timeout")
    from ..absint import Interp, Raised, Record, Unsupported
    bad_nw = ""
    try:
        for heap_, now_, want_ in (([], 5.0, None), ([(10.0, 0, "t")], 4.0, 6.0), ([(10.0, 0, "t")], 10.0, 0), ([(10.0, 0, "t")], 12.5, 0),
                                   ([(3.0, 1, "a"), (7.0, 0, "b")], 1.0, 2.0), ([(3.0, 1, "a"), (7.0, 0, "b")], 5.0, 0)):
            got_ = Interp().call_function(nw, {"self": Record("_ControlLoopRunner", scheduled_wakeups=list(heap_)), param(nw, 1): now_})
            if not ((got_ is None and want_ is None) or (got_ is not None and want_ is not None and abs(got_ - want_) < 1e-9)):
                bad_nw = bad_nw or f"heap {heap_}, now {now_}: returns {got_!r}, expected {want_!r}"
    except (Unsupported, Raised) as e_:
        raise AnchorError(f"C31.R1: cannot evaluate next_wakeup_timeout: {e_}")
    chk.ob("C31.R1", "next_wakeup_timeout is the distance to the earliest heap entry (0 when it is already due, None only for an empty heap)", not bad_nw, m=m, node=nw, fn=nw, instance="timers:next-wakeup", reason=bad_nw)

    # ---------------------------------------------------------------- R2 timeout scheduled and reduced
    tt = [c for c in ast.walk(rn) if isinstance(c, ast.Call) and last(call_name(c)) == "schedule_tick" and c.args and isinstance(c.args[0], ast.Call) and last(call_name(c.args[0])) == "TickTimeout"]
    chk.floor("C31.R2", "TickTimeout scheduling sites", len(tt), 1)
    for c in tt:
        n = cfg.nodes_of(enclosing_stmt(c))[0]
        before_loop = n not in cfg.reach([head]) and head in cfg.reach([n])
        chk.ob("C31.R2", "the workflow timeout is scheduled before the main loop starts", before_loop, m=m, node=c, fn=rn, instance="timeout:scheduled-before-loop", reason="TickTimeout is scheduled inside/after the loop")
        at = kwarg(c, "at_time", 1)
        e = expand(at, c, depth=1) if at is not None else None
        ok = isinstance(e, ast.BinOp) and isinstance(e.op, ast.Add) and "_timeout" in ast.unparse(e) and any(ast.unparse(x) == "start" for x in (e.left, e.right))
        chk.ob("C31.R2", "the timeout fires at start + workflow timeout", ok, m=m, node=c, fn=rn, instance="timeout:at_time", reason=f"at_time={ast.unparse(e) if e is not None else None}")
        from ..astx import facts_at, has_fact
        f = facts_at(cfg, n, expand_locals=False)
        ok = has_fact(f, "self.workflow._timeout is not None") and ("start_with_timeout", True) in f
        extra = [a for a in f if a[0] not in ("start_with_timeout", "None is self.workflow._timeout")]
        chk.ob("C31.R2", "the timeout is scheduled whenever one is configured (and the caller asked for it)", ok and not extra, m=m, node=c, fn=rn, instance="timeout:when-configured", reason=f"guards {sorted(f)}")
        tk = c.args[0]
        chk.ob("C31.R2", "the tick carries the configured timeout", kwarg(tk, "timeout") is not None and "_timeout" in ast.unparse(kwarg(tk, "timeout")), m=m, node=tk, fn=rn, instance="timeout:payload", reason=ast.unparse(tk))
    mt = m.functions.get("_process_timeout_tick")
    if mt is None:
        raise AnchorError("C31.R2: _process_timeout_tick not found")
    ev = [c for c in ast.walk(mt) if isinstance(c, ast.Call) and last(call_name(c)) == "WorkflowTimedOutEvent"]
    chk.floor("C31.R2", "WorkflowTimedOutEvent constructions", len(ev), 1)
    for c in ev:
        a = kwarg(c, "active_steps")
        e = expand(a, c, depth=1) if a is not None else None
        ok = isinstance(e, ast.ListComp) and "in_progress" in ast.unparse(e) and ast.unparse(e.generators[0].iter).startswith(f"{param(mt, 1)}.workers")
        chk.ob("C31.R2", "active_steps names the steps with running invocations in the incoming state", bool(ok), m=m, node=c, fn=mt, instance="timeout:active-steps", reason=f"active_steps={ast.unparse(e) if e is not None else None}")
        if isinstance(e, ast.ListComp):
            from ..astx import atoms
            conds = set()
            for i in e.generators[0].ifs:
                conds |= set(atoms(i, True))
            okc = conds == {(f"{ast.unparse(e.generators[0].target.elts[1]) if isinstance(e.generators[0].target, ast.Tuple) else 'w'}.in_progress", True)}
            chk.ob("C31.R2", "a step counts as active exactly when it has in-progress work", okc, m=m, node=c, fn=mt, instance="timeout:active-predicate", reason=f"filter atoms {sorted(conds)}")
        t = kwarg(c, "timeout")
        chk.ob("C31.R2", "the event reports the configured timeout", t is not None and ast.unparse(t) == f"{param(mt, 0)}.timeout", m=m, node=c, fn=mt, instance="timeout:event-timeout", reason=f"timeout={ast.unparse(t) if t is not None else None}")
    halts = [c for c in ast.walk(mt) if isinstance(c, ast.Call) and last(call_name(c)) == "CommandHalt"]
    ok = any(isinstance(kwarg(c, "exception", 0), ast.Call) and last(call_name(kwarg(c, "exception", 0))) == "WorkflowTimeoutError" for c in halts)
    chk.ob("C31.R2", "the timeout halts the run with WorkflowTimeoutError", ok, m=m, node=mt, fn=mt, instance="timeout:halt", reason="no CommandHalt(WorkflowTimeoutError)")
    nr = [s for s in walk_shallow(mt) if isinstance(s, ast.Assign) and ast.unparse(s.targets[0]).endswith(".is_running") and ast.unparse(s.value) == "False"]
    chk.ob("C31.R2", "a timed-out run is marked not running", bool(nr), m=m, node=mt, fn=mt, instance="timeout:not-running", reason="is_running left True")

    # ---------------------------------------------------------------- R3 cancellation
    mc = m.functions.get("_process_cancel_run_tick")
    if mc is None:
        raise AnchorError("C31.R3: _process_cancel_run_tick not found")
    writes = [ast.unparse(n) for n in ast.walk(mc) if isinstance(n, ast.Attribute) and isinstance(n.ctx, (ast.Store, ast.Del))]
    from ..astx import MUTATORS
    local_lists = {s.targets[0].id for s in ast.walk(mc) if isinstance(s, ast.Assign) and isinstance(s.targets[0], ast.Name) and isinstance(s.value, (ast.List, ast.ListComp))} | \
                  {s.target.id for s in ast.walk(mc) if isinstance(s, ast.AnnAssign) and isinstance(s.target, ast.Name) and isinstance(s.value, (ast.List, ast.ListComp))}
    muts = [ast.unparse(c)[:40] for c in ast.walk(mc) if isinstance(c, ast.Call) and isinstance(c.func, ast.Attribute) and c.func.attr in MUTATORS and ast.unparse(c.func.value).split(".")[0].split("[")[0] not in local_lists]
    chk.ob("C31.R3", "cancellation leaves the run state untouched (queues, running work, collected events, waiters and the running flag stay resumable)", not writes and not muts, m=m, node=mc, fn=mc, instance="cancel:state-retained",
           reason=f"the cancel reducer modifies state: {writes + muts}")
    pubs = [published_event_class(c) for c in command_constructions(mc, "CommandPublishEvent")]
    hl = [c for c in command_constructions(mc, "CommandHalt")]
    ok = "WorkflowCancelledEvent" in pubs and any(isinstance(kwarg(c, "exception", 0), ast.Call) and last(call_name(kwarg(c, "exception", 0))) == "WorkflowCancelledByUser" for c in hl)
    chk.ob("C31.R3", "cancellation publishes WorkflowCancelledEvent and halts with WorkflowCancelledByUser", ok, m=m, node=mc, fn=mc, instance="cancel:pairing", reason=f"publishes {pubs}")
    cl = methods.get("cleanup_tasks")
    if cl is None:
        raise AnchorError("C31.R3: cleanup_tasks not found")
    txt = ast.unparse(cl)
    ok = "task.cancel()" in txt.replace(" ", "") or any(isinstance(c, ast.Call) and isinstance(c.func, ast.Attribute) and c.func.attr == "cancel" for c in ast.walk(cl))
    closes = any(isinstance(c, ast.Call) and isinstance(c.func, ast.Attribute) and c.func.attr == "close" and "coro" in ast.unparse(c.func.value) for c in ast.walk(cl))
    clears = {ast.unparse(c.func.value) for c in ast.walk(cl) if isinstance(c, ast.Call) and isinstance(c.func, ast.Attribute) and c.func.attr == "clear"}
    chk.ob("C31.R3", "cleanup cancels running worker tasks", ok, m=m, node=cl, fn=cl, instance="cleanup:cancels-running", reason="no task.cancel()")
    chk.ob("C31.R3", "cleanup closes worker coroutines that were never started", closes and "self._pending_workers" in clears, m=m, node=cl, fn=cl, instance="cleanup:closes-pending", reason="pending coroutines are not closed/cleared: a step could still start after the halt")
    mh, cr = repo.func("workflows.handler:WorkflowHandler.cancel_run")
    sends = [c for c in ast.walk(cr) if isinstance(c, ast.Call)]
    ok = any("TickCancelRun" in ast.unparse(c) or last(call_name(c)) in ("cancel", "cancel_run") for c in sends)
    chk.ob("C31.R3", "cancel_run asks the run to cancel (TickCancelRun via the adapter)", ok, m=mh, node=cr, fn=cr, instance="cancel:entry", reason="cancel_run does not reach adapter.cancel / TickCancelRun")

    # ---------------------------------------------------------------- R4 finishing first wins
    rets = [n for n in cfg.nodes if isinstance(n.ast, ast.Return) and n.tag == "" and n.ast.value is not None and any(n.ast is x for x in ast.walk(loop))]
    chk.floor("C31.R4", "result returns inside the main loop", len(rets), 1)
    for n in rets:
        from ..astx import facts_at, has_fact
        f = facts_at(cfg, n, expand_locals=False)
        ok = has_fact(f, "result is not None")
        chk.ob("C31.R4", "the loop returns as soon as a tick produced the final result", ok, m=m, node=n.ast, fn=rn, instance="finish:returns-immediately", reason=f"guards {sorted(f)[:4]}")
    fin = [h for t in ast.walk(rn) if isinstance(t, ast.Try) and t.finalbody for h in t.finalbody]
    ok = any("cleanup_tasks" in ast.unparse(h) for h in fin) and any("pull_task.cancel()" in ast.unparse(h) for h in fin)
    chk.ob("C31.R4", "leaving the loop cancels the pull task and the workers (nothing is processed afterwards)", ok, m=m, node=rn, fn=rn, instance="finish:finally-cleanup", reason="the finally block does not cancel the pull task and clean up workers")


_H = "packages/llama-index-workflows/src/workflows/handler.py"
TWINS = [
    Twin("due wake-up taken with list.pop(0) instead of heapq.heappop", CL_REL, "heapq.heappop(self.scheduled_wakeups)", "self.scheduled_wakeups.pop(0)", "C31.R1"),
    Twin("first wake-up deleted by index", CL_REL, "            _, _, tick = heapq.heappop(self.scheduled_wakeups)\n", "            _, _, tick = self.scheduled_wakeups[0]\n            del self.scheduled_wakeups[0]\n", "C31.R1"),
    Twin("benign: heap popped through a local alias", CL_REL, "            _, _, tick = heapq.heappop(self.scheduled_wakeups)\n", "            _heap = self.scheduled_wakeups\n            _, _, tick = heapq.heappop(_heap)\n", None),
    Twin("timeout relative to zero", CL_REL, "            timeout_time = start + self.workflow._timeout", "            timeout_time = self.workflow._timeout", "C31.R2"),
    Twin("timeout only when resuming", CL_REL, "        if start_with_timeout and self.workflow._timeout is not None:", "        if start_with_timeout and self.workflow._timeout is not None and start_event is not None:", "C31.R2"),
    Twin("active steps from queues", CL_REL, "        if len(worker_state.in_progress) > 0\n    ]", "        if len(worker_state.queue) > 0\n    ]", "C31.R2"),
    Twin("timeout keeps running flag", CL_REL, "    state = init.deepcopy()\n    state.is_running = False\n    active_steps = [", "    state = init.deepcopy()\n    active_steps = [", "C31.R2"),
    Twin("cancel clears queues", CL_REL, "    state = init.deepcopy()\n    # Retain running state for resumption.", "    state = init.deepcopy()\n    for w in state.workers.values():\n        w.queue.clear()\n    # Retain running state for resumption.", "C31.R3"),
    Twin("cancel marks stopped", CL_REL, "    state = init.deepcopy()\n    # Retain running state for resumption.", "    state = init.deepcopy()\n    state.is_running = False\n    # Retain running state for resumption.", "C31.R3"),
    Twin("pending coroutines survive halt", CL_REL, "        for p in self._pending_workers:\n            p.coro.close()\n        self._pending_workers.clear()\n", "", "C31.R3"),
    Twin("wait ignores wakeups", CL_REL, "                result = await self.adapter.wait_for_next_task(\n                    running, pending, timeout\n                )", "                result = await self.adapter.wait_for_next_task(\n                    running, pending, None\n                )", "C31.R1"),
    Twin("due ticks dropped", CL_REL, "                for due_tick in self.pop_due_ticks(now):\n                    self.tick_buffer.append(due_tick)", "                for due_tick in self.pop_due_ticks(now):\n                    pass", "C31.R1"),
    Twin("benign: timeout guard reordered", CL_REL, "        if start_with_timeout and self.workflow._timeout is not None:", "        if self.workflow._timeout is not None and start_with_timeout:", None),
]
