"""C02 — every emitted event reaches each accepting step exactly once.

Decided: the routing relation of the reducer (exact type, optional target, waiter precedence, no
duplicate enqueue per step), that no step output / queued command is dropped between "produced"
and "routed", that the dispatch tables are exhaustive, when UnhandledEvent is published, and that
senders hand exactly one add-event tick to the adapter.  Not decided: asyncio mailbox delivery,
what happens when the run ends first.
"""

from __future__ import annotations

import ast

from ..astx import atoms, call_name, calls_named, dotted, enclosing_stmt, expand, facts_at, has_fact, kwarg, last
from ..cfg import CFG, exprs_in_node
from ..index import AnchorError, parent, qualname_of, walk_shallow
from ..selftest import Twin
from ._engine import CL, CL_REL, COMMANDS, RESULTS, RUNNER, TICKS, branch_for, isinstance_dispatch, node_calls, nodes_calling, param, union_members

EXPLANATION = (
    "Routing relation of the pure reducer, decided on source shape for all schedules (the control loop folds the reducer "
    "sequentially): R1 normal routing enqueues an event to a step only under `type(event) in accepted_events` (exact type) and "
    "(no target or target == step); R2 at most one enqueue per step per tick and waiter-woken steps are skipped; R3 a step's "
    "returned Event (non-Stop) always becomes a CommandQueueEvent, and process_command always turns CommandQueueEvent into a "
    "buffered or scheduled TickAddEvent carrying the same event/step; R4 the isinstance dispatches over WorkflowTick, "
    "WorkflowCommand and StepFunctionResult are exhaustive in both directions and raise otherwise; R5 UnhandledEvent is published "
    "exactly under (not handled and not InputRequiredEvent) and `handled` is set wherever an enqueue happens; R6 both send_event "
    "implementations hand exactly one TickAddEvent(event=message, step_name=step) to the adapter, and the step wrapper awaits "
    "_finalize_step (which gathers those sends) on every normal path before returning. Not decided: asyncio delivery order."
)
TECHNIQUE = 'static analysis: CFG guard dominance over normalised predicates (routing relation), must-pass-through (no drop), exhaustiveness of isinstance dispatch vs union inventories'
TRUSTED = ["CPython ast", "asyncio.Queue delivers each put exactly once"]


def _loop_over_steps(fn: ast.AST) -> list[ast.For]:
    out = []
    for n in walk_shallow(fn):
        if isinstance(n, ast.For) and isinstance(n.iter, ast.Call) and call_name(n.iter) and call_name(n.iter).endswith("config.steps.items"):
            out.append(n)
    return sorted(out, key=lambda n: n.lineno)


def run(chk) -> None:
    repo = chk.repo
    from ._engine import engine_view
    chk.extra["helpers_inlined"] = engine_view(repo)
    m, fn = repo.func(f"{CL}:_process_add_event_tick")
    tick = param(fn, 0)
    cfg = CFG(fn)
    loops = _loop_over_steps(fn)
    chk.floor("C02.R1", "loops over state.config.steps.items()", len(loops), 1)

    # classify enqueue calls: normal routing passes the tick's own event
    enq = calls_named(fn, "_add_or_enqueue_event")
    normal, waiter = [], []
    for c in enq:
        ea = c.args[0] if c.args else None
        ev = kwarg(ea, "event", 0) if isinstance(ea, ast.Call) else None
        if ev is not None and ast.unparse(expand(ev, c, depth=2)) == f"{tick}.event":
            normal.append(c)
        else:
            waiter.append(c)
    chk.floor("C02.R1", "normal-routing enqueue sites", len(normal), 1)
    chk.floor("C02.R2", "waiter-resolution enqueue sites", len(waiter), 1)

    for c in normal:
        loop = next((l for l in loops if any(x is c for x in ast.walk(l))), None)
        if loop is None or not isinstance(loop.target, ast.Tuple) or len(loop.target.elts) != 2:
            raise AnchorError("C02.R1: routing enqueue is not inside `for step_name, step_config in state.config.steps.items()`")
        sname, sconf = (ast.unparse(e) for e in loop.target.elts)
        st = enclosing_stmt(c)
        for n in cfg.nodes_of(st):
            facts = facts_at(cfg, n)
            ok_type = has_fact(facts, f"type({tick}.event) in {sconf}.accepted_events")
            reason = "" if ok_type else f"no dominating exact-type test `type({tick}.event) in {sconf}.accepted_events`; facts: {sorted(facts)[:8]}"
            chk.ob("C02.R1", "normal routing is dominated by the exact-type acceptance test", ok_type, m=m, node=c, fn=fn, instance="route:type", reason=reason)
            ok_tgt = has_fact(facts, f"{tick}.step_name is None or {tick}.step_name == {sname}")
            chk.ob("C02.R1", "normal routing is dominated by (no target or target == this step)", ok_tgt, m=m, node=c, fn=fn, instance="route:target",
                   reason=f"no dominating test of `{tick}.step_name`; facts: {sorted(facts)[:8]}")
            # the enqueue goes to the step being tested
            dest_ok = len(c.args) >= 3 and ast.unparse(c.args[1]) == sname and ast.unparse(c.args[2]).replace(" ", "") in (f"state.workers[{sname}]",)
            if not dest_ok and len(c.args) >= 3:
                dest_ok = ast.unparse(c.args[1]) == sname and sname in ast.unparse(c.args[2])
            chk.ob("C02.R1", "the enqueue targets the step whose acceptance was tested", dest_ok, m=m, node=c, fn=fn, instance="route:dest",
                   reason=f"arguments {[ast.unparse(a)[:40] for a in c.args[1:3]]} do not name `{sname}`")
            # R2: once per step per tick
            loop_nodes = cfg.nodes_of(loop)
            again = n in cfg.reach([n], blocked=loop_nodes, include_starts=False)
            others = [o for o in normal if o is not c and any(x is o for x in ast.walk(loop))]
            both = False
            for o in others:
                for on in cfg.nodes_of(enclosing_stmt(o)):
                    if on in cfg.reach([n], blocked=loop_nodes, include_starts=False) or n in cfg.reach([on], blocked=loop_nodes, include_starts=False):
                        both = True
            chk.ob("C02.R2", "at most one normal enqueue per step per tick", not again and not both, m=m, node=c, fn=fn, instance="route:once",
                   reason="a second enqueue for the same step is reachable within one loop iteration")
            # R2: steps woken through a waiter are skipped
            woken_sets = set()
            for w in waiter:
                blk = enclosing_stmt(w)
                lst = getattr(parent(blk), "body", [])
                for s in lst:
                    for x in ast.walk(s):
                        if isinstance(x, ast.Call) and isinstance(x.func, ast.Attribute) and x.func.attr == "add" and isinstance(x.func.value, ast.Name):
                            woken_sets.add(x.func.value.id)
            skip_ok = any((f"{sname} in {s}", False) in facts for s in woken_sets)
            chk.ob("C02.R2", "steps resumed through a waiter in this tick are skipped by normal routing", skip_ok, m=m, node=c, fn=fn, instance="route:waiter-skip",
                   reason=f"routing is not excluded for members of {sorted(woken_sets) or 'the waiter-resolved set (not found)'}")

    # R2: a step enters the waiter-resolved set exactly when one of its waiters is resumed in this tick
    for w in waiter:
        wl = next((l for l in ast.walk(fn) if isinstance(l, ast.For) and any(x is w for x in ast.walk(l)) and not any(isinstance(y, ast.For) and y is not l and any(x is w for x in ast.walk(y)) for y in ast.walk(l) if y is not l)), None)
        adds = [x for x in ast.walk(fn) if isinstance(x, ast.Call) and isinstance(x.func, ast.Attribute) and x.func.attr == "add" and isinstance(x.func.value, ast.Name)
                and any(x is y for y in ast.walk(wl or fn))]
        chk.floor("C02.R2", "registrations of a waiter-woken step", len(adds), 1)
        heads = cfg.nodes_of(wl) if wl is not None else []
        en = cfg.nodes_of(enclosing_stmt(w))
        for a in adds:
            an = cfg.nodes_of(enclosing_stmt(a))
            # from the registration every normal path to the next waiter (or out of the loop) passes the resume, and vice versa
            a_without_e = cfg.must_pass(an, heads + [cfg.exit], en, labels_excluded=("exc", "cancel"), include_starts=False) if not all(x not in cfg.reach([cfg.entry], blocked=en) for x in an) else []
            e_without_a = cfg.must_pass(en, heads + [cfg.exit], an, labels_excluded=("exc", "cancel"), include_starts=False) if not all(x not in cfg.reach([cfg.entry], blocked=an) for x in en) else []
            chk.ob("C02.R2", "a step is excluded from normal routing only when one of its waiters is actually resumed by this event (registration and resume lie on the same paths)",
                   not a_without_e and not e_without_a, m=m, node=a, fn=fn, instance="route:waiter-skip-only-when-resumed",
                   reason="a path registers the step as waiter-woken without resuming a waiter (or resumes without registering): an event for a step that also accepts it would be delivered neither as wait result nor as input, or twice")

    # ---------------------------------------------------------------- R5 UnhandledEvent
    un = [c for c in calls_named(fn, "UnhandledEvent")]
    chk.floor("C02.R5", "UnhandledEvent publications", len(un), 1)
    witnesses: set[str] = set()
    ire = f"isinstance({tick}.event, InputRequiredEvent)"
    for c in un:
        st = enclosing_stmt(c)
        for n in cfg.nodes_of(st):
            facts = facts_at(cfg, n, expand_locals=True)
            raw = facts_at(cfg, n, expand_locals=False)
            ok_ire = (ire, False) in facts
            # "nothing accepted the event": negative truthiness of a flag, or of the collections that record accepting steps
            neg_names = {a for a, pol in facts if not pol and a.isidentifier()}
            witnesses |= neg_names
            chk.ob("C02.R5", "UnhandledEvent is published under (nothing accepted the event) and (not InputRequiredEvent)", ok_ire and bool(neg_names), m=m, node=c, fn=fn, instance="unhandled:guards",
                   reason=f"guard facts are {sorted(facts)}")
            known = {(w, False) for w in neg_names} | {(ire, False)}
            extra = []
            for f_ in raw:
                if f_[0] in ("True", "False"):
                    continue
                # a raw guard is accounted for when its expansion only yields witness / IRE atoms
                try:
                    ex_atoms = set(atoms(expand(ast.parse(f_[0], mode="eval").body, st, depth=3), f_[1]))
                except SyntaxError:
                    ex_atoms = {f_}
                if not (ex_atoms <= known or {f_} <= known):
                    extra.append(f_)
            chk.ob("C02.R5", "no further condition suppresses UnhandledEvent", not extra, m=m, node=c, fn=fn, instance="unhandled:only",
                   reason=f"additional conditions on the publication: {sorted(extra)}")
    # every enqueue is recorded in one of the witnesses, on the same path (flag set True, or the step added to the collection)
    def records(stmt: ast.AST, w: str) -> bool:
        if isinstance(stmt, ast.Assign) and len(stmt.targets) == 1 and ast.unparse(stmt.targets[0]) == w and isinstance(stmt.value, ast.Constant) and stmt.value.value is True:
            return True
        return any(isinstance(x, ast.Call) and isinstance(x.func, ast.Attribute) and x.func.attr in ("add", "append", "update", "extend") and ast.unparse(x.func.value) == w for x in ast.walk(stmt))

    for c in enq:
        blk = enclosing_stmt(c)
        from ..astx import stmt_list_of
        loc_ = stmt_list_of(blk)
        lst = loc_[0] if loc_ else []
        ok = any(records(s_, w) for s_ in lst for w in witnesses)
        chk.ob("C02.R5", "every enqueue is recorded (flag set / step noted) so that the event is not also reported unhandled", ok, m=m, node=c, fn=fn, instance=f"handled:{'normal' if c in normal else 'waiter'}",
               reason=f"an enqueue path leaves the witnesses {sorted(witnesses)} untouched: the event would be routed and also reported unhandled")
    # witnesses start falsy and are never reset
    for w in sorted(witnesses):
        inits = [s_ for s_ in ast.walk(fn) if isinstance(s_, (ast.Assign, ast.AnnAssign)) and ast.unparse(s_.targets[0] if isinstance(s_, ast.Assign) else s_.target) == w]
        vals = [ast.unparse(s_.value) for s_ in inits if s_.value is not None]
        falsy_inits = [v for v in vals if v in ("False", "set()", "[]", "{}", "list()", "dict()")]
        others = [v for v in vals if v not in ("True",) and v not in falsy_inits]
        derived = [v for v in others if all(isinstance(x, (ast.Name, ast.Load, ast.BoolOp, ast.Or, ast.Call)) for x in ast.walk(ast.parse(v, mode="eval").body))]
        resets = [x for x in ast.walk(fn) if isinstance(x, ast.Call) and isinstance(x.func, ast.Attribute) and x.func.attr in ("clear", "discard", "remove", "pop") and ast.unparse(x.func.value) == w]
        ok = (len(falsy_inits) == 1 and not others and not resets) or (not falsy_inits and len(vals) == 1 and bool(derived) and not resets)
        chk.ob("C02.R5", f"`{w}` starts empty/False and is only ever set/added to (monotone)", ok, m=m, node=inits[0] if inits else fn, fn=fn, instance="handled:monotone", reason=f"assignments to {w}: {vals}; resets: {len(resets)}")

    # ---------------------------------------------------------------- R3 no drop of step outputs
    m3, fn3 = repo.func(f"{CL}:_process_step_result_tick")
    cfg3 = CFG(fn3)
    res_loop = next((n for n in walk_shallow(fn3) if isinstance(n, ast.For) and ast.unparse(n.iter).endswith(".result")), None)
    if res_loop is None:
        raise AnchorError("C02.R3: loop over tick.result not found in _process_step_result_tick")
    rv = ast.unparse(res_loop.target)
    ev_tests = [n for n in cfg3.nodes if n.kind == "test" and " ".join(ast.unparse(n.ast.test).split()) == f"isinstance({rv}.result, Event)"]
    chk.floor("C02.R3", "`isinstance(result.result, Event)` tests", len(ev_tests), 1)
    loop_heads = cfg3.nodes_of(res_loop)
    for t in ev_tests:
        through = [n for n in cfg3.nodes if n.ast is not None and any(
            isinstance(x, ast.Call) and last(call_name(x)) == "CommandQueueEvent" and kwarg(x, "event") is not None and ast.unparse(kwarg(x, "event")) == f"{rv}.result"
            and isinstance(parent(x), ast.Call) and isinstance(parent(x).func, ast.Attribute) and parent(x).func.attr in ("append", "insert")
            for x in exprs_in_node(n))]
        starts = [s for lab, s in cfg3.succ[t] if lab == "T"]
        bad = cfg3.must_pass(starts, loop_heads + [cfg3.exit], through, labels_excluded=("exc", "cancel"))
        # exclude the StopEvent sub-branch: it is dominated by an earlier isinstance(..., StopEvent) T edge, not by this test
        chk.ob("C02.R3", "every Event returned by a step (other than StopEvent) is re-queued as CommandQueueEvent(event=result.result)", not bad,
               m=m3, node=t.ast, fn=fn3, instance="requeue-output", reason="a path from the Event branch reaches the next result without queuing the event",
               path=cfg3.describe_path(cfg3.path(starts[0], bad[0], blocked=through)) if bad and starts else [])

    mr, pc = repo.func(f"{RUNNER}.process_command")
    cfgp = CFG(pc)
    cmd = param(pc, 1)
    br = branch_for(pc, cmd, "CommandQueueEvent")
    # the tick built from the command
    ticks = [c for c in ast.walk(br) if isinstance(c, ast.Call) and last(call_name(c)) == "TickAddEvent" and any(x is c for s in br.body for x in ast.walk(s))]
    chk.floor("C02.R3", "TickAddEvent built from CommandQueueEvent", len(ticks), 1)
    for tk in ticks:
        ev = kwarg(tk, "event")
        sn = kwarg(tk, "step_name")
        ok = ev is not None and ast.unparse(ev) == f"{cmd}.event" and sn is not None and ast.unparse(sn) == f"{cmd}.step_name"
        chk.ob("C02.R3", "the TickAddEvent carries the command's event and target step unchanged", ok, m=mr, node=tk, fn=pc, instance="queue-event:payload",
               reason=f"event={ast.unparse(ev) if ev is not None else None}, step_name={ast.unparse(sn) if sn is not None else None}")
        holder = None
        st = enclosing_stmt(tk)
        if isinstance(st, ast.Assign) and len(st.targets) == 1 and isinstance(st.targets[0], ast.Name):
            holder = st.targets[0].id

        def delivers(n) -> bool:
            for x in exprs_in_node(n):
                if isinstance(x, ast.Call):
                    nm = call_name(x) or ""
                    if nm.endswith("tick_buffer.append") and x.args and (ast.unparse(x.args[0]) == holder or x.args[0] is tk):
                        return True
                    if last(nm) == "schedule_tick" and x.args and (ast.unparse(x.args[0]) == holder or x.args[0] is tk):
                        return True
            return False

        through = [n for n in cfgp.nodes if n.ast is not None and delivers(n)]
        tn = cfgp.nodes_of(st)
        bad = cfgp.must_pass(tn, [cfgp.exit], through, labels_excluded=("exc", "cancel"))
        chk.ob("C02.R3", "process_command delivers every CommandQueueEvent to tick_buffer or the wakeup heap", not bad and bool(through), m=mr, node=br, fn=pc,
               instance="queue-event:delivered", reason="a normal path leaves the CommandQueueEvent branch without buffering or scheduling the tick")

    # ---------------------------------------------------------------- R4 exhaustive dispatch (both directions)
    _, red = repo.func(f"{CL}:_reduce_tick")
    for label, fnx, subject, members, mod in (
        ("ticks", red, param(red, 0), union_members(repo, TICKS, "WorkflowTick"), m),
        ("commands", pc, cmd, union_members(repo, COMMANDS, "WorkflowCommand"), mr),
        ("results", fn3, rv, union_members(repo, RESULTS, "StepFunctionResult"), m3),
    ):
        disp, tail = isinstance_dispatch(fnx, subject)
        handled = {c for names, _n in disp for c in names}
        missing = sorted(set(members) - handled)
        unknown = sorted(handled - set(members))
        chk.ob("C02.R4", f"every member of the {label} union has an isinstance branch", not missing, m=mod, node=fnx, fn=fnx, instance=f"dispatch:{label}:covers",
               reason=f"no branch for {missing}")
        chk.ob("C02.R4", f"every dispatched {label} class is a member of the union", not unknown, m=mod, node=fnx, fn=fnx, instance=f"dispatch:{label}:members",
               reason=f"branches for non-members {unknown}")
        # when every isinstance test of the dispatch fails, no normal exit is reachable (else: raise, or a raise after a chain of early returns)
        cfgd = CFG(fnx)
        tnodes = [t for t in cfgd.nodes if t.kind == "test" and any(t.ast is n_ for _names, n_ in disp)]
        falls_through = cfgd.exit in cfgd.reach([cfgd.entry], blocked_edges=[(t, "T") for t in tnodes], labels_excluded=("exc", "cancel")) if label != "results" else None
        if label == "results":
            # the result dispatch sits inside the loop over tick.result: the all-false path must not reach the next iteration
            heads = [n_ for n_ in cfgd.nodes if n_.kind == "iter" and ast.unparse(n_.ast.iter).endswith(".result")]
            first = min(tnodes, key=lambda t: t.line) if tnodes else None
            r_ = cfgd.reach([first], blocked_edges=[(t, "T") for t in tnodes], labels_excluded=("exc", "cancel")) if first is not None else set()
            falls_through = any(h in r_ for h in heads) or cfgd.exit in r_
        chk.ob("C02.R4", f"the {label} dispatch raises on an unknown class", bool(tnodes) and not falls_through, m=mod, node=fnx, fn=fnx, instance=f"dispatch:{label}:else-raises",
               reason="a value of an unknown class falls through the dispatch silently")
    chk.floor("C02.R4", "tick union members", len(union_members(repo, TICKS, "WorkflowTick")), 8)

    # ---------------------------------------------------------------- R6 senders
    for ref, adapter in (("workflows.context.internal_context:InternalContext.send_event", "_internal_adapter"),
                         ("workflows.context.external_context:ExternalContext.send_event", "_external_adapter")):
        ms, fs = repo.func(ref)
        msg, step = param(fs, 1), param(fs, 2)
        sends = [c for c in calls_named(fs, "send_event") if isinstance(c.func, ast.Attribute) and adapter in ast.unparse(c.func.value)]
        ok = len(sends) == 1
        reason = f"{len(sends)} adapter.send_event calls"
        if ok:
            s = sends[0]
            tk = expand(s.args[0], s, depth=1) if s.args else None
            ok = isinstance(tk, ast.Call) and last(call_name(tk)) == "TickAddEvent" and kwarg(tk, "event") is not None and ast.unparse(kwarg(tk, "event")) == msg \
                and kwarg(tk, "step_name") is not None and ast.unparse(kwarg(tk, "step_name")) == step
            reason = f"payload {ast.unparse(tk)[:80] if tk is not None else None}"
            cfgs = CFG(fs)
            sn = cfgs.node_of_containing(s)
            bad = cfgs.must_pass([cfgs.entry], [cfgs.exit], sn, labels_excluded=("exc", "cancel"))
            chk.ob("C02.R6", "send_event reaches adapter.send_event on every non-raising path", not bad, m=ms, node=s, fn=fs, instance="send:always",
                   reason="a normal path returns without handing the event to the adapter")
            loops = [a for a in ast.walk(fs) if isinstance(a, (ast.For, ast.While, ast.AsyncFor)) and any(x is s for x in ast.walk(a))]
            chk.ob("C02.R6", "send_event hands the event over once (not in a loop)", not loops, m=ms, node=s, fn=fs, instance="send:once", reason="the adapter call is inside a loop")
        chk.ob("C02.R6", "send_event builds exactly one TickAddEvent(event=message, step_name=step) for the adapter", ok, m=ms, node=fs, fn=fs, instance="send:payload", reason=reason)

    msf, wrap = repo.func("workflows.runtime.types.step_function:as_step_worker_function.wrapper")
    cfgw = CFG(wrap)
    fin = [n for n in cfgw.nodes if n.ast is not None and any(isinstance(x, ast.Await) and isinstance(x.value, ast.Call) and last(call_name(x.value)) == "_finalize_step" for x in exprs_in_node(n))]
    rets = [n for n in cfgw.nodes if n.tag == "" and isinstance(n.ast, ast.Return)]
    chk.floor("C02.R6", "awaits of _finalize_step in the step wrapper", len(fin), 1)
    bad = cfgw.must_pass([cfgw.entry], rets, fin, labels_excluded=())
    chk.ob("C02.R6", "the step wrapper awaits _finalize_step (gathering pending sends) before every return", not bad, m=msf, node=wrap, fn=wrap, instance="wrapper:finalize",
           reason="a return is reachable without awaiting _finalize_step: events sent by the step could arrive after its result")
    mf, ff = repo.func("workflows.context.internal_context:InternalContext._finalize_step")
    g = [c for c in calls_named(ff, "gather") if any("_workers" in ast.unparse(a) or "workers" in ast.unparse(a) for a in c.args)]
    chk.ob("C02.R6", "_finalize_step gathers the tracked background tasks", bool(g), m=mf, node=ff, fn=ff, instance="finalize:gather", reason="no asyncio.gather over the tracked tasks")


_P = CL_REL
_IC = "packages/llama-index-workflows/src/workflows/context/internal_context.py"
_SF = "packages/llama-index-workflows/src/workflows/runtime/types/step_function.py"
TWINS = [
    Twin("isinstance routing", _P, "is_accepted = type(tick.event) in step_config.accepted_events", "is_accepted = isinstance(tick.event, tuple(step_config.accepted_events))", "C02.R1"),
    Twin("target ignored", _P, "if is_accepted and (tick.step_name is None or tick.step_name == step_name):", "if is_accepted:", "C02.R1"),
    Twin("target inverted", _P, "tick.step_name is None or tick.step_name == step_name", "tick.step_name is None or tick.step_name != step_name", "C02.R1"),
    Twin("waiter skip removed", _P, "        if step_name in waiter_resolved_steps:\n            continue\n", "", "C02.R2"),
    Twin("step marked woken although waiter not resumed", _P, "            if is_match:\n                handled = True\n                waiter_resolved_steps.add(step_name)", "            if type(tick.event) is wait_condition.waiting_for_event:\n                waiter_resolved_steps.add(step_name)\n            if is_match:\n                handled = True", "C02.R2"),
    Twin("handled not set on waiter path", _P, "                handled = True\n                waiter_resolved_steps.add(step_name)", "                waiter_resolved_steps.add(step_name)", "C02.R5"),
    Twin("unhandled suppressed when idle", _P, "        if not isinstance(tick.event, InputRequiredEvent):\n            event_cls", "        if not isinstance(tick.event, InputRequiredEvent) and tick.step_name is None:\n            event_cls", "C02.R5"),
    Twin("output dropped for HITL", _P, "                if isinstance(result.result, InputRequiredEvent):\n                    commands.append(CommandPublishEvent(event=result.result))\n                commands.append(",
         "                if isinstance(result.result, InputRequiredEvent):\n                    commands.append(CommandPublishEvent(event=result.result))\n                    continue\n                commands.append(", "C02.R3"),
    Twin("queue event loses target", _P, "                event=command.event,\n                step_name=command.step_name,", "                event=command.event,\n                step_name=None,", "C02.R3"),
    Twin("zero-delay events dropped", _P, "            else:\n                self.tick_buffer.append(event)\n            return None", "            elif command.delay is None:\n                self.tick_buffer.append(event)\n            return None", "C02.R3"),
    Twin("tick branch removed", _P, "    elif isinstance(tick, TickPublishEvent):\n        state, commands = _process_publish_event_tick(tick, init)\n", "", "C02.R4"),
    Twin("finalize skipped on waiter path", _SF, "            await internal_context._finalize_step()\n            return returns.return_values", "            if captured_waiting is None:\n                await internal_context._finalize_step()\n            return returns.return_values", "C02.R6"),
    Twin("send drops step", _IC, "                    event=message,\n                    step_name=step,", "                    event=message,\n                    step_name=None,", "C02.R6"),
    Twin("benign: hoisted type", _P, "        is_accepted = type(tick.event) in step_config.accepted_events", "        ev_type = type(tick.event)\n        is_accepted = ev_type in step_config.accepted_events", None),
    Twin("benign: nested ifs", _P, "        if is_accepted and (tick.step_name is None or tick.step_name == step_name):\n            handled = True", "        if not is_accepted:\n            continue\n        if tick.step_name is None or tick.step_name == step_name:\n            handled = True", None),
    Twin("benign: reversed equality", _P, "tick.step_name is None or tick.step_name == step_name", "tick.step_name is None or step_name == tick.step_name", None),
    Twin("benign: early return in unhandled", _P, "    if not handled:\n        # InputRequiredEvent", "    if handled:\n        return state, commands\n    if True:\n        # InputRequiredEvent", None),
]
