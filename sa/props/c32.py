"""C32 — generated deployment ids are valid DNS-1035 labels.

This module also hosts the small regular-language toolkit (symbolic alphabet, DFA/NFA, finite
state transducers, regex-AST -> automaton) and the abstract string interpreter `SInterp` that
C33 and C34 import from here (shared helper kept in a property module on purpose: the brief
forbids editing the shared framework files).

Nothing from /repo is imported or executed: the analysed functions are walked as ASTs and every
string value is a *regular language* over a symbolic alphabet whose letters are classes of
Unicode characters that no operation of the analysed code can tell apart.
"""

from __future__ import annotations

import ast
import re
import sys
from typing import Any, Callable, Iterable

from ..index import AnchorError, FuncNode
from ..selftest import Twin

try:  # CPython >= 3.11
    import re._constants as _sc
    import re._parser as _sp
except ImportError:  # pragma: no cover
    import sre_constants as _sc  # type: ignore
    import sre_parse as _sp  # type: ignore


class Unsupported(Exception):
    """The analysed code uses a construct the abstract interpreter has no transfer function for."""


# =====================================================================================
# symbolic alphabet
# =====================================================================================


ALL_PREDS = ("isalpha", "isdecimal", "isdigit", "isalnum", "isspace")


def _props(ch: str, preds: tuple) -> tuple:
    return tuple(getattr(ch, p)() for p in preds)


_UNI: dict = {}


def _unicode_groups(preds: tuple) -> dict:
    """Non-ASCII code points grouped by (predicates, image under str.lower()); one pass over all of
    Unicode with CPython's own tables (all five predicates), cached per process (~0.5 s); coarser
    predicate sets are obtained by projecting the full grouping."""
    if ALL_PREDS not in _UNI:
        groups: dict = {}
        fs = [getattr(str, p) for p in ALL_PREDS]
        for c in range(128, sys.maxunicode + 1):
            ch = chr(c)
            lo = ch.lower()
            pr = (ch.isalpha(), ch.isdecimal(), ch.isdigit(), ch.isalnum(), ch.isspace())
            if lo == ch:
                key = (pr, None)
            else:
                key = (pr, tuple([(x if x < "\x80" else None, tuple([f(x) for f in fs])) for x in lo]))
            if key not in groups:
                groups[key] = ch
        _UNI[ALL_PREDS] = groups
    if preds not in _UNI:
        idx = [ALL_PREDS.index(p) for p in preds]

        def proj(pr: tuple) -> tuple:
            return tuple(pr[i] for i in idx)

        out: dict = {}
        for (pr, low), rep in _UNI[ALL_PREDS].items():
            key = (proj(pr), None if low is None else tuple((x, proj(q)) for x, q in low))
            # a character whose lower image is indistinguishable from itself is not special
            out.setdefault(key, rep)
        _UNI[preds] = out
    return _UNI[preds]


class Atom:
    __slots__ = ("idx", "rep", "members", "props", "desc")

    def __init__(self, idx: int, rep: str, members: frozenset | None, desc: str):
        self.idx, self.rep, self.members, self.desc = idx, rep, members, desc
        self.props = None


class Alphabet:
    """Partition of all Unicode characters into atoms that refine every registered character set,
    the str predicates isalpha/isdecimal/isdigit/isalnum/isspace, '_' and the image under lower()."""

    def __init__(self, singles: Iterable[str] = (), sets: Iterable[Iterable[str]] = (), preds: Iterable[str] = ALL_PREDS):
        self.preds = tuple(p for p in ALL_PREDS if p in set(preds))
        P = self.preds
        ssets = [frozenset(s) for s in sets] + [frozenset(c) for c in set(singles)] + [frozenset("\n"), frozenset("_")]
        ssets = sorted(set(ssets), key=lambda s: sorted(s))
        for s in ssets:
            for ch in s:
                if ch >= "\x80":
                    raise Unsupported(f"non-ASCII literal {ch!r} in a character set")
        self.sets = ssets

        def memb(ch: str) -> tuple:
            return tuple(ch in s for s in ssets)

        groups: dict = {}
        for c in range(128):
            ch = chr(c)
            lo = ch.lower()
            lowsig = None if lo == ch else tuple((memb(x), _props(x, P)) for x in lo)
            groups.setdefault((memb(ch), _props(ch, P), lowsig), []).append(ch)
        self.atoms: list[Atom] = []
        self._ascii: dict[str, int] = {}
        for sig, chars in sorted(groups.items(), key=lambda kv: kv[1][0]):
            a = Atom(len(self.atoms), chars[0], frozenset(chars), _describe(chars))
            self.atoms.append(a)
            for ch in chars:
                self._ascii[ch] = a.idx
        self._uni: dict = {}
        for key, rep in _unicode_groups(P).items():
            a = Atom(len(self.atoms), rep, None, f"U+{ord(rep):04X}-like")
            self.atoms.append(a)
            self._uni[key] = a.idx
        self.K = len(self.atoms)
        self._lower = [self._lower_image(a) for a in self.atoms]

    def _key(self, ch: str) -> tuple:
        lo = ch.lower()
        P = self.preds
        if lo == ch:
            return (_props(ch, P), None)
        return (_props(ch, P), tuple((x if x < "\x80" else None, _props(x, P)) for x in lo))

    def atom_of(self, ch: str) -> int:
        if ch < "\x80":
            return self._ascii[ch]
        k = self._key(ch)
        if k not in self._uni:
            raise Unsupported(f"character {ch!r} has no atom")
        return self._uni[k]

    def _lower_image(self, a: Atom) -> tuple:
        return tuple(self.atom_of(x) for x in a.rep.lower())

    def lower_image(self, idx: int) -> tuple:
        return self._lower[idx]

    def select(self, pred: str) -> frozenset:
        """Atoms satisfying a str predicate the alphabet was built to distinguish."""
        if pred == "isword":
            return self.select("isalnum") | frozenset(self.word("_"))
        if pred == "isascii":
            return frozenset(a.idx for a in self.atoms if a.members is not None)
        if pred not in self.preds:
            raise Unsupported(f"alphabet was not refined for str.{pred}")
        return frozenset(a.idx for a in self.atoms if getattr(a.rep, pred)())

    def of_chars(self, chars: Iterable[str]) -> frozenset:
        chars = frozenset(chars)
        out = set()
        for ch in chars:
            a = self.atoms[self.atom_of(ch)]
            if a.members is None or not a.members <= chars:
                raise Unsupported(f"alphabet does not refine the character set containing {ch!r}")
            out.add(a.idx)
        return frozenset(out)

    def word(self, s: str) -> tuple:
        out = []
        for ch in s:
            a = self.atoms[self.atom_of(ch)]
            if a.members is None or len(a.members) != 1:
                raise Unsupported(f"literal character {ch!r} is not a singleton atom")
            out.append(a.idx)
        return tuple(out)

    def loose_word(self, s: str) -> tuple:
        return tuple(self.atom_of(ch) for ch in s)

    def render(self, w: Iterable[int]) -> str:
        return "".join(self.atoms[i].rep for i in w)

    @property
    def all_atoms(self) -> frozenset:
        return frozenset(range(self.K))


def _describe(chars: list[str]) -> str:
    if len(chars) == 1:
        return repr(chars[0])
    return f"{chars[0]!r}..{chars[-1]!r}({len(chars)})"


# =====================================================================================
# automata
# =====================================================================================


class NFA:
    def __init__(self, K: int):
        self.K = K
        self.tr: list[dict[int, set[int]]] = []
        self.eps: list[set[int]] = []
        self.starts: set[int] = set()
        self.finals: set[int] = set()

    def new(self) -> int:
        self.tr.append({})
        self.eps.append(set())
        return len(self.tr) - 1

    def add(self, p: int, a: int, q: int) -> None:
        self.tr[p].setdefault(a, set()).add(q)

    def add_eps(self, p: int, q: int) -> None:
        if p != q:
            self.eps[p].add(q)

    def add_word(self, p: int, w: tuple, q: int) -> None:
        if not w:
            self.add_eps(p, q)
            return
        cur = p
        for a in w[:-1]:
            n = self.new()
            self.add(cur, a, n)
            cur = n
        self.add(cur, w[-1], q)

    def embed(self, d: "DFA") -> int:
        """Copy a DFA's states; returns the offset (its start is offset+0)."""
        off = len(self.tr)
        for _ in d.tr:
            self.new()
        for s, row in enumerate(d.tr):
            t = self.tr[off + s]
            for a, q in enumerate(row):
                t[a] = {off + q}
        return off

    def _closure(self, states: Iterable[int]) -> frozenset:
        seen = set(states)
        stack = list(seen)
        while stack:
            s = stack.pop()
            for q in self.eps[s]:
                if q not in seen:
                    seen.add(q)
                    stack.append(q)
        return frozenset(seen)

    def to_dfa(self) -> "DFA":
        K = self.K
        start = self._closure(self.starts)
        ids = {start: 0}
        order = [start]
        tr: list[list[int]] = []
        i = 0
        while i < len(order):
            cur = order[i]
            i += 1
            row = []
            moves: dict[int, set[int]] = {}
            for s in cur:
                for a, qs in self.tr[s].items():
                    m = moves.get(a)
                    if m is None:
                        moves[a] = set(qs)
                    else:
                        m |= qs
            cache: dict[frozenset, int] = {}
            for a in range(K):
                qs = moves.get(a)
                if not qs:
                    tgt = frozenset()
                else:
                    fq = frozenset(qs)
                    if fq in cache:
                        row.append(cache[fq])
                        continue
                    tgt = self._closure(fq)
                j = ids.get(tgt)
                if j is None:
                    j = len(order)
                    ids[tgt] = j
                    order.append(tgt)
                if qs:
                    cache[frozenset(qs)] = j
                row.append(j)
            tr.append(row)
        fin = [bool(st & self.finals) for st in order]
        return DFA(K, tr, fin).minimize()


class DFA:
    """Complete DFA, start state 0."""

    __slots__ = ("K", "tr", "fin", "_key", "_min")

    def __init__(self, K: int, tr: list[list[int]], fin: list[bool]):
        self.K, self.tr, self.fin = K, tr, fin
        self._key = None
        self._min = False

    # ------------------------------------------------------------------ normal form
    def minimize(self) -> "DFA":
        if self._min:
            return self
        n, K, trs = len(self.tr), self.K, self.tr
        # Hopcroft partition refinement
        fin_states = [s for s in range(n) if self.fin[s]]
        non_states = [s for s in range(n) if not self.fin[s]]
        blocks: list[set] = [set(b) for b in (fin_states, non_states) if b]
        block_of = [0] * n
        for i, b in enumerate(blocks):
            for s in b:
                block_of[s] = i
        if len(blocks) > 1:
            inv: list[dict[int, list[int]]] = [dict() for _ in range(K)]
            for s in range(n):
                row = trs[s]
                for a in range(K):
                    inv[a].setdefault(row[a], []).append(s)
            work = {0 if len(blocks[0]) <= len(blocks[1]) else 1}
            while work:
                wi = work.pop()
                splitter = list(blocks[wi])
                for a in range(K):
                    ia = inv[a]
                    touched: dict[int, list[int]] = {}
                    for t in splitter:
                        for s in ia.get(t, ()):
                            touched.setdefault(block_of[s], []).append(s)
                    for bi, members in touched.items():
                        blk = blocks[bi]
                        if len(members) == len(blk):
                            continue
                        ms = set(members)
                        rest = blk - ms
                        # keep the larger part in place
                        if len(ms) <= len(rest):
                            small, large = ms, rest
                        else:
                            small, large = rest, ms
                        blocks[bi] = large
                        ni = len(blocks)
                        blocks.append(small)
                        for s in small:
                            block_of[s] = ni
                        if bi in work:
                            work.add(ni)
                        else:
                            work.add(ni)  # small part
        # quotient + canonical BFS numbering from the start block
        rep = [next(iter(b)) for b in blocks]
        order = [block_of[0]]
        num = {block_of[0]: 0}
        i = 0
        tr: list[list[int]] = []
        while i < len(order):
            b = order[i]
            i += 1
            row = []
            for t in trs[rep[b]]:
                bt = block_of[t]
                j = num.get(bt)
                if j is None:
                    j = len(order)
                    num[bt] = j
                    order.append(bt)
                row.append(j)
            tr.append(row)
        fin = [self.fin[rep[b]] for b in order]
        d = DFA(K, tr, fin)
        d._min = True
        return d

    @property
    def key(self) -> tuple:
        if self._key is None:
            d = self.minimize()
            self._key = (tuple(tuple(r) for r in d.tr), tuple(d.fin))
        return self._key

    # ------------------------------------------------------------------ queries
    def is_empty(self) -> bool:
        if self._min:
            return len(self.tr) == 1 and not self.fin[0]
        return self.shortest() is None

    def is_eps(self) -> bool:
        d = self.minimize()
        return len(d.tr) == 2 and d.fin[0] and not d.fin[1]

    def shortest(self) -> tuple | None:
        prev: dict[int, tuple | None] = {0: None}
        queue = [0]
        i = 0
        while i < len(queue):
            s = queue[i]
            i += 1
            if self.fin[s]:
                out = []
                cur = s
                while prev[cur] is not None:
                    p, a = prev[cur]
                    out.append(a)
                    cur = p
                return tuple(reversed(out))
            for a, t in enumerate(self.tr[s]):
                if t not in prev:
                    prev[t] = (s, a)
                    queue.append(t)
        return None

    def accepts(self, w: Iterable[int]) -> bool:
        s = 0
        for a in w:
            s = self.tr[s][a]
        return self.fin[s]

    def run(self, s: int, w: Iterable[int]) -> int:
        for a in w:
            s = self.tr[s][a]
        return s

    def _product(self, other: "DFA", op: Callable[[bool, bool], bool]) -> "DFA":
        ids = {(0, 0): 0}
        order = [(0, 0)]
        tr = []
        i = 0
        while i < len(order):
            p, q = order[i]
            i += 1
            row = []
            rp, rq = self.tr[p], other.tr[q]
            for a in range(self.K):
                k = (rp[a], rq[a])
                j = ids.get(k)
                if j is None:
                    j = len(order)
                    ids[k] = j
                    order.append(k)
                row.append(j)
            tr.append(row)
        fin = [op(self.fin[p], other.fin[q]) for p, q in order]
        return DFA(self.K, tr, fin).minimize()

    def __and__(self, o: "DFA") -> "DFA":
        if self.is_empty() or o.is_empty():
            return L_empty(self.K)
        return self._product(o, lambda a, b: a and b)

    def __or__(self, o: "DFA") -> "DFA":
        if self.is_empty():
            return o
        if o.is_empty():
            return self
        return self._product(o, lambda a, b: a or b)

    def __sub__(self, o: "DFA") -> "DFA":
        if self.is_empty() or o.is_empty():
            return self
        return self._product(o, lambda a, b: a and not b)

    def complement(self) -> "DFA":
        d = DFA(self.K, self.tr, [not f for f in self.fin])
        return d.minimize()

    def __le__(self, o: "DFA") -> bool:
        return (self - o).is_empty()

    def same(self, o: "DFA") -> bool:
        return self.key == o.key

    def concat(self, o: "DFA") -> "DFA":
        if self.is_empty() or o.is_empty():
            return L_empty(self.K)
        if self.is_eps():
            return o
        if o.is_eps():
            return self
        n = NFA(self.K)
        a = n.embed(self)
        b = n.embed(o)
        n.starts = {a}
        for s, f in enumerate(self.fin):
            if f:
                n.add_eps(a + s, b)
        n.finals = {b + s for s, f in enumerate(o.fin) if f}
        return n.to_dfa()

    def star(self) -> "DFA":
        n = NFA(self.K)
        s0 = n.new()
        a = n.embed(self)
        n.starts = {s0}
        n.add_eps(s0, a)
        n.finals = {s0}
        for s, f in enumerate(self.fin):
            if f:
                n.add_eps(a + s, s0)
        return n.to_dfa()

    def optional(self) -> "DFA":
        return self | L_eps(self.K)

    def power(self, lo: int, hi: int | None) -> "DFA":
        if lo + (0 if hi is None else hi - lo) > 12:
            raise Unsupported("bounded repetition of a compound sub-pattern is too large")
        out = L_eps(self.K)
        for _ in range(lo):
            out = out.concat(self)
        if hi is None:
            return out.concat(self.star())
        opt = self.optional()
        for _ in range(hi - lo):
            out = out.concat(opt)
        return out

    # ------------------------------------------------------------------ quotients
    def lquot(self, prefix: "DFA") -> "DFA":
        """{z : exists p in prefix, p z in self}"""
        # states of self reachable by words of prefix
        seen = {(0, 0)}
        stack = [(0, 0)]
        starts = set()
        while stack:
            s, p = stack.pop()
            if prefix.fin[p]:
                starts.add(s)
            for a in range(self.K):
                k = (self.tr[s][a], prefix.tr[p][a])
                if k not in seen:
                    seen.add(k)
                    stack.append(k)
        n = NFA(self.K)
        off = n.embed(self)
        n.starts = {off + s for s in starts}
        n.finals = {off + s for s, f in enumerate(self.fin) if f}
        return n.to_dfa()

    def rquot(self, suffix: "DFA") -> "DFA":
        """{z : exists s in suffix, z s in self}"""
        good = []
        for s0 in range(len(self.tr)):
            seen = {(s0, 0)}
            stack = [(s0, 0)]
            ok = False
            while stack and not ok:
                s, p = stack.pop()
                if self.fin[s] and suffix.fin[p]:
                    ok = True
                    break
                for a in range(self.K):
                    k = (self.tr[s][a], suffix.tr[p][a])
                    if k not in seen:
                        seen.add(k)
                        stack.append(k)
            good.append(ok)
        return DFA(self.K, self.tr, good).minimize()

    # ------------------------------------------------------------------ transductions
    def image(self, t: "FST") -> "DFA":
        if self.is_empty():
            return self
        n = NFA(self.K)
        ids: dict = {}

        def sid(q: int, s: int) -> int:
            k = (q, s)
            i = ids.get(k)
            if i is None:
                i = n.new()
                ids[k] = i
                todo.append(k)
            return i

        todo: list = []
        n.starts = {sid(0, t.start)}
        while todo:
            q, s = todo.pop()
            src = ids[(q, s)]
            if self.fin[q] and s in t.finals:
                n.finals.add(src)
            for a, arcs in t.arcs[s].items():
                q2 = self.tr[q][a]
                for s2, out in arcs:
                    n.add_word(src, out, sid(q2, s2))
        return n.to_dfa()

    def preimage(self, t: "FST") -> "DFA":
        """{s : some output of t on s lies in self}"""
        n = NFA(self.K)
        ids: dict = {}
        todo: list = []

        def sid(q: int, s: int) -> int:
            k = (q, s)
            i = ids.get(k)
            if i is None:
                i = n.new()
                ids[k] = i
                todo.append(k)
            return i

        n.starts = {sid(0, t.start)}
        while todo:
            q, s = todo.pop()
            src = ids[(q, s)]
            if self.fin[q] and s in t.finals:
                n.finals.add(src)
            for a, arcs in t.arcs[s].items():
                for s2, out in arcs:
                    n.add(src, a, sid(self.run(q, out), s2))
        return n.to_dfa()


def L_empty(K: int) -> DFA:
    return DFA(K, [[0] * K], [False]).minimize()


def L_eps(K: int) -> DFA:
    return DFA(K, [[1] * K, [1] * K], [True, False]).minimize()


def L_all(K: int) -> DFA:
    return DFA(K, [[0] * K], [True]).minimize()


def L_word(K: int, w: tuple) -> DFA:
    n = len(w)
    sink = n + 1
    tr = []
    for i in range(n):
        row = [sink] * K
        row[w[i]] = i + 1
        tr.append(row)
    tr.append([sink] * K)
    tr.append([sink] * K)
    return DFA(K, tr, [i == n for i in range(n + 2)]).minimize()


def L_chars(K: int, atoms: Iterable[int], lo: int = 1, hi: int | None = 1) -> DFA:
    """atoms{lo,hi}"""
    atoms = set(atoms)
    top = lo if hi is None else hi
    sink = top + 1
    tr = []
    for i in range(top + 1):
        row = []
        for a in range(K):
            if a in atoms:
                row.append(i + 1 if i < top else (top if hi is None else sink))
            else:
                row.append(sink)
        tr.append(row)
    tr.append([sink] * K)
    fin = [(i >= lo) for i in range(top + 1)] + [False]
    return DFA(K, tr, fin).minimize()


def L_count(K: int, atoms: Iterable[int], lo: int, hi: int | None) -> DFA:
    """Words in which the number of letters from ``atoms`` lies in [lo, hi]."""
    atoms = set(atoms)
    top = (lo if hi is None else hi) + 1  # top = "too many" (or "enough" when hi is None)
    tr = []
    for i in range(top + 1):
        tr.append([(min(i + 1, top) if a in atoms else i) for a in range(K)])
    fin = [(i >= lo and (hi is None or i <= hi)) for i in range(top + 1)]
    return DFA(K, tr, fin).minimize()


def L_length(K: int, lo: int, hi: int | None) -> DFA:
    return L_count(K, range(K), lo, hi)


def L_union(K: int, langs: Iterable[DFA]) -> DFA:
    out = L_empty(K)
    for l in langs:
        out = out | l
    return out


def lang_atoms(d: DFA) -> frozenset:
    """Atoms that occur in at least one word of the language (labels of transitions from a reachable to a co-reachable state)."""
    n = len(d.tr)
    reach = {0}
    todo = [0]
    while todo:
        q = todo.pop()
        for t in d.tr[q]:
            if t not in reach:
                reach.add(t)
                todo.append(t)
    rev: list[set] = [set() for _ in range(n)]
    for q in range(n):
        for t in d.tr[q]:
            rev[t].add(q)
    live = {q for q in range(n) if d.fin[q]}
    todo = list(live)
    while todo:
        q = todo.pop()
        for r in rev[q]:
            if r not in live:
                live.add(r)
                todo.append(r)
    return frozenset(a for q in reach if q in live for a, t in enumerate(d.tr[q]) if t in live)


class FST:
    """Finite state transducer; possibly nondeterministic; arcs[state][atom] = [(state2, out_word)]."""

    def __init__(self, nstates: int, start: int, finals: Iterable[int]):
        self.arcs: list[dict[int, list]] = [{} for _ in range(nstates)]
        self.start = start
        self.finals = set(finals)

    def arc(self, s: int, a: int, s2: int, out: tuple) -> None:
        self.arcs[s].setdefault(a, []).append((s2, tuple(out)))


def fst_map(A: Alphabet, f: Callable[[int], tuple]) -> FST:
    t = FST(1, 0, [0])
    for a in range(A.K):
        t.arc(0, a, 0, f(a))
    return t


def fst_collapse(A: Alphabet, C: Iterable[int], repl: tuple) -> FST:
    """every maximal run of letters from C is replaced by ``repl`` (re.sub(r'[C]+', repl))."""
    C = set(C)
    t = FST(2, 0, [0, 1])
    for a in range(A.K):
        if a in C:
            t.arc(0, a, 1, repl)
            t.arc(1, a, 1, ())
        else:
            t.arc(0, a, 0, (a,))
            t.arc(1, a, 0, (a,))
    return t


def fst_strip(A: Alphabet, C: Iterable[int], left: str | None, right: str | None, dollar_newline: bool = False) -> FST:
    """Delete letters of C at the ends: left/right in (None, 'one', 'all').  'one' models re.sub of
    `^c` / `c$` by the empty string; dollar_newline additionally lets `c$` match before a final newline."""
    C = set(C)
    nl = A.atom_of("\n")
    LEAD, MN, MC, T, T2, X = 0, 1, 2, 3, 4, 5
    t = FST(6, LEAD if left else MN, [])
    for a in range(A.K):
        inC = a in C
        # leading phase
        if left == "all":
            if inC:
                t.arc(LEAD, a, LEAD, ())
            else:
                t.arc(LEAD, a, MN, (a,))
        elif left == "one":
            if inC:
                t.arc(LEAD, a, MN, ())
            else:
                t.arc(LEAD, a, MN, (a,))
        # middle
        for m in (MN, MC, X):
            if inC:
                t.arc(m, a, MC, (a,))
            elif m == MC and dollar_newline and right == "one" and a == nl:
                t.arc(m, a, X, (a,))
            else:
                t.arc(m, a, MN, (a,))
        if inC and right == "all":
            t.arc(MN, a, T, ())
            t.arc(T, a, T, ())
        if inC and right == "one":
            for m in (MN, MC, X):
                t.arc(m, a, T, ())
    if right == "one" and dollar_newline:
        t.arc(T, nl, T2, (nl,))
    if left == "all" and right == "all":
        pass  # an all-C string is consumed by the leading phase
    fin = {MN, T, T2}
    if left:
        fin.add(LEAD)
    if right is None:
        fin |= {MC, X}
    t.finals = fin
    if left == "one" and right:
        # after deleting one leading letter we may immediately be at the tail
        pass
    return t


def fst_prefix(A: Alphabet, n: int) -> FST:
    t = FST(n + 1, 0, range(n + 1))
    for a in range(A.K):
        for i in range(n):
            t.arc(i, a, i + 1, (a,))
        t.arc(n, a, n, ())
    return t


def fst_drop(A: Alphabet, n: int) -> FST:
    t = FST(n + 1, 0, range(n + 1))
    for a in range(A.K):
        for i in range(n):
            t.arc(i, a, i + 1, ())
        t.arc(n, a, n, (a,))
    return t


def fst_charat(A: Alphabet, k: int) -> FST:
    t = FST(k + 2, 0, [k + 1])
    for a in range(A.K):
        for i in range(k):
            t.arc(i, a, i + 1, ())
        t.arc(k, a, k + 1, (a,))
        t.arc(k + 1, a, k + 1, ())
    return t


# =====================================================================================
# regex AST -> language
# =====================================================================================

_CATS = {
    "CATEGORY_DIGIT": ("isdecimal", False), "CATEGORY_NOT_DIGIT": ("isdecimal", True),
    "CATEGORY_WORD": ("isword", False), "CATEGORY_NOT_WORD": ("isword", True),
    "CATEGORY_SPACE": ("isspace", False), "CATEGORY_NOT_SPACE": ("isspace", True),
}
_CAT_PRED = {"isword": "isalnum"}


def regex_parse(pattern: str):
    p = _sp.parse(pattern)
    extra = p.state.flags & ~_sc.SRE_FLAG_UNICODE
    if extra:
        raise Unsupported(f"regex flags {extra} in {pattern!r}")
    return p


def regex_preds(pattern: str) -> set:
    """str predicates the alphabet must distinguish to decide the pattern's categories."""
    out: set = set()
    for cat, (p, _neg) in _CATS.items():
        if cat in repr(regex_parse(pattern).data):
            out.add(_CAT_PRED.get(p, p))
    return out


def regex_charsets(pattern: str) -> tuple[set, list]:
    """(literal characters, explicit ranges as char sets) mentioned by a pattern — to be registered
    in the alphabet before automata are built."""
    singles: set = set()
    sets: list = []

    def walk(items) -> None:
        for op, av in items:
            name = str(op)
            if name in ("LITERAL", "NOT_LITERAL"):
                singles.add(chr(av))
            elif name == "IN":
                for o2, a2 in av:
                    n2 = str(o2)
                    if n2 == "LITERAL":
                        singles.add(chr(a2))
                    elif n2 == "RANGE":
                        if a2[1] - a2[0] > 300 or a2[1] >= 128:
                            raise Unsupported("large or non-ASCII character range")
                        sets.append({chr(c) for c in range(a2[0], a2[1] + 1)})
            elif name == "BRANCH":
                for sub in av[1]:
                    walk(sub)
            elif name == "SUBPATTERN":
                walk(av[3])
            elif name in ("MAX_REPEAT", "MIN_REPEAT", "POSSESSIVE_REPEAT"):
                walk(av[2])

    walk(regex_parse(pattern).data)
    return singles, sets


def class_atoms(A: Alphabet, op, av) -> frozenset | None:
    """Atoms matched by a single-character regex item, or None when the item is not one."""
    name = str(op)
    if name == "LITERAL":
        return frozenset(A.word(chr(av)))
    if name == "NOT_LITERAL":
        return A.all_atoms - frozenset(A.word(chr(av)))
    if name == "ANY":
        return A.all_atoms - {A.atom_of("\n")}
    if name == "IN":
        neg = False
        acc: set = set()
        for o2, a2 in av:
            n2 = str(o2)
            if n2 == "NEGATE":
                neg = True
            elif n2 == "LITERAL":
                acc |= set(A.word(chr(a2)))
            elif n2 == "RANGE":
                acc |= A.of_chars(chr(c) for c in range(a2[0], a2[1] + 1))
            elif n2 == "CATEGORY":
                f = _CATS.get(str(a2))
                if f is None:
                    raise Unsupported(f"regex category {a2}")
                sel = A.select(f[0])
                acc |= (A.all_atoms - sel) if f[1] else sel
            else:
                raise Unsupported(f"regex class item {n2}")
        return frozenset(A.all_atoms - acc) if neg else frozenset(acc)
    return None


def _is_at(item, *names: str) -> bool:
    return str(item[0]) == "AT" and str(item[1]) in names


def regex_items_lang(A: Alphabet, items) -> DFA:
    out = L_eps(A.K)
    for op, av in items:
        out = out.concat(_regex_node(A, op, av))
    return out


def _regex_node(A: Alphabet, op, av) -> DFA:
    name = str(op)
    cl = class_atoms(A, op, av)
    if cl is not None:
        return L_chars(A.K, cl, 1, 1)
    if name in ("MAX_REPEAT", "MIN_REPEAT", "POSSESSIVE_REPEAT"):
        lo, hi, sub = av
        hi = None if hi == _sc.MAXREPEAT else hi
        sub = list(sub)
        if len(sub) == 1:
            c1 = class_atoms(A, *sub[0])
            if c1 is not None:
                return L_chars(A.K, c1, lo, hi)
        return regex_items_lang(A, sub).power(lo, hi)
    if name == "SUBPATTERN":
        if av[1] or av[2]:
            raise Unsupported("inline regex flags")
        return regex_items_lang(A, av[3])
    if name == "BRANCH":
        return L_union(A.K, [regex_items_lang(A, sub) for sub in av[1]])
    raise Unsupported(f"regex construct {name}")


def regex_split_anchors(pattern: str) -> tuple[list, bool, bool]:
    items = list(regex_parse(pattern).data)
    begin = end = False
    if items and _is_at(items[0], "AT_BEGINNING", "AT_BEGINNING_STRING"):
        begin = True
        items = items[1:]
    if items and _is_at(items[-1], "AT_END", "AT_END_STRING"):
        end = True
        items = items[:-1]
    return items, begin, end


def regex_match_lang(A: Alphabet, pattern: str, *, strict_end: bool = True, anchored_start: bool = True) -> DFA:
    """Strings s for which ``re.match(pattern, s)`` succeeds (anchored_start=False: ``re.search``).
    strict_end=False additionally models `$` matching before one final newline."""
    items, begin, end = regex_split_anchors(pattern)
    body = regex_items_lang(A, items)
    if not (anchored_start or begin):
        body = L_all(A.K).concat(body)
    if end:
        if not strict_end:
            body = body.concat(L_chars(A.K, [A.atom_of("\n")], 0, 1))
    else:
        body = body.concat(L_all(A.K))
    return body


def regex_groups(A: Alphabet, pattern: str) -> list[tuple[DFA, int | None]]:
    """Top-level items of an anchored pattern as (language, group number | None)."""
    items, _b, _e = regex_split_anchors(pattern)
    out = []
    for op, av in items:
        g = av[0] if str(op) == "SUBPATTERN" else None
        out.append((_regex_node(A, op, av), g))
    return out


# =====================================================================================
# abstract string interpreter
# =====================================================================================


class AStr:
    """Set of possible strings, split by provenance: `plain` (computed from inputs/constants only)
    and `rand` (some part came from the random module)."""

    __slots__ = ("plain", "rand")

    def __init__(self, plain: DFA, rand: DFA | None = None):
        self.plain = plain
        self.rand = rand if rand is not None else L_empty(plain.K)

    @property
    def all(self) -> DFA:
        return self.plain | self.rand

    def map(self, f: Callable[[DFA], DFA]) -> "AStr":
        return AStr(f(self.plain), f(self.rand))

    def dead(self) -> bool:
        return self.plain.is_empty() and self.rand.is_empty()

    def key(self) -> tuple:
        return ("S", _intern(self.plain), _intern(self.rand))


class AInt:
    """Some natural number (rendered by str()/f-strings in canonical decimal form)."""

    def key(self) -> tuple:
        return ("I",)


class ACount(AInt):
    """The number a count expression (`len(S)`, `sum(pred(c) for c in S)` …) had when it was stored in a local. The
    expression is remembered, so that a later comparison of the local with a constant refines S exactly as the inline
    comparison would; the memory is dropped as soon as a name the expression reads is assigned again."""

    def __init__(self, expr: ast.AST):
        self.expr = expr
        self.reads = frozenset(n.id for n in ast.walk(expr) if isinstance(n, ast.Name))

    def key(self) -> tuple:
        return ("I", "count", id(self.expr))


def _forget_counts(v: Any) -> Any:
    """v without remembered count expressions (for values that leave the scope the expression was read in, or sit in containers)."""
    if isinstance(v, ACount):
        return AInt()
    if isinstance(v, tuple):
        return tuple(_forget_counts(x) for x in v)
    if isinstance(v, list):
        return [_forget_counts(x) for x in v]
    if isinstance(v, ASeq) and isinstance(v.elem, ACount):
        return ASeq(AInt(), v.lo, v.hi)
    return v


class ASeq:
    """Homogeneous sequence (tuple/list/generator) of abstract elements with lo <= len <= hi."""

    def __init__(self, elem: Any, lo: int, hi: int | None):
        self.elem, self.lo, self.hi = elem, lo, hi

    def key(self) -> tuple:
        return ("Q", vkey(self.elem), self.lo, self.hi)


class AObj:
    def __init__(self, kind: str, **attrs: Any):
        self.kind = kind
        self.attrs = attrs

    def key(self) -> tuple:
        return ("O", self.kind, tuple(sorted((k, vkey(v)) for k, v in self.attrs.items())))


class _Unknown:
    def __repr__(self) -> str:
        return "UNKNOWN"

    def key(self) -> tuple:
        return ("U",)


UNKNOWN = _Unknown()
_INTERN: dict = {}


def _intern(d: DFA) -> int:
    k = d.key
    i = _INTERN.get(k)
    if i is None:
        i = len(_INTERN)
        _INTERN[k] = i
    return i


def vkey(v: Any) -> Any:
    if hasattr(v, "key") and not isinstance(v, (str, bytes)):
        return v.key()
    if isinstance(v, (tuple, list)):
        return (type(v).__name__, tuple(vkey(x) for x in v))
    if isinstance(v, (set, frozenset)):
        return ("set", tuple(sorted(map(repr, v))))
    if isinstance(v, dict):
        return ("dict", tuple(sorted((repr(k), vkey(x)) for k, x in v.items())))
    return ("c", type(v).__name__, repr(v))


class State:
    __slots__ = ("env", "meta")

    def __init__(self, env: dict | None = None, meta: dict | None = None):
        self.env = env or {}
        self.meta = meta or {}

    def set(self, name: str, v: Any) -> "State":
        e = dict(self.env)
        e[name] = v
        return State(e, self.meta)

    def with_meta(self, k: str, v: Any) -> "State":
        m = dict(self.meta)
        m[k] = v
        return State(self.env, m)

    def key(self) -> tuple:
        return (tuple(sorted((k, vkey(v)) for k, v in self.env.items())), tuple(sorted(self.meta.items())))


class Flow:
    def __init__(self) -> None:
        self.normal: list[State] = []
        self.ret: list[tuple[Any, State]] = []
        self.brk: list[State] = []
        self.cont: list[State] = []
        self.exc: list[tuple[str, State, ast.AST]] = []

    def absorb(self, o: "Flow") -> None:
        self.ret += o.ret
        self.brk += o.brk
        self.cont += o.cont
        self.exc += o.exc


_CMP_FLIP = {ast.Lt: ast.Gt, ast.Gt: ast.Lt, ast.LtE: ast.GtE, ast.GtE: ast.LtE, ast.Eq: ast.Eq, ast.NotEq: ast.NotEq}
_STR_PREDS = {
    "isalpha": "isalpha", "isdigit": "isdigit", "isalnum": "isalnum", "isdecimal": "isdecimal",
    "isspace": "isspace", "isascii": "isascii", "islower": None, "isupper": None,
}


def _dotted(e: ast.AST) -> str | None:
    if isinstance(e, ast.Name):
        return e.id
    if isinstance(e, ast.Attribute):
        b = _dotted(e.value)
        return f"{b}.{e.attr}" if b else None
    return None


class SInterp:
    """Forward abstract interpreter: sets of states, each mapping locals to concrete Python values
    or abstract strings (regular languages).  Disjunctive (forks at conditions, joins nowhere but by
    de-duplication at loop heads).  Unknown constructs raise Unsupported (-> ANALYSIS-ERROR)."""

    def __init__(self, A: Alphabet, functions: dict[str, ast.AST] | None = None, consts: dict[str, ast.AST] | None = None,
                 hooks: dict[str, Callable] | None = None, max_loop: int = 12):
        self.A = A
        self.K = A.K
        self.functions = functions or {}
        self.consts = consts or {}
        self.hooks = hooks or {}
        self.events: list[tuple] = []
        self.max_loop = max_loop
        self._const_cache: dict[str, Any] = {}
        self.depth = 0
        # references to constants of the stdlib `string` module as the analysed module spells them (`string.hexdigits`, or the
        # bare local name of a `from string import …`) -> their value.  Empty unless the rule resolved the module's imports.
        self.stdlib: dict[str, str] = {}

    # ------------------------------------------------------------------ helpers
    def lit(self, s: str) -> DFA:
        return L_word(self.K, self.A.word(s)) if all(self._single(c) for c in s) else self._loose(s)

    def _single(self, ch: str) -> bool:
        a = self.A.atoms[self.A.atom_of(ch)]
        return a.members is not None and len(a.members) == 1

    def _loose(self, s: str) -> DFA:
        out = L_eps(self.K)
        for ch in s:
            out = out.concat(L_chars(self.K, [self.A.atom_of(ch)]))
        return out

    def nat(self) -> DFA:
        zero = self.A.word("0")
        nz = self.A.of_chars("123456789")
        dig = nz | set(zero)
        return L_word(self.K, zero) | L_chars(self.K, nz).concat(L_chars(self.K, dig, 0, None))

    def to_astr(self, v: Any) -> AStr:
        if isinstance(v, AStr):
            return v
        if isinstance(v, str):
            return AStr(self.lit(v))
        if isinstance(v, AInt):
            return AStr(self.nat())
        if isinstance(v, bool) or v is None:
            return AStr(self.lit(str(v)))
        if isinstance(v, int):
            return AStr(self.lit(str(v)))
        raise Unsupported(f"cannot render {type(v).__name__} as a string")

    def chars_of(self, v: Any) -> frozenset:
        """Atoms of a concrete string used as a character set."""
        if not isinstance(v, str):
            raise Unsupported("character set argument is not a constant string")
        return self.A.of_chars(v)

    def charset_of(self, v: Any) -> frozenset:
        """Atoms of a population of characters: a concrete string, or an abstract string (then: every character that occurs
        in some string of the language — exact up to the alphabet's atoms)."""
        if isinstance(v, AStr):
            return lang_atoms(v.all)
        return self.chars_of(v)

    def _stdlib_str(self, e: ast.AST, st: State) -> str | None:
        """Concrete value of a reference to a stdlib `string` constant, or of a subscript / slice of one with known integer
        bounds (any Python slice: negative bounds, two-sided, step), else None.  A local of the same name shadows the import."""
        if not self.stdlib:
            return None
        if isinstance(e, (ast.Attribute, ast.Name)):
            d = _dotted(e)
            if d is None or d not in self.stdlib or d.split(".")[0] in st.env:
                return None
            return self.stdlib[d]
        if isinstance(e, ast.Subscript):
            base = self._stdlib_str(e.value, st)
            if base is None:
                return None
            sl = e.slice
            if isinstance(sl, ast.Slice):
                parts: list = []
                for b in (sl.lower, sl.upper, sl.step):
                    k = None if b is None else self._concrete_int(b, st)
                    if b is not None and k is None:
                        raise Unsupported(f"slice bound of `{ast.unparse(e)[:60]}` is not a known integer")
                    parts.append(k)
                if parts[2] == 0:
                    return None
                return base[slice(*parts)]
            k = self._concrete_int(sl, st)
            if k is None or not -len(base) <= k < len(base):
                return None
            return base[k]
        if isinstance(e, ast.Call) and isinstance(e.func, ast.Attribute) and e.func.attr in ("upper", "lower") and not e.args and not e.keywords:
            base = self._stdlib_str(e.func.value, st)
            return None if base is None else getattr(base, e.func.attr)()
        return None

    def event(self, *e: Any) -> None:
        self.events.append(e)

    # ------------------------------------------------------------------ calling analysed functions
    def call_function(self, fn: ast.AST, args: dict[str, Any], meta: dict | None = None) -> list[tuple[Any, State]]:
        """Interpret a function; returns (return value, final state) pairs.  Implicit return -> None."""
        a = fn.args
        env: dict[str, Any] = {}
        pos = a.posonlyargs + a.args
        defaults = dict(zip([p.arg for p in pos][len(pos) - len(a.defaults):], a.defaults)) if a.defaults else {}
        for p, d in zip(a.kwonlyargs, a.kw_defaults):
            if d is not None:
                defaults[p.arg] = d
        for p in pos + a.kwonlyargs:
            if p.arg in args:
                env[p.arg] = _forget_counts(args[p.arg])
            elif p.arg in defaults:
                vs = self.eval(defaults[p.arg], State())
                env[p.arg] = vs[0][0]
            else:
                env[p.arg] = UNKNOWN
        self.depth += 1
        if self.depth > 6:
            raise Unsupported("call depth")
        try:
            f = self.exec_block(fn.body, [State(env, meta or {})])
        finally:
            self.depth -= 1
        out = [(_forget_counts(v), s) for v, s in f.ret] + [(None, s) for s in f.normal]
        for name, s, node in f.exc:
            self.event("raise", name, node, s)
        return out

    # ------------------------------------------------------------------ statements
    def exec_block(self, body: list[ast.stmt], states: list[State]) -> Flow:
        flow = Flow()
        cur = states
        for s in body:
            if not cur:
                break
            f = self.exec_stmt(s, cur)
            flow.absorb(f)
            cur = f.normal
        flow.normal = cur
        return flow

    def exec_stmt(self, s: ast.stmt, states: list[State]) -> Flow:
        flow = Flow()
        if isinstance(s, (ast.Assign, ast.AnnAssign)):
            if isinstance(s, ast.AnnAssign) and s.value is None:
                flow.normal = states
                return flow
            targets = s.targets if isinstance(s, ast.Assign) else [s.target]
            for st in states:
                for v, st2 in self.eval_forking(s.value, st):
                    if type(v) is AInt and len(targets) == 1 and isinstance(targets[0], ast.Name) and self._count_expr(s.value, st2) is not None:
                        v = ACount(s.value)  # a count kept in a local: remembered symbolically (see _count_expr)
                    for t in targets:
                        st2 = self.assign(t, v, st2)
                    flow.normal.append(st2)
        elif isinstance(s, ast.AugAssign):
            load = ast.BinOp(left=_as_load(s.target), op=s.op, right=s.value)
            ast.copy_location(load, s)
            for st in states:
                for v, st2 in self.eval(load, st):
                    flow.normal.append(self.assign(s.target, v, st2))
        elif isinstance(s, ast.Expr):
            if isinstance(s.value, ast.Constant):
                flow.normal = states
            else:
                for st in states:
                    flow.normal += [st2 for _v, st2 in self.eval(s.value, st)]
        elif isinstance(s, ast.Return):
            for st in states:
                rs = [(None, st)] if s.value is None else self.eval(s.value, st)
                for v, st2 in rs:
                    self.event("return", s, v, st2, self.depth)
                flow.ret += rs
        elif isinstance(s, ast.Raise):
            name = "Exception"
            if s.exc is not None:
                e = s.exc.func if isinstance(s.exc, ast.Call) else s.exc
                name = (_dotted(e) or "Exception").split(".")[-1]
            flow.exc += [(name, st, s) for st in states]
        elif isinstance(s, ast.If):
            for st in states:
                t, f = self.branch(s.test, st)
                ft = self.exec_block(s.body, t) if t else Flow()
                ff = self.exec_block(s.orelse, f) if f else Flow()
                flow.absorb(ft)
                flow.absorb(ff)
                flow.normal += ft.normal + ff.normal
        elif isinstance(s, (ast.For, ast.AsyncFor)):
            self._loop_for(s, states, flow)
        elif isinstance(s, ast.While):
            self._loop_while(s, states, flow)
        elif isinstance(s, (ast.With, ast.AsyncWith)):
            cur = states
            for item in s.items:
                nxt = []
                for st in cur:
                    for v, st2 in self.eval(item.context_expr, st):
                        if item.optional_vars is not None:
                            st2 = self.assign(item.optional_vars, v, st2)
                        nxt.append(st2)
                cur = nxt
            f = self.exec_block(s.body, cur)
            flow.absorb(f)
            flow.normal = f.normal
        elif isinstance(s, ast.Try):
            f = self.exec_block(s.body, states)
            flow.ret += f.ret
            flow.brk += f.brk
            flow.cont += f.cont
            normal = list(f.normal)
            if s.orelse and normal:
                fo = self.exec_block(s.orelse, normal)
                flow.absorb(fo)
                normal = fo.normal
            for name, st, node in f.exc:
                handled = False
                for h in s.handlers:
                    names = []
                    if h.type is not None:
                        for e in h.type.elts if isinstance(h.type, ast.Tuple) else [h.type]:
                            names.append((_dotted(e) or "?").split(".")[-1])
                    if h.type is None or name in names or "Exception" in names or "BaseException" in names:
                        st2 = self._bind(st, h.name, UNKNOWN) if h.name else st
                        fh = self.exec_block(h.body, [st2])
                        flow.absorb(fh)
                        normal += fh.normal
                        handled = True
                        break
                if not handled:
                    flow.exc.append((name, st, node))
            if s.finalbody:
                ff = self.exec_block(s.finalbody, normal)
                flow.absorb(ff)
                normal = ff.normal
            flow.normal = normal
        elif isinstance(s, ast.Pass):
            flow.normal = states
        elif isinstance(s, ast.Break):
            flow.brk = states
        elif isinstance(s, ast.Continue):
            flow.cont = states
        elif isinstance(s, ast.Assert):
            for st in states:
                t, _f = self.branch(s.test, st)
                flow.normal += t
        elif isinstance(s, (ast.Import, ast.ImportFrom, ast.Global, ast.Nonlocal) + FuncNode):
            flow.normal = states
        else:
            raise Unsupported(f"statement {type(s).__name__} at line {s.lineno}")
        return flow

    def _dedupe(self, states: list[State], seen: set) -> list[State]:
        out = []
        for st in states:
            k = st.key()
            if k not in seen:
                seen.add(k)
                out.append(st)
        return out

    def _loop_for(self, s: ast.AST, states: list[State], flow: Flow) -> None:
        for st0 in states:
            for it, st in self.eval(s.iter, st0):
                if isinstance(it, (list, tuple, str)) and len(it) <= 16:
                    cur = [st]
                    broke: list[State] = []
                    for x in it:
                        cur = [self.assign(s.target, x, c) for c in cur]
                        f = self.exec_block(s.body, cur)
                        flow.ret += f.ret
                        flow.exc += f.exc
                        broke += f.brk
                        cur = f.normal + f.cont
                    if s.orelse and cur:
                        fo = self.exec_block(s.orelse, cur)
                        flow.absorb(fo)
                        cur = fo.normal
                    flow.normal += cur + broke
                    continue
                if isinstance(it, range):
                    elem, lo = AInt(), len(it)
                elif isinstance(it, ASeq):
                    elem, lo = it.elem, it.lo
                elif it is UNKNOWN:
                    elem, lo = UNKNOWN, 0
                else:
                    raise Unsupported(f"iteration over {type(it).__name__}")
                seen: set = set()
                heads = self._dedupe([st], seen)
                exits: list[State] = [st] if lo == 0 else []
                broke = []
                n = 0
                while heads:
                    n += 1
                    if n > self.max_loop:
                        raise Unsupported(f"loop at line {s.lineno} does not stabilise")
                    f = self.exec_block(s.body, [self.assign(s.target, elem, h) for h in heads])
                    flow.ret += f.ret
                    flow.exc += f.exc
                    broke += f.brk
                    nxt = f.normal + f.cont
                    exits += nxt
                    heads = self._dedupe(nxt, seen)
                if s.orelse and exits:
                    fo = self.exec_block(s.orelse, exits)
                    flow.absorb(fo)
                    exits = fo.normal
                flow.normal += exits + broke

    def _loop_while(self, s: ast.While, states: list[State], flow: Flow) -> None:
        seen: set = set()
        heads = self._dedupe(list(states), seen)
        exits: list[State] = []
        broke: list[State] = []
        n = 0
        while heads:
            n += 1
            if n > self.max_loop:
                raise Unsupported(f"loop at line {s.lineno} does not stabilise")
            nxt: list[State] = []
            for h in heads:
                t, f = self.branch(s.test, h)
                exits += f
                if t:
                    fb = self.exec_block(s.body, t)
                    flow.ret += fb.ret
                    flow.exc += fb.exc
                    broke += fb.brk
                    nxt += fb.normal + fb.cont
            heads = self._dedupe(nxt, seen)
        if s.orelse and exits:
            fo = self.exec_block(s.orelse, exits)
            flow.absorb(fo)
            exits = fo.normal
        flow.normal += exits + broke

    def assign(self, t: ast.AST, v: Any, st: State) -> State:
        if isinstance(t, ast.Name):
            return self._bind(st, t.id, v)
        if isinstance(t, (ast.Tuple, ast.List)):
            if isinstance(v, (tuple, list)) and len(v) == len(t.elts):
                for e, x in zip(t.elts, v):
                    st = self.assign(e, x, st)
                return st
            if isinstance(v, ASeq):
                for e in t.elts:
                    st = self.assign(e, v.elem, st)
                return st
            if v is UNKNOWN:
                for e in t.elts:
                    st = self.assign(e, UNKNOWN, st)
                return st
            raise Unsupported("tuple unpacking of a non-tuple value")
        if isinstance(t, (ast.Attribute, ast.Subscript)):
            return st  # stores into objects are not modelled (no analysed function depends on them)
        raise Unsupported(f"assignment target {type(t).__name__}")

    def _bind(self, st: State, name: str, v: Any) -> State:
        """(Re)bind a name: every remembered count expression that reads the name is forgotten; a remembered count survives
        only as the direct value of a local."""
        if isinstance(v, ACount):
            if name in v.reads:
                v = AInt()
        else:
            v = _forget_counts(v)
        env = {k: (AInt() if isinstance(x, ACount) and name in x.reads else x) for k, x in st.env.items()}
        env[name] = v
        return State(env, st.meta)

    # ------------------------------------------------------------------ conditions
    def eval_forking(self, e: ast.AST, st: State) -> list[tuple[Any, State]]:
        """Like eval, but a boolean-valued test over strings forks the state so that the stored
        boolean stays correlated with the refined string."""
        if isinstance(e, (ast.Compare, ast.BoolOp)) or (isinstance(e, ast.UnaryOp) and isinstance(e.op, ast.Not)):
            try:
                t, f = self.branch(e, st)
            except Unsupported:
                return self.eval(e, st)
            return [(True, s) for s in t] + [(False, s) for s in f]
        return self.eval(e, st)

    def branch(self, test: ast.AST, st: State) -> tuple[list[State], list[State]]:
        if isinstance(test, ast.UnaryOp) and isinstance(test.op, ast.Not):
            t, f = self.branch(test.operand, st)
            return f, t
        if isinstance(test, ast.BoolOp):
            if isinstance(test.op, ast.And):
                trues, falses = [st], []
                for v in test.values:
                    nt = []
                    for s in trues:
                        t, f = self.branch(v, s)
                        nt += t
                        falses += f
                    trues = nt
                return trues, falses
            trues, falses = [], [st]
            for v in test.values:
                nf = []
                for s in falses:
                    t, f = self.branch(v, s)
                    trues += t
                    nf += f
                falses = nf
            return trues, falses
        r = self._string_test(test, st)
        if r is not None:
            return r
        trues, falses = [], []
        for v, s in self.eval(test, st):
            if v is UNKNOWN or isinstance(v, AInt):
                if isinstance(test, ast.Name) and v is UNKNOWN:
                    trues.append(s.set(test.id, True))
                    falses.append(s.set(test.id, False))
                else:
                    trues.append(s)
                    falses.append(s)
            elif isinstance(v, AStr):
                ne = L_length(self.K, 1, None)
                a, b = v.map(lambda d: d & ne), v.map(lambda d: d - ne)
                if not a.dead():
                    trues.append(s.set(test.id, a) if isinstance(test, ast.Name) else s)
                if not b.dead():
                    falses.append(s.set(test.id, b) if isinstance(test, ast.Name) else s)
            elif isinstance(v, ASeq):
                if v.hi is None or v.hi > 0:
                    trues.append(s)
                if v.lo == 0:
                    falses.append(s)
            elif isinstance(v, AObj):
                trues.append(s)
            else:
                (trues if v else falses).append(s)
        return trues, falses

    def _string_test(self, test: ast.AST, st: State) -> tuple[list[State], list[State]] | None:
        """Tests whose truth is membership of one string expression in a regular language."""
        neg = False
        subject: ast.AST | None = None
        F: DFA | None = None
        if isinstance(test, ast.Compare) and len(test.ops) == 1:
            op, l, r = type(test.ops[0]), test.left, test.comparators[0]
            cnt = self._count_expr(l, st)
            if cnt is None and self._count_expr(r, st) is not None and op in _CMP_FLIP:
                op, l, r = _CMP_FLIP[op], r, l
                cnt = self._count_expr(l, st)
            if cnt is not None:
                k = self._concrete_int(r, st)
                if k is None:
                    return None
                rng = _int_range(op, k)
                if rng is None:
                    return None
                subject, atoms = cnt
                lo, hi, neg = rng
                F = L_count(self.K, atoms, lo, hi)
            elif op in (ast.Eq, ast.NotEq, ast.In, ast.NotIn):
                lv = self._maybe_const(l, st)
                rv = self._maybe_const(r, st)
                if op in (ast.Eq, ast.NotEq):
                    if isinstance(rv, str) and not isinstance(lv, str):
                        subject, F = l, self.lit(rv)
                    elif isinstance(lv, str) and not isinstance(rv, str):
                        subject, F = r, self.lit(lv)
                    else:
                        return None
                    neg = op is ast.NotEq
                else:
                    if isinstance(rv, (set, frozenset, list, tuple)) and all(isinstance(x, str) for x in rv) and not isinstance(lv, str):
                        subject, F = l, L_union(self.K, [self.lit(x) for x in rv])
                    elif isinstance(rv, str) and not isinstance(lv, (str, type(None))):
                        # substring test of a single abstract character in a constant string
                        subject, F = l, L_chars(self.K, self.chars_of(rv)) if rv else L_empty(self.K)
                        if lv is not _NOCONST:
                            return None
                    else:
                        return None
                    neg = op is ast.NotIn
                if not self._is_stringy(subject, st):
                    return None
            else:
                return None
        elif isinstance(test, ast.Call) and isinstance(test.func, ast.Attribute):
            m = test.func.attr
            if m in _STR_PREDS and not test.args:
                f = _STR_PREDS[m]
                if f is None:
                    return None
                subject, F = test.func.value, L_chars(self.K, self.A.select(f), 1, None)
            elif m in ("startswith", "endswith") and len(test.args) == 1:
                c = self._maybe_const(test.args[0], st)
                if not isinstance(c, str):
                    return None
                w = self.lit(c)
                subject = test.func.value
                F = w.concat(L_all(self.K)) if m == "startswith" else L_all(self.K).concat(w)
            else:
                return None
            if not self._is_stringy(subject, st):
                return None
        else:
            return None
        trues, falses = [], []
        for base, chain, v, s in self.sym_str(subject, st):
            if not isinstance(v, AStr):
                if v is UNKNOWN:
                    trues.append(s)
                    falses.append(s)
                    continue
                v = self.to_astr(v)
            Ft, Ff = (F.complement(), F) if neg else (F, F.complement())
            for lang, bucket in ((Ft, trues), (Ff, falses)):
                hit = v.map(lambda d: d & lang)
                if hit.dead():
                    continue
                if base is not None and isinstance(s.env.get(base), AStr):
                    pre = lang
                    for t in reversed(chain):
                        pre = pre.preimage(t)
                    x = s.env[base].map(lambda d: d & pre)
                    if x.dead():
                        continue
                    bucket.append(s.set(base, x))
                else:
                    bucket.append(s)
        return trues, falses

    def _is_stringy(self, e: ast.AST, st: State) -> bool:
        if isinstance(e, ast.Name):
            v = st.env.get(e.id, _NOCONST)
            return isinstance(v, (AStr, str))
        return isinstance(e, (ast.Subscript, ast.Call, ast.JoinedStr, ast.BinOp, ast.Attribute))

    def _maybe_const(self, e: ast.AST, st: State) -> Any:
        if isinstance(e, ast.Constant):
            return e.value
        if isinstance(e, ast.Name):
            if e.id in st.env:
                v = st.env[e.id]
                return v if isinstance(v, (str, int, bool, set, frozenset, list, tuple, type(None))) and not isinstance(v, AStr) else _NOCONST
            if e.id in self.consts:
                return self.const(e.id)
            v = self._stdlib_str(e, st)
            return _NOCONST if v is None else v
        if isinstance(e, (ast.Tuple, ast.List, ast.Set)):
            vs = [self._maybe_const(x, st) for x in e.elts]
            return _NOCONST if any(v is _NOCONST for v in vs) else tuple(vs)
        if isinstance(e, (ast.Attribute, ast.Subscript)):
            v = self._stdlib_str(e, st)
            return _NOCONST if v is None else v
        return _NOCONST

    def _concrete_int(self, e: ast.AST, st: State) -> int | None:
        try:
            vs = self.eval(e, st)
        except Unsupported:
            return None
        if len(vs) == 1 and isinstance(vs[0][0], int) and not isinstance(vs[0][0], bool):
            return vs[0][0]
        return None

    def _count_expr(self, e: ast.AST, st: State) -> tuple[ast.AST, frozenset] | None:
        """len(S) / sum(pred(c) for c in S) / sum(1 for c in S if pred(c)) / len([c for c in S if pred(c)])
        -> (S, atoms counted)."""
        if isinstance(e, ast.Name) and isinstance(st.env.get(e.id), ACount):
            # a local that still holds the value of a count expression whose operands have not been assigned since
            return self._count_expr(st.env[e.id].expr, st)
        if not (isinstance(e, ast.Call) and isinstance(e.func, ast.Name) and len(e.args) == 1 and not e.keywords):
            return None
        a = e.args[0]
        if e.func.id == "len":
            if isinstance(a, (ast.ListComp, ast.GeneratorExp)):
                r = self._comp_filter(a, st, want_elt_var=True)
                return r
            if self._is_stringy(a, st):
                return a, self.A.all_atoms
            return None
        if e.func.id == "sum" and isinstance(a, (ast.GeneratorExp, ast.ListComp)):
            return self._comp_filter(a, st, want_elt_var=False)
        return None

    def _comp_filter(self, comp: ast.AST, st: State, want_elt_var: bool) -> tuple[ast.AST, frozenset] | None:
        if len(comp.generators) != 1:
            return None
        g = comp.generators[0]
        if not isinstance(g.target, ast.Name) or not self._is_stringy(g.iter, st):
            return None
        var = g.target.id
        atoms = self.A.all_atoms
        for cond in g.ifs:
            atoms = atoms & self.char_pred(cond, var, st)
        elt = comp.elt
        if isinstance(elt, ast.Name) and elt.id == var and want_elt_var:
            return g.iter, atoms
        if isinstance(elt, ast.Constant) and elt.value in (1, True) and not want_elt_var:
            return g.iter, atoms
        if not want_elt_var:
            return g.iter, atoms & self.char_pred(elt, var, st)
        return None

    def char_pred(self, e: ast.AST, var: str, st: State) -> frozenset:
        """Atoms c for which the expression over the single-character variable is true."""
        if isinstance(e, ast.UnaryOp) and isinstance(e.op, ast.Not):
            return self.A.all_atoms - self.char_pred(e.operand, var, st)
        if isinstance(e, ast.BoolOp):
            parts = [self.char_pred(v, var, st) for v in e.values]
            out = parts[0]
            for p in parts[1:]:
                out = (out & p) if isinstance(e.op, ast.And) else (out | p)
            return out
        if isinstance(e, ast.Call) and isinstance(e.func, ast.Attribute) and isinstance(e.func.value, ast.Name) and e.func.value.id == var and not e.args:
            f = _STR_PREDS.get(e.func.attr)
            if f is not None:
                return self.A.select(f)
        if isinstance(e, ast.Compare) and len(e.ops) == 1 and isinstance(e.left, ast.Name) and e.left.id == var:
            c = self._maybe_const(e.comparators[0], st)
            op = type(e.ops[0])
            if isinstance(c, str) and op in (ast.In, ast.NotIn):
                s = self.chars_of(c) if c else frozenset()
                return s if op is ast.In else self.A.all_atoms - s
            if isinstance(c, str) and len(c) == 1 and op in (ast.Eq, ast.NotEq):
                s = frozenset(self.A.word(c))
                return s if op is ast.Eq else self.A.all_atoms - s
        raise Unsupported(f"character predicate `{ast.unparse(e)[:60]}`")

    # ------------------------------------------------------------------ symbolic string expressions
    def sym_str(self, e: ast.AST, st: State) -> list[tuple[str | None, list[FST], Any, State]]:
        """(base variable, transducer chain, value, state): value = chain applied to env[base]."""
        if isinstance(e, ast.Name) and isinstance(st.env.get(e.id), AStr):
            return [(e.id, [], st.env[e.id], st)]
        step = self._fst_step(e, st)
        if step is not None:
            inner, t, pre = step
            out = []
            for base, chain, v, s in self.sym_str(inner, st):
                if v is UNKNOWN:
                    out.append((None, [], UNKNOWN, s))
                    continue
                v = self.to_astr(v)
                if pre is not None:
                    pre(v, s, e)
                out.append((base, chain + [t], v.map(lambda d: d.image(t)), s))
            return out
        return [(None, [], v, s) for v, s in self.eval(e, st)]

    def _fst_step(self, e: ast.AST, st: State):
        """Recognise one string transformation: returns (inner expression, FST, pre-check) or None."""
        A = self.A
        if isinstance(e, ast.Subscript):
            if not self._is_stringy(e.value, st):
                return None
            if self._stdlib_str(e, st) is not None:
                return None  # constant slice of a stdlib constant: evaluated concretely by e_Subscript
            sl = e.slice
            if isinstance(sl, ast.Slice):
                if sl.step is not None:
                    raise Unsupported("slice step")
                lo = self._concrete_int(sl.lower, st) if sl.lower is not None else None
                hi = self._concrete_int(sl.upper, st) if sl.upper is not None else None
                if (sl.lower is not None and lo is None) or (sl.upper is not None and hi is None):
                    raise Unsupported(f"slice bound of `{ast.unparse(e)[:60]}` is not a known integer")
                if (lo or 0) < 0 or (hi is not None and hi < 0):
                    raise Unsupported("negative slice bound")
                if lo and hi is not None:
                    raise Unsupported("two-sided slice")
                if hi is not None:
                    return e.value, fst_prefix(A, hi), None
                return e.value, fst_drop(A, lo or 0), None
            k = self._concrete_int(sl, st)
            if k is None or k < 0:
                raise Unsupported(f"index of `{ast.unparse(e)[:60]}` is not a known non-negative integer")

            def pre(v: AStr, s: State, node: ast.AST, k: int = k) -> None:
                short = v.all & L_length(self.K, 0, k)
                self.event("index", node, None if short.is_empty() else short, s)

            return e.value, fst_charat(A, k), pre
        if isinstance(e, ast.Call):
            name = _dotted(e.func) or ""
            if isinstance(e.func, ast.Attribute) and self._is_stringy(e.func.value, st):
                m = e.func.attr
                recv = e.func.value
                if m == "lower" and not e.args:
                    return recv, fst_map(A, A.lower_image), None
                if m in ("strip", "lstrip", "rstrip"):
                    if len(e.args) == 1:
                        c = self._maybe_const(e.args[0], st)
                        if not isinstance(c, str):
                            raise Unsupported("strip() with a non-constant argument")
                        C = self.chars_of(c)
                    elif not e.args:
                        C = A.select("isspace")
                    else:
                        raise Unsupported("strip() arguments")
                    return recv, fst_strip(A, C, "all" if m in ("strip", "lstrip") else None, "all" if m in ("strip", "rstrip") else None), None
                if m == "replace" and len(e.args) == 2:
                    old, new = self._maybe_const(e.args[0], st), self._maybe_const(e.args[1], st)
                    if isinstance(old, str) and isinstance(new, str) and len(old) == 1:
                        o = A.word(old)[0]
                        n = A.loose_word(new)
                        return recv, fst_map(A, lambda a: n if a == o else (a,)), None
                    raise Unsupported("str.replace with a multi-character or non-constant pattern")
                if m in ("removeprefix", "removesuffix"):
                    raise Unsupported(m)
            # re.sub(pattern, repl, s) / PATTERN.sub(repl, s)
            pat = repl = subj = None
            if name.endswith(".sub") and isinstance(e.func, ast.Attribute):
                owner = self._maybe_regex(e.func.value, st)
                if name == "re.sub" and len(e.args) >= 3:
                    p = self._maybe_const(e.args[0], st)
                    if isinstance(p, str):
                        pat, repl, subj = p, e.args[1], e.args[2]
                    elif isinstance(p, ARegex):
                        pat, repl, subj = p.pattern, e.args[1], e.args[2]
                elif owner is not None and len(e.args) >= 2:
                    pat, repl, subj = owner.pattern, e.args[0], e.args[1]
            if pat is not None:
                if len(e.args) > (3 if name == "re.sub" else 2) or e.keywords:
                    raise Unsupported("re.sub with count/flags")
                r = self._maybe_const(repl, st)
                if not isinstance(r, str) or "\\" in r:
                    raise Unsupported("re.sub replacement is not a plain constant string")
                return subj, self.sub_fst(pat, r), None
        return None

    def _maybe_regex(self, e: ast.AST, st: State) -> "ARegex | None":
        if isinstance(e, ast.Name):
            v = st.env.get(e.id)
            if isinstance(v, ARegex):
                return v
            if e.id in self.consts:
                v = self.const(e.id)
                if isinstance(v, ARegex):
                    return v
        return None

    def sub_fst(self, pattern: str, repl: str) -> FST:
        """Transducer for re.sub(pattern, repl, ·), derived from the regex AST; three shapes:
        one character class; a run `[class]+`; alternatives of `^[class]` / `[class]$` (repl empty)."""
        A = self.A
        items = list(regex_parse(pattern).data)
        rw = A.loose_word(repl)
        if len(items) == 1:
            op, av = items[0]
            cl = class_atoms(A, op, av)
            if cl is not None:
                return fst_map(A, lambda a: rw if a in cl else (a,))
            if str(op) in ("MAX_REPEAT", "POSSESSIVE_REPEAT"):
                lo, hi, sub = av
                sub = list(sub)
                c1 = class_atoms(A, *sub[0]) if len(sub) == 1 else None
                if c1 is not None and lo == 1 and hi == _sc.MAXREPEAT:
                    return fst_collapse(A, c1, rw)
        branches = None
        if len(items) == 1 and str(items[0][0]) == "BRANCH":
            branches = [list(b) for b in items[0][1][1]]
        elif items and (_is_at(items[0], "AT_BEGINNING", "AT_BEGINNING_STRING") or _is_at(items[-1], "AT_END", "AT_END_STRING")):
            branches = [items]
        if branches is not None and repl == "":
            left = right = None
            C: frozenset | None = None
            dollar_nl = False
            for b in branches:
                if len(b) != 2:
                    raise Unsupported(f"re.sub pattern shape `{pattern}`")
                if _is_at(b[0], "AT_BEGINNING", "AT_BEGINNING_STRING"):
                    side, item = "left", b[1]
                elif _is_at(b[1], "AT_END", "AT_END_STRING"):
                    side, item = "right", b[0]
                    dollar_nl = dollar_nl or str(b[1][1]) == "AT_END"
                else:
                    raise Unsupported(f"re.sub pattern shape `{pattern}`")
                mode = "one"
                cl = class_atoms(A, *item)
                if cl is None and str(item[0]) in ("MAX_REPEAT", "POSSESSIVE_REPEAT"):
                    lo, hi, sub = item[1]
                    sub = list(sub)
                    cl = class_atoms(A, *sub[0]) if len(sub) == 1 else None
                    if cl is None or lo != 1 or hi != _sc.MAXREPEAT:
                        raise Unsupported(f"re.sub pattern shape `{pattern}`")
                    mode = "all"
                if cl is None or (C is not None and cl != C):
                    raise Unsupported(f"re.sub pattern shape `{pattern}`")
                C = cl
                if side == "left":
                    left = mode
                else:
                    right = mode
            return fst_strip(A, C, left, right, dollar_newline=dollar_nl and right == "one")
        raise Unsupported(f"re.sub pattern shape `{pattern}`")

    # ------------------------------------------------------------------ constants of the module
    def const(self, name: str) -> Any:
        if name not in self._const_cache:
            vs = self.eval(self.consts[name], State())
            self._const_cache[name] = vs[0][0]
        return self._const_cache[name]

    # ------------------------------------------------------------------ expressions
    def evals(self, exprs: list[ast.AST], st: State) -> list[tuple[list, State]]:
        acc: list[tuple[list, State]] = [([], st)]
        for e in exprs:
            nxt = []
            for vals, s in acc:
                for v, s2 in self.eval(e, s):
                    nxt.append((vals + [v], s2))
            acc = nxt
        return acc

    def eval(self, e: ast.AST, st: State) -> list[tuple[Any, State]]:
        m = getattr(self, "e_" + type(e).__name__, None)
        if m is None:
            raise Unsupported(f"expression {type(e).__name__}: `{ast.unparse(e)[:60]}`")
        return m(e, st)

    def e_Constant(self, e, st):
        return [(e.value, st)]

    def e_Name(self, e, st):
        if e.id in st.env:
            return [(st.env[e.id], st)]
        if e.id in self.consts:
            return [(self.const(e.id), st)]
        if self.stdlib and e.id in self.stdlib:
            return [(self.stdlib[e.id], st)]
        if e.id in ("True", "False", "None"):
            return [({"True": True, "False": False, "None": None}[e.id], st)]
        return [(UNKNOWN, st)]

    def e_Await(self, e, st):
        return self.eval(e.value, st)

    def e_Tuple(self, e, st):
        return [(tuple(vs), s) for vs, s in self.evals(e.elts, st)]

    def e_List(self, e, st):
        return [(list(vs), s) for vs, s in self.evals(e.elts, st)]

    def e_Set(self, e, st):
        out = []
        for vs, s in self.evals(e.elts, st):
            try:
                out.append((frozenset(vs), s))
            except TypeError:
                raise Unsupported("set of abstract values")
        return out

    def e_Dict(self, e, st):
        return [(UNKNOWN, st)]

    def e_IfExp(self, e, st):
        t, f = self.branch(e.test, st)
        out = []
        for s in t:
            out += self.eval(e.body, s)
        for s in f:
            out += self.eval(e.orelse, s)
        return out

    def e_UnaryOp(self, e, st):
        if isinstance(e.op, ast.Not):
            t, f = self.branch(e.operand, st)
            return [(False, s) for s in t] + [(True, s) for s in f]
        out = []
        for v, s in self.eval(e.operand, st):
            if isinstance(v, int) and isinstance(e.op, ast.USub):
                out.append((-v, s))
            else:
                out.append((UNKNOWN, s))
        return out

    def e_BoolOp(self, e, st):
        t, f = self.branch(e, st)
        return [(True, s) for s in t] + [(False, s) for s in f]

    def e_Compare(self, e, st):
        r = self._string_test(e, st)
        if r is not None:
            return [(True, s) for s in r[0]] + [(False, s) for s in r[1]]
        out = []
        for (vals, s) in self.evals([e.left] + list(e.comparators), st):
            if any(isinstance(v, (AStr, AInt, ASeq, AObj, _Unknown)) for v in vals):
                if len(e.ops) == 1 and isinstance(e.ops[0], (ast.Is, ast.IsNot)) and vals[1] is None and vals[0] is not UNKNOWN:
                    out.append((isinstance(e.ops[0], ast.IsNot), s))
                else:
                    out.append((UNKNOWN, s))
                continue
            ok = True
            left = vals[0]
            import operator as _o
            table = {ast.Eq: _o.eq, ast.NotEq: _o.ne, ast.Lt: _o.lt, ast.LtE: _o.le, ast.Gt: _o.gt, ast.GtE: _o.ge,
                     ast.Is: _o.is_, ast.IsNot: _o.is_not, ast.In: lambda a, b: a in b, ast.NotIn: lambda a, b: a not in b}
            try:
                for op, right in zip(e.ops, vals[1:]):
                    if not table[type(op)](left, right):
                        ok = False
                        break
                    left = right
            except TypeError:
                raise Unsupported(f"comparison `{ast.unparse(e)[:60]}`")
            out.append((ok, s))
        return out

    def e_BinOp(self, e, st):
        out = []
        for (l, r), s in self.evals([e.left, e.right], st):
            if l is UNKNOWN or r is UNKNOWN:
                out.append((UNKNOWN, s))
            elif isinstance(e.op, ast.Add) and (isinstance(l, (AStr, str)) and isinstance(r, (AStr, str))):
                if isinstance(l, str) and isinstance(r, str):
                    out.append((l + r, s))
                else:
                    out.append((self.concat([l, r]), s))
            elif isinstance(l, int) and isinstance(r, int):
                import operator as _o
                f = {ast.Add: _o.add, ast.Sub: _o.sub, ast.Mult: _o.mul, ast.FloorDiv: _o.floordiv, ast.Mod: _o.mod}.get(type(e.op))
                if f is None:
                    raise Unsupported("integer operator")
                out.append((f(l, r), s))
            elif isinstance(l, tuple) and isinstance(r, tuple) and isinstance(e.op, ast.Add):
                out.append((l + r, s))
            elif isinstance(l, (AInt, int)) and isinstance(r, (AInt, int)):
                out.append((AInt(), s))
            else:
                raise Unsupported(f"operator in `{ast.unparse(e)[:60]}`")
        return out

    def concat(self, parts: list) -> AStr:
        """Concatenation with provenance: random as soon as one part is random."""
        plain = L_eps(self.K)
        rand = L_empty(self.K)
        for p in parts:
            p = self.to_astr(p)
            rand = rand.concat(p.all) | plain.concat(p.rand)
            plain = plain.concat(p.plain)
        return AStr(plain, rand)

    def e_JoinedStr(self, e, st):
        exprs = []
        for v in e.values:
            if isinstance(v, ast.FormattedValue):
                if v.format_spec is not None or v.conversion not in (-1, ord("s")):
                    raise Unsupported("f-string format spec / conversion")
                exprs.append(v.value)
            else:
                exprs.append(v)
        out = []
        for vals, s in self.evals(exprs, st):
            if any(v is UNKNOWN for v in vals):
                out.append((UNKNOWN, s))
            else:
                out.append((self.concat(vals), s))
        return out

    def e_Subscript(self, e, st):
        v0 = self._stdlib_str(e, st)
        if v0 is not None:
            return [(v0, st)]
        if self._fst_step(e, st) is not None:
            return [(v, s) for _b, _c, v, s in self.sym_str(e, st)]
        out = []
        for v, s in self.eval(e.value, st):
            if v is UNKNOWN:
                out.append((UNKNOWN, s))
                continue
            if isinstance(e.slice, ast.Slice):
                lo = self._concrete_int(e.slice.lower, s) if e.slice.lower is not None else None
                hi = self._concrete_int(e.slice.upper, s) if e.slice.upper is not None else None
                if isinstance(v, (tuple, list, str)):
                    out.append((v[lo:hi], s))
                    continue
                raise Unsupported(f"slice of {type(v).__name__}")
            k = self._concrete_int(e.slice, s)
            if isinstance(v, (tuple, list, str)) and k is not None:
                if not -len(v) <= k < len(v):
                    self.event("index", e, L_eps(self.K), s)
                    continue
                out.append((v[k], s))
            elif isinstance(v, ASeq):
                out.append((v.elem, s))
            elif isinstance(v, AStr):
                for _b, _c, v2, s2 in self.sym_str(e, s):
                    out.append((v2, s2))
            else:
                raise Unsupported(f"subscript of {type(v).__name__}")
        return out

    def e_Attribute(self, e, st):
        name = _dotted(e)
        if name and name in self.hooks:
            return self.hooks[name](self, e, [], {}, st)
        v0 = self._stdlib_str(e, st)
        if v0 is not None:
            return [(v0, st)]
        out = []
        for v, s in self.eval(e.value, st):
            if isinstance(v, AObj):
                if e.attr in v.attrs:
                    out.append((v.attrs[e.attr], s))
                    continue
                h = self.hooks.get(f"{v.kind}.{e.attr}")
                if h is not None:
                    out += h(self, e, [v], {}, s)
                    continue
                raise Unsupported(f"attribute {e.attr} of {v.kind}")
            out.append((UNKNOWN, s))
        return out

    def e_GeneratorExp(self, e, st):
        if len(e.generators) != 1 or e.generators[0].ifs:
            raise Unsupported("comprehension shape")
        g = e.generators[0]
        out = []
        for it, s in self.eval(g.iter, st):
            if isinstance(it, (tuple, list)):
                vals = []
                for x in it:
                    r = self.eval(e.elt, self.assign(g.target, x, s))
                    if len(r) != 1:
                        raise Unsupported("forking comprehension element")
                    vals.append(r[0][0])
                out.append((tuple(vals), s))
            elif isinstance(it, ASeq):
                r = self.eval(e.elt, self.assign(g.target, it.elem, s))
                if len(r) != 1:
                    raise Unsupported("forking comprehension element")
                out.append((ASeq(r[0][0], it.lo, it.hi), s))
            elif it is UNKNOWN:
                out.append((UNKNOWN, s))
            else:
                raise Unsupported(f"comprehension over {type(it).__name__}")
        return out

    e_ListComp = e_GeneratorExp

    def join(self, sep: Any, seq: Any) -> Any:
        if seq is UNKNOWN or sep is UNKNOWN:
            return UNKNOWN
        if isinstance(seq, (tuple, list)):
            parts: list = []
            for i, x in enumerate(seq):
                if i:
                    parts.append(sep)
                parts.append(x)
            return self.concat(parts) if parts else ""
        if isinstance(seq, ASeq):
            el = self.to_astr(seq.elem)
            sp = self.to_astr(sep)
            if seq.hi is not None and seq.hi > 70:
                raise Unsupported("long sequence")
            any_rand = not (el.rand.is_empty() and sp.rand.is_empty())
            E, S = el.all, sp.all
            unit = S.concat(E)
            if seq.lo == 0:
                base = L_eps(self.K)
                lo, hi = 0, seq.hi
                body = E.concat(_power_any(unit, 0, None if hi is None else hi - 1)) if (hi is None or hi >= 1) else L_empty(self.K)
                lang = base | body
            else:
                lang = E.concat(_power_any(unit, seq.lo - 1, None if seq.hi is None else seq.hi - 1))
            return AStr(L_empty(self.K), lang) if any_rand else AStr(lang)
        raise Unsupported(f"join over {type(seq).__name__}")

    def e_Call(self, e, st):
        name = _dotted(e.func)
        v0 = self._stdlib_str(e, st) if self.stdlib else None
        if v0 is not None:
            return [(v0, st)]
        # transformations of strings
        if self._fst_step(e, st) is not None:
            return [(v, s) for _b, _c, v, s in self.sym_str(e, st)]
        if name in self.hooks:
            out = []
            for vals, s in self.evals(list(e.args) + [k.value for k in e.keywords], st):
                args = vals[: len(e.args)]
                kw = {k.arg: v for k, v in zip(e.keywords, vals[len(e.args):])}
                out += self.hooks[name](self, e, args, kw, s)
            return out
        if isinstance(e.func, ast.Attribute) and e.func.attr == "join" and len(e.args) == 1:
            out = []
            for (sep, seq), s in self.evals([e.func.value, e.args[0]], st):
                out.append((self.join(sep, seq), s))
            return out
        if isinstance(e.func, ast.Attribute):
            # method of an abstract object
            out = []
            handled = False
            for v, s in self.eval(e.func.value, st):
                if isinstance(v, AObj) and f"{v.kind}.{e.func.attr}" in self.hooks:
                    handled = True
                    for vals, s2 in self.evals(list(e.args) + [k.value for k in e.keywords], s):
                        args = vals[: len(e.args)]
                        kw = {k.arg: x for k, x in zip(e.keywords, vals[len(e.args):])}
                        out += self.hooks[f"{v.kind}.{e.func.attr}"](self, e, [v] + args, kw, s2)
                elif isinstance(v, (AStr, str)) and e.func.attr in _STR_PREDS:
                    t, f = self.branch(e, s)
                    return [(True, x) for x in t] + [(False, x) for x in f]
                elif isinstance(v, (AStr, str)) and e.func.attr == "encode":
                    handled = True
                    out.append((v, s))
                else:
                    out.append((UNKNOWN, s))
            if handled or out:
                return out
        if name in self.functions:
            fn = self.functions[name]
            out = []
            for vals, s in self.evals(list(e.args) + [k.value for k in e.keywords], st):
                params = [p.arg for p in fn.args.posonlyargs + fn.args.args]
                args = dict(zip(params, vals[: len(e.args)]))
                args.update({k.arg: v for k, v in zip(e.keywords, vals[len(e.args):])})
                for rv, fs in self.call_function(fn, args, s.meta):
                    out.append((rv, State(s.env, fs.meta)))
            return out
        if name == "len" and len(e.args) == 1:
            out = []
            for v, s in self.eval(e.args[0], st):
                if isinstance(v, (str, tuple, list, set, frozenset, dict)):
                    out.append((len(v), s))
                else:
                    out.append((AInt() if isinstance(v, (AStr, ASeq)) else UNKNOWN, s))
            return out
        if name == "str" and len(e.args) == 1:
            return [((v if isinstance(v, (AStr, str)) or v is UNKNOWN else self.to_astr(v)), s) for v, s in self.eval(e.args[0], st)]
        if name == "map" and len(e.args) == 2 and isinstance(e.args[0], ast.Name) and e.args[0].id == "str":
            out = []
            for it, s in self.eval(e.args[1], st):
                if isinstance(it, ASeq):
                    out.append((ASeq(it.elem if isinstance(it.elem, (AStr, str)) else self.to_astr(it.elem), it.lo, it.hi), s))
                elif isinstance(it, (tuple, list)):
                    out.append((tuple(x if isinstance(x, (AStr, str)) else self.to_astr(x) for x in it), s))
                else:
                    out.append((UNKNOWN, s))
            return out
        if name == "range":
            out = []
            for vals, s in self.evals(list(e.args), st):
                out.append((range(*vals) if all(isinstance(v, int) for v in vals) else UNKNOWN, s))
            return out
        if name in ("bool",) and len(e.args) == 1:
            t, f = self.branch(e.args[0], st)
            return [(True, s) for s in t] + [(False, s) for s in f]
        if name in ("sorted", "list", "tuple", "set", "frozenset") and len(e.args) == 1:
            out = []
            for v, s in self.eval(e.args[0], st):
                if isinstance(v, (set, frozenset, list, tuple)) and not any(isinstance(x, (AStr, AInt)) for x in v):
                    out.append(({"sorted": sorted, "list": list, "tuple": tuple, "set": frozenset, "frozenset": frozenset}[name](v), s))
                else:
                    out.append((v if isinstance(v, ASeq) else UNKNOWN, s))
            return out
        # anything else: evaluate the arguments for their events, result unknown
        out = []
        for _vals, s in self.evals(list(e.args) + [k.value for k in e.keywords], st):
            out.append((UNKNOWN, s))
        return out


class ARegex(AObj):
    def __init__(self, pattern: str):
        super().__init__("@regex")
        self.pattern = pattern

    def key(self) -> tuple:
        return ("R", self.pattern)


_NOCONST = object()


def _power_any(d: DFA, lo: int, hi: int | None) -> DFA:
    out = L_eps(d.K)
    for _ in range(lo):
        out = out.concat(d)
    if hi is None:
        return out.concat(d.star())
    opt = d.optional()
    for _ in range(hi - lo):
        out = out.concat(opt)
    return out


def _as_load(t: ast.AST) -> ast.AST:
    import copy

    n = copy.copy(t)
    n.ctx = ast.Load()
    return n


def _int_range(op: type, k: int) -> tuple[int, int | None, bool] | None:
    """count `op` k  ->  (lo, hi, negate)"""
    if op is ast.Lt:
        return (0, k - 1, False) if k >= 1 else _empty_range(k)
    if op is ast.LtE:
        return (0, k, False) if k >= 0 else _empty_range(0)
    if op is ast.Gt:
        return (max(k + 1, 0), None, False)
    if op is ast.GtE:
        return (max(k, 0), None, False)
    if op is ast.Eq:
        return (k, k, False) if k >= 0 else _empty_range(0)
    if op is ast.NotEq:
        return (k, k, True) if k >= 0 else (0, None, False)
    return None


def _empty_range(_k: int) -> tuple[int, int | None, bool]:
    # "count < 0" etc.: never true  ==  not (count >= 0)
    return (0, None, True)


def hook_re_compile(interp: SInterp, node: ast.AST, args: list, kw: dict, st: State):
    if len(args) == 1 and isinstance(args[0], str) and not kw:
        return [(ARegex(args[0]), st)]
    raise Unsupported("re.compile with flags or a non-constant pattern")


def module_consts(m) -> dict[str, ast.AST]:
    """Module-level `NAME = <expr>` assignments (value ASTs), for lazy constant evaluation."""
    out: dict[str, ast.AST] = {}
    for n in m.tree.body:
        if isinstance(n, ast.Assign) and len(n.targets) == 1 and isinstance(n.targets[0], ast.Name):
            out[n.targets[0].id] = n.value
        elif isinstance(n, ast.AnnAssign) and isinstance(n.target, ast.Name) and n.value is not None:
            out[n.target.id] = n.value
    return out


def collect_preds(nodes: Iterable[ast.AST]) -> set:
    """str predicates consulted by the analysed code (method names, bare strip(), regex categories)."""
    out: set = set()
    for root in nodes:
        for n in ast.walk(root):
            if isinstance(n, ast.Attribute) and _STR_PREDS.get(n.attr) in ALL_PREDS:
                out.add(n.attr)
            if isinstance(n, ast.Call) and isinstance(n.func, ast.Attribute) and n.func.attr in ("strip", "lstrip", "rstrip", "split") and not n.args:
                out.add("isspace")
            if isinstance(n, ast.Call) and (_dotted(n.func) or "").startswith("re.") and n.args and isinstance(n.args[0], ast.Constant) and isinstance(n.args[0].value, str):
                try:
                    out |= regex_preds(n.args[0].value)
                except Exception:
                    pass
    return out


def collect_literals(nodes: Iterable[ast.AST]) -> tuple[set, list]:
    """Characters / character sets mentioned by string constants and regex patterns in the given ASTs:
    strings of up to 3 characters contribute singletons, longer ones a set; every constant that parses
    as a regex and is used as first argument of re.* contributes its literals and ranges."""
    singles: set = set()
    sets: list = []
    skip: set = set()
    for root in nodes:
        for n in ast.walk(root):
            if isinstance(n, ast.Expr) and isinstance(n.value, ast.Constant):
                skip.add(id(n.value))  # docstrings
            elif isinstance(n, ast.Raise):
                skip |= {id(x) for x in ast.walk(n)}  # error messages
    for root in nodes:
        for n in ast.walk(root):
            if id(n) in skip:
                continue
            if isinstance(n, ast.Call):
                nm = _dotted(n.func) or ""
                if nm.startswith("re.") and n.args and isinstance(n.args[0], ast.Constant) and isinstance(n.args[0].value, str):
                    s1, s2 = regex_charsets(n.args[0].value)
                    singles |= s1
                    sets += s2
                    skip.add(id(n.args[0]))
                    continue
            if isinstance(n, ast.Constant) and isinstance(n.value, str) and n.value.isascii():
                if len(n.value) <= 3:
                    singles |= set(n.value)
                elif len(n.value) <= 64:
                    sets.append(set(n.value))
    return singles, sets


# =====================================================================================
# C32 proper
# =====================================================================================

EXPLANATION = (
    "Abstract interpretation of `find_deployment_id` (+ the helpers it calls, inlined) in control_plane/k8s_client.py. Every string "
    "is a regular language over a symbolic alphabet whose letters are classes of Unicode characters that no operation of the code can "
    "tell apart (classes derived on every run from the code's own character sets and from CPython's str.lower/isalpha/isdigit tables "
    "over all 1.1M code points, so the result holds for every Unicode display name of every length). Transfer functions: lower(), "
    "re.sub for the three pattern shapes (class substitution, run collapsing, anchored deletion; effect derived from the regex AST), "
    "slicing, strip, concatenation/f-strings, random.choice(s) with a provenance mark, branches refined by len()/truthiness/"
    "first-character tests, the retry loop to a fixpoint. "
    "R1: the language of every returned value is included in the language of `_DNS_1035_RE` (regex AST from core/schema/deployments.py, "
    "`$` read strictly) and in length <= 63, and no subscript can raise IndexError for any name. "
    "Random draws are decided, not trusted: the population of every `random.choice(s)` reached (the two functions are bound through the module's "
    "imports, aliases included) is evaluated to a set of characters — a string literal, a constant of the stdlib `string` module "
    "(ascii_letters, ascii_lowercase, ascii_uppercase, digits, hexdigits, octdigits, punctuation, whitespace, printable: values of the checker's own stdlib, "
    "bound through `import string [as …]` / `from string import …`), any constant slice or subscript of one (`string.hexdigits[:16]`, `[:-6]`, `[::2]`; bounds may be "
    "literals, module constants or locals), concatenations of these, or a string the interpreter followed — and the alphabet is refined by these sets. "
    "The drawn characters then take part in the returned language (so a leading-character draw that may yield a digit, or a suffix draw that may yield an upper-case letter, "
    "shows up in R1/return with a witness id, the offending position and the draws whose population holds that character), and "
    "R1/draw: for each draw site, every character of its population that can reach a returned id is a character that occurs in some DNS-1035 label "
    "(the label alphabet is read off the regex automaton); a population with foreign characters is confirmed by a counterfactual interpretation "
    "in which this one draw is confined to label characters — if invalid ids disappear, the draw is reported with its population and the foreign characters. "
    "R2: (a) for names whose lowercased form has k = 0, 1, 2 ASCII alphanumerics, no returned id is free of a randomly drawn part; "
    "(b) for names with >= 3 of them and force_suffix=False the first candidate offered to the availability check has no random part; "
    "(c) for names with exactly 3 of them (length <= 20) that candidate still has >= 3 alphanumerics (none was dropped). "
    "Not decided: uniqueness against the cluster (validate_deployment_id is an oracle that may answer anything), that the kept "
    "alphanumerics are the same characters in the same order (only their number), quality of the randomness."
)
TRUSTED = ["CPython ast, re._parser (regex ASTs), str.lower/isalpha/isdigit/isalnum tables", "random.choices/choice return members of the given population",
           "values of the str constants of the stdlib `string` module (taken from the checker's interpreter)"]
LEVEL_NOTE = "necessary conditions decided exactly on a regular-language abstraction; sound for all Unicode names and lengths; not a proof of uniqueness"
TECHNIQUE = "abstract interpretation over regular languages (symbolic alphabet, transducer images, language inclusion)"

K8S = "llama_agents.control_plane.k8s_client"
CORE = "llama_agents.core.schema.deployments"
ENTRY = "find_deployment_id"
ORACLE = "validate_deployment_id"
DNS_CONST = "_DNS_1035_RE"
MAXLEN = 63
FIXTURE = "fixtures/c32/planted.py"


def _const_regex(consts: dict[str, ast.AST], name: str) -> str:
    v = consts.get(name)
    if isinstance(v, ast.Call) and (_dotted(v.func) or "").endswith("compile") and v.args and isinstance(v.args[0], ast.Constant) and isinstance(v.args[0].value, str) and len(v.args) == 1 and not v.keywords:
        return v.args[0].value
    raise AnchorError(f"`{name}` is not a module-level re.compile(<constant pattern>)")


def _reachable_functions(functions: dict[str, ast.AST], entry: str, stop: Iterable[str] = ()) -> dict[str, ast.AST]:
    out: dict[str, ast.AST] = {}
    todo = [entry]
    while todo:
        n = todo.pop()
        if n in out or n not in functions or n in stop:
            continue
        out[n] = functions[n]
        for c in ast.walk(functions[n]):
            if isinstance(c, ast.Call) and isinstance(c.func, ast.Name):
                todo.append(c.func.id)
    return out


def _stdlib_string_values() -> dict[str, str]:
    """The str constants of the checker's own stdlib `string` module (trusted; nothing of /repo is involved)."""
    import string as _string

    return {k: v for k, v in vars(_string).items() if not k.startswith("_") and isinstance(v, str)}


def import_bindings(tree: ast.AST | None) -> tuple[dict[str, str], dict[str, str]]:
    """From the import statements of the analysed module (module level or inside functions):
    ({spelling of a stdlib string constant in this module: its value}, {spelling of random.choice / random.choices: canonical name}).
    `import string` / `import string as s` give the dotted spellings, `from string import digits [as d]` the bare ones."""
    values = _stdlib_string_values()
    consts: dict[str, str] = {}
    draws: dict[str, str] = {"random.choice": "random.choice", "random.choices": "random.choices"}
    for n in ast.walk(tree) if tree is not None else ():
        if isinstance(n, ast.Import):
            for a in n.names:
                local = a.asname or a.name
                if a.name == "string":
                    consts.update({f"{local}.{k}": v for k, v in values.items()})
                elif a.name == "random":
                    draws.update({f"{local}.choice": "random.choice", f"{local}.choices": "random.choices"})
        elif isinstance(n, ast.ImportFrom) and not n.level:
            for a in n.names:
                if n.module == "string" and a.name in values:
                    consts[a.asname or a.name] = values[a.name]
                elif n.module == "random" and a.name in ("choice", "choices"):
                    draws[a.asname or a.name] = f"random.{a.name}"
    return consts, draws


def _static_int(e: ast.AST | None, ints: dict[str, int]) -> int | None:
    if isinstance(e, ast.Constant) and isinstance(e.value, int) and not isinstance(e.value, bool):
        return e.value
    if isinstance(e, ast.UnaryOp) and isinstance(e.op, ast.USub):
        v = _static_int(e.operand, ints)
        return None if v is None else -v
    if isinstance(e, ast.Name):
        return ints.get(e.id)
    if isinstance(e, ast.BinOp) and isinstance(e.op, (ast.Add, ast.Sub)):
        l, r = _static_int(e.left, ints), _static_int(e.right, ints)
        if l is not None and r is not None:
            return l + r if isinstance(e.op, ast.Add) else l - r
    return None


def stdlib_charsets(nodes: Iterable[ast.AST], stdlib: dict[str, str], consts: dict[str, ast.AST]) -> list[set]:
    """Character sets the alphabet has to refine because the analysed code obtains them from the stdlib `string` module:
    every referenced constant, and every slice / subscript of one whose bounds are integer literals, module-level integer
    constants or locals assigned once to such (bounds that are not, are left to the interpreter, which refuses a population
    the alphabet does not refine)."""
    if not stdlib:
        return []
    out: list[set] = []

    def value(e: ast.AST, ints: dict[str, int]) -> str | None:
        if isinstance(e, (ast.Attribute, ast.Name)):
            return stdlib.get(_dotted(e) or "")
        if isinstance(e, ast.Subscript):
            base = value(e.value, ints)
            if base is None:
                return None
            if isinstance(e.slice, ast.Slice):
                parts = []
                for b in (e.slice.lower, e.slice.upper, e.slice.step):
                    k = None if b is None else _static_int(b, ints)
                    if (b is not None and k is None) or (b is e.slice.step and k == 0):
                        return None
                    parts.append(k)
                return base[slice(*parts)]
            k = _static_int(e.slice, ints)
            return base[k] if k is not None and -len(base) <= k < len(base) else None
        if isinstance(e, ast.Call) and isinstance(e.func, ast.Attribute) and e.func.attr in ("upper", "lower") and not e.args and not e.keywords:
            base = value(e.func.value, ints)
            return None if base is None else getattr(base, e.func.attr)()
        return None

    mod_ints = {k: v.value for k, v in consts.items() if isinstance(v, ast.Constant) and isinstance(v.value, int) and not isinstance(v.value, bool)}
    for root in nodes:
        ints = dict(mod_ints)
        stores: dict[str, list] = {}
        for n in ast.walk(root):
            if isinstance(n, ast.Name) and isinstance(n.ctx, ast.Store):
                stores.setdefault(n.id, []).append(n)
            elif isinstance(n, ast.arg):
                stores.setdefault(n.arg, []).append(n)
        for n in ast.walk(root):
            if isinstance(n, ast.Assign) and len(n.targets) == 1 and isinstance(n.targets[0], ast.Name) and len(stores.get(n.targets[0].id, ())) == 1:
                k = _static_int(n.value, mod_ints)
                if k is not None:
                    ints[n.targets[0].id] = k
        for n in ast.walk(root):
            v = value(n, ints) if isinstance(n, (ast.Attribute, ast.Name, ast.Subscript, ast.Call)) else None
            if v:
                if not v.isascii():
                    raise Unsupported("non-ASCII stdlib string constant")
                out.append(set(v))
    return out


class _Analysis:
    """All C32 queries on one module (the repo's, or the planted fixture)."""

    def __init__(self, functions: dict[str, ast.AST], consts: dict[str, ast.AST], dns_pattern: str, tree: ast.AST | None = None):
        if ENTRY not in functions:
            raise AnchorError(f"function `{ENTRY}` not found")
        self.entry = functions[ENTRY]
        reach = _reachable_functions(functions, ENTRY, stop=(ORACLE,))
        self.inline = {k: v for k, v in reach.items() if k not in (ENTRY, ORACLE)}
        if not any(isinstance(c, ast.Call) and _dotted(c.func) == ORACLE for c in ast.walk(self.entry)):
            raise AnchorError(f"`{ENTRY}` no longer consults `{ORACLE}`")
        singles, sets = collect_literals([self.entry] + list(self.inline.values()))
        # how this module spells the constants of the stdlib `string` module and the two draws of `random` (from its imports)
        self.stdlib, self.draw_names = import_bindings(tree)
        sets = sets + stdlib_charsets([self.entry] + list(self.inline.values()), self.stdlib, consts)
        s1, s2 = regex_charsets(dns_pattern)
        lower, digits = set("abcdefghijklmnopqrstuvwxyz"), set("0123456789")
        try:
            preds = collect_preds([self.entry] + list(self.inline.values())) | regex_preds(dns_pattern)
            self.A = Alphabet(singles | s1, sets + s2 + [lower, digits], preds)
            self.K = self.A.K
            self.dns = regex_match_lang(self.A, dns_pattern, strict_end=True) & L_length(self.K, 0, MAXLEN)
        except Unsupported as e:
            raise AnchorError(f"C32: cannot build the alphabet / label language: {e}")
        self.consts = consts
        self.alnum = self.A.of_chars(lower | digits)
        self.label_atoms = lang_atoms(self.dns)  # characters that occur in some DNS-1035 label
        self.first_atoms = frozenset(a for a in self.label_atoms if self.dns.tr[0][a] not in _dead_states(self.dns))  # … as its first character
        self.lower_fst = fst_map(self.A, self.A.lower_image)
        params = [p.arg for p in self.entry.args.args]
        if len(params) < 1:
            raise AnchorError(f"`{ENTRY}` has no name parameter")
        self.name_param = params[0]
        self.flag_param = next((p.arg for p in self.entry.args.args[1:] + self.entry.args.kwonlyargs if "suffix" in p.arg), None)

    def names_with(self, lo: int, hi: int | None, maxlen: int | None = None) -> DFA:
        """Display names whose lowercased form contains lo..hi ASCII alphanumerics."""
        d = L_count(self.K, self.alnum, lo, hi).preimage(self.lower_fst)
        if maxlen is not None:
            d = d & L_length(self.K, 0, maxlen)
        return d

    def run(self, names: DFA, force: Any = UNKNOWN, restrict: dict[int, frozenset] | None = None) -> dict:
        """restrict: {id(draw call node): atoms} — counterfactual run in which that draw only yields characters of the given set."""
        draws: dict[int, tuple[ast.AST, frozenset]] = {}

        def population(ip, node, args, what):
            if not args or not isinstance(args[0], (str, AStr)):
                raise Unsupported(f"{what} with a population that is neither a constant string nor a string the interpreter could follow")
            try:
                atoms = ip.charset_of(args[0])
            except Unsupported as e:
                raise Unsupported(f"{what}: population `{ast.unparse(node.args[0])[:60]}`: {e}")
            draws[id(node)] = (node, draws.get(id(node), (node, frozenset()))[1] | atoms)
            if restrict and id(node) in restrict:
                atoms = atoms & restrict[id(node)]
            return atoms

        def h_choices(ip, node, args, kw, st):
            k = kw.get("k", 1)
            if not isinstance(k, int) or isinstance(k, bool) or len(args) > 1 or set(kw) - {"k"}:
                raise Unsupported("random.choices with a non-constant k, or with weights")
            atoms = population(ip, node, args, "random.choices")
            if not atoms and k:
                return []  # nothing to draw on this (counterfactual) path
            return [(ASeq(AStr(L_empty(ip.K), L_chars(ip.K, atoms)), k, k), st)]

        def h_choice(ip, node, args, kw, st):
            atoms = population(ip, node, args, "random.choice")
            if not atoms:
                return []
            return [(AStr(L_empty(ip.K), L_chars(ip.K, atoms)), st)]

        def h_oracle(ip, node, args, kw, st):
            n = st.meta.get("oracle", 0)
            ip.event("oracle", node, args[0] if args else UNKNOWN, n)
            return [(UNKNOWN, st.with_meta("oracle", min(n + 1, 2)))]

        hooks = {ORACLE: h_oracle, "re.compile": hook_re_compile}
        hooks.update({spelt: (h_choices if canon == "random.choices" else h_choice) for spelt, canon in self.draw_names.items()})
        ip = SInterp(self.A, self.inline, self.consts, hooks)
        ip.stdlib = self.stdlib
        args = {self.name_param: AStr(names)}
        if self.flag_param is not None and force is not UNKNOWN:
            args[self.flag_param] = force
        try:
            rets = ip.call_function(self.entry, args)
        except Unsupported as e:
            raise AnchorError(f"C32: `{ENTRY}` uses a construct the string interpreter does not model: {e}")
        out = {"returns": {}, "first": [], "index": {}, "oracle_calls": 0, "raises": [], "draws": draws}
        for ev in ip.events:
            if ev[0] == "return" and ev[4] == 1:
                if ev[2] is None and ev[1].value is None:
                    continue
                out["returns"].setdefault(id(ev[1]), (ev[1], []))[1].append(ev[2])
                if ev[3].meta.get("oracle", 0) == 0:
                    out["first"].append(ev[2])
            elif ev[0] == "oracle":
                out["oracle_calls"] += 1
                if ev[3] == 0:
                    out["first"].append(ev[2])
            elif ev[0] == "index":
                node, short = ev[1], ev[2]
                cur = out["index"].setdefault(id(node), (node, None))
                if short is not None:
                    out["index"][id(node)] = (node, short if cur[1] is None else (cur[1] | short))
            elif ev[0] == "raise":
                out["raises"].append(ev[1])
        for v, _st in rets:
            if v is None:
                out["returns"].setdefault(0, (self.entry, [])).__getitem__(1).append(None)
        return out

    def show(self, w: tuple | None) -> str:
        return "<none>" if w is None else repr(self.A.render(w))


def _dead_states(d: DFA) -> set:
    """States from which no accepting state is reachable."""
    n = len(d.tr)
    rev: list[set] = [set() for _ in range(n)]
    for q in range(n):
        for t in d.tr[q]:
            rev[t].add(q)
    live = {q for q in range(n) if d.fin[q]}
    todo = list(live)
    while todo:
        q = todo.pop()
        for p_ in rev[q]:
            if p_ not in live:
                live.add(p_)
                todo.append(p_)
    return set(range(n)) - live


def _charset_desc(A: Alphabet, atoms: Iterable[int]) -> str:
    """`A-Z`, `0-9a-f-` …: the characters of a set of atoms, ASCII members as ranges."""
    chars: list[str] = []
    other: list[str] = []
    for a in sorted(atoms):
        at = A.atoms[a]
        if at.members is None:
            other.append(at.desc)
        else:
            chars += list(at.members)
    chars.sort()
    out = []
    i = 0
    while i < len(chars):
        j = i
        while j + 1 < len(chars) and ord(chars[j + 1]) == ord(chars[j]) + 1:
            j += 1
        lo, hi = (repr(chars[i])[1:-1], repr(chars[j])[1:-1])
        out.append(lo if i == j else (lo + hi if j == i + 1 else f"{lo}-{hi}"))
        i = j + 1
    return "[" + "".join(out) + "]" + ("" if not other else " + " + ", ".join(other))


def _astrs(vals: list, what: str) -> list[AStr]:
    out = []
    for v in vals:
        if isinstance(v, str):
            raise AnchorError(f"C32: {what} is a constant string — unexpected shape")
        if not isinstance(v, AStr):
            raise AnchorError(f"C32: {what} is not a string the interpreter could follow ({type(v).__name__})")
        out.append(v)
    return out


def _evaluate(an: _Analysis, brief: bool = False):
    """Yield (rule, instance, description, ok, node, reason) for one module (brief: R1 returns and
    R2 with k=2 only — enough to see the planted defects of the fixture)."""
    K = an.K
    # ---------------- R1
    r = an.run(L_all(K))
    if not r["returns"]:
        raise AnchorError(f"C32.R1: no return of `{ENTRY}` was reached")
    n_ret = 0
    draws = sorted(r["draws"].values(), key=lambda t: (t[0].lineno, t[0].col_offset))
    for node, vals in r["returns"].values():
        n_ret += 1
        lang = L_union(K, [v.all for v in _astrs(vals, "a returned value")])
        bad = lang - an.dns
        w = bad.shortest()
        why = ""
        if w is not None:
            why = f"e.g. {an.show(w)} (length {len(w)}) can be returned and is not a DNS-1035 label of at most {MAXLEN} characters"
            # which character of the witness leaves the label language, and which random draws can supply such a character
            q, pos = 0, None
            dead = _dead_states(an.dns)
            for i, a in enumerate(w[:MAXLEN]):
                q = an.dns.tr[q][a]
                if q in dead:
                    pos = i
                    break
            if pos is not None:
                who = [f"`{ast.unparse(dn)[:70]}` (line {dn.lineno})" for dn, atoms in draws if w[pos] in atoms]
                if who:
                    why += f"; no label has a character of {_charset_desc(an.A, [w[pos]])} at position {pos}, and the random draw(s) {', '.join(who)} have it in their population"
        yield ("C32.R1", "return", f"every value returned by `{ENTRY}` (all Unicode names, any force_suffix, any oracle answers) is a DNS-1035 label of <= {MAXLEN} characters", w is None, node, why)
    idx = list(r["index"].values())
    for i, (node, short) in enumerate(sorted(idx, key=lambda t: (t[0].lineno, t[0].col_offset))):
        yield ("C32.R1", f"subscript:{ast.unparse(node.value) if isinstance(node, ast.Subscript) else i}", f"`{ast.unparse(node)}` cannot raise IndexError for any name", short is None, node,
               "" if short is None else f"the subscripted string can be {an.show(short.shortest())}")
    # ---------------- R1 draws: the population of every random draw reached must consist of characters a label may contain
    bad_all = L_union(K, [v.all for _n, vs in r["returns"].values() for v in _astrs(vs, "a returned value")]) - an.dns
    per_fn: dict[tuple, int] = {}
    for dn, atoms in draws:
        from ..index import enclosing_function as _encl

        owner = getattr(_encl(dn), "name", ENTRY)
        kind = an.draw_names.get(_dotted(dn.func) or "", "random.choice").split(".")[1]
        per_fn[owner, kind] = per_fn.get((owner, kind), 0) + 1
        foreign = atoms - an.label_atoms
        ok, why = True, ""
        if foreign:
            # do the foreign characters reach a returned id?  Counterfactual run with this one draw confined to label characters.
            # Tried first on the names that must get a random part (< 3 alphanumerics: few paths, cheap); a difference there is
            # already a proof; only when none shows up, all names are compared.
            gone = L_empty(K)
            for names, base in ((an.names_with(0, 2), None), (L_all(K), bad_all)):
                if base is None:
                    r1 = an.run(names)
                    base = L_union(K, [v.all for _n, vs in r1["returns"].values() for v in _astrs(vs, "a returned value")]) - an.dns
                r2 = an.run(names, restrict={id(dn): an.label_atoms})
                bad2 = L_union(K, [v.all for _n, vs in r2["returns"].values() for v in _astrs(vs, "a returned value")]) - an.dns
                gone = base - bad2
                if not gone.is_empty():
                    break
            if not gone.is_empty():
                ok = False
                why = (f"the population `{ast.unparse(dn.args[0])[:60]}` of this draw = {_charset_desc(an.A, atoms)} contains {_charset_desc(an.A, foreign)}, which no DNS-1035 label contains "
                       f"(labels are made of {_charset_desc(an.A, an.label_atoms)}, the first character of {_charset_desc(an.A, an.first_atoms)}); the drawn character reaches the returned id: "
                       f"e.g. {an.show(gone.shortest())} is returned only because of them")
        yield ("C32.R1", f"draw:{owner}:{kind}#{per_fn[owner, kind]}", f"`{ast.unparse(dn)[:80]}`: every character this random draw can put into a returned id is one a DNS-1035 label may contain", ok, dn, why)
    sites = [c for f in [an.entry] + list(an.inline.values()) for c in ast.walk(f) if isinstance(c, ast.Call) and (_dotted(c.func) or "") in an.draw_names]
    yield ("floor", "draws", "", True, None, len(sites))
    yield ("floor", "returns", "", True, None, n_ret)
    yield ("floor", "subscripts", "", True, None, len(idx))
    yield ("floor", "oracle", "", True, None, r["oracle_calls"])
    # ---------------- R2a
    for k in ((2,) if brief else (0, 1, 2)):
        rk = an.run(an.names_with(k, k))
        vals = [v for _n, vs in rk["returns"].values() for v in vs]
        plain = L_union(K, [v.plain for v in _astrs(vals, "a returned value")])
        w = plain.shortest()
        yield ("C32.R2", f"alnum={k}", f"a name with {k} alphanumeric(s) never yields an id without a random part", w is None, an.entry,
               "" if w is None else f"id {an.show(w)} is returned with no random part for some name with {k} alphanumeric character(s)")
    if brief:
        return
    # ---------------- R2b
    rb = an.run(an.names_with(3, None), force=False) if an.flag_param else an.run(an.names_with(3, None))
    first = _astrs(rb["first"], "a first candidate")
    if not first:
        raise AnchorError("C32.R2: no first candidate observed")
    rand = L_union(K, [v.rand for v in first])
    w = rand.shortest()
    yield ("C32.R2", "alnum>=3:first-candidate", "for a name with >= 3 alphanumerics (force_suffix off) the first candidate id has no random part", w is None, an.entry,
           "" if w is None else f"first candidate can be the randomised {an.show(w)}")
    # ---------------- R2c
    rc = an.run(an.names_with(3, 3, 20), force=False) if an.flag_param else an.run(an.names_with(3, 3, 20))
    cand = L_union(K, [v.all for v in _astrs(rc["first"], "a first candidate")])
    lost = cand - L_count(K, an.alnum, 3, None)
    w = lost.shortest()
    yield ("C32.R2", "alnum-kept:k=3", "for a short name with exactly 3 alphanumerics the first candidate id still contains >= 3 alphanumerics", w is None, an.entry,
           "" if w is None else f"first candidate can be {an.show(w)}: an alphanumeric of the name was dropped")


def run(chk) -> None:
    repo = chk.repo
    m = repo.module(K8S)
    core = repo.module(CORE)
    dns = _const_regex(module_consts(core), DNS_CONST)
    top = {n.name: n for n in m.tree.body if isinstance(n, FuncNode)}
    an = _Analysis(top, module_consts(m), dns, m.tree)
    floors = {}
    for rule, inst, desc, ok, node, reason in _evaluate(an):
        if rule == "floor":
            floors[inst] = reason
            continue
        fn = an.entry
        if node is not None and node is not an.entry:
            from ..index import enclosing_function

            fn = enclosing_function(node) or an.entry
        chk.ob(rule, desc, ok, m=m, node=node, fn=fn, instance=inst, reason=reason)
    chk.floor("C32.R1", "return sites of find_deployment_id analysed", floors.get("returns", 0), 1)
    chk.floor("C32.R1", "character subscripts checked for IndexError", floors.get("subscripts", 0), 1)
    chk.floor("C32.R1", "random draw sites in find_deployment_id and its helpers (suffix characters, leading-letter replacement); each one reached gets its population decided", floors.get("draws", 0), 2)
    chk.floor("C32.R2", "availability-oracle consultations observed", floors.get("oracle", 0), 1)
    chk.exhaustive = True
    chk.extra["alphabet"] = [a.desc for a in an.A.atoms]

    # planted fixture: both rules must report it on every run
    src = (Path(__file__).resolve().parents[2] / FIXTURE)
    if not src.is_file():
        raise AnchorError(f"fixture {FIXTURE} missing")
    tree = ast.parse(src.read_text())
    ftop = {n.name: n for n in tree.body if isinstance(n, FuncNode)}
    fcon = {n.targets[0].id: n.value for n in tree.body if isinstance(n, ast.Assign) and isinstance(n.targets[0], ast.Name)}
    fan = _Analysis(ftop, fcon, dns, tree)
    res = [(rule, inst, ok) for rule, inst, _d, ok, _n, _r in _evaluate(fan, brief=True) if rule != "floor"]
    chk.floor("C32.R1", "planted invalid-label returns reported in the fixture", sum(1 for r_, i, ok in res if r_ == "C32.R1" and i == "return" and not ok), 1)
    chk.floor("C32.R1", "planted draws from a population with non-label characters (string.hexdigits) reported in the fixture", sum(1 for r_, i, ok in res if r_ == "C32.R1" and i.startswith("draw:") and not ok), 1)
    chk.floor("C32.R2", "planted unsuffixed short ids reported in the fixture", sum(1 for r_, i, ok in res if r_ == "C32.R2" and i.startswith("alnum=") and not ok), 1)
    chk.observe("uniqueness against the cluster is not analysed: validate_deployment_id is treated as an oracle that may answer anything; after 99 collisions the function raises ValueError")


from pathlib import Path  # noqa: E402

_P = "packages/llama-agents-control-plane/src/llama_agents/control_plane/k8s_client.py"
_SUF = '    if len(deployment_id) < 3 or force_suffix:'
_CUT = '    deployment_id = deployment_id[:max_length].rstrip("-")'
_ELSE = '    else:\n        to_take = max_length - randomness - 1\n        return f"{deployment_id[:to_take]}-{hex_suffix}"'
_FEW = '    few_alphanumerics = len(deployment_id.replace("-", "")) < 3\n'
_LOW = "    deployment_id = name.lower()\n"
_NORM = (
    _LOW + '    deployment_id = re.sub(r"[^a-z0-9]", "-", deployment_id)\n    deployment_id = re.sub(r"-+", "-", deployment_id)\n    deployment_id = re.sub(r"^-|-$", "", deployment_id)\n'
    '    # A name with fewer than three alphanumerics always gets a random suffix. Count\n    # them here: the separators and the "d-" prefix added below do not make an id\n    # such as "a-b" or "d-1" meaningful enough.\n'
)
_HEXLIT = '"0123456789abcdef"'
_HEXLINE = '    randomness = 5\n    hex_suffix = "".join(random.choices("0123456789abcdef", k=randomness))\n'
_EMPTY_HEAD = "    if not deployment_id:\n        # DNS-1035: must start with an alphabetic character\n        if hex_suffix[0].isdigit():\n"
_REPL = '            hex_suffix = random.choice("abcdef") + hex_suffix[1:]\n'
TWINS: list[Twin] = [
    # ---- a count kept in a local, thresholds/lengths as module constants, inverted helper branches
    Twin("benign: alphanumeric count through a local", _P, _FEW, '    alnum_count = len(deployment_id.replace("-", ""))\n    few_alphanumerics = alnum_count < 3\n', None),
    Twin("benign: count local compared mirrored", _P, _FEW, '    alnum_count = len(deployment_id.replace("-", ""))\n    few_alphanumerics = 3 > alnum_count\n', None),
    Twin("count local compared with 2", _P, _FEW, '    alnum_count = len(deployment_id.replace("-", ""))\n    few_alphanumerics = alnum_count < 2\n', "C32.R2"),
    Twin("stale count local (taken before the separators are collapsed) decides the suffix", _P, _NORM + _FEW, _NORM.replace(_LOW, _LOW + "    raw_count = len(deployment_id)\n") + "    few_alphanumerics = raw_count < 3\n", "C32.R2"),
    Twin("benign: label length through a second local", _P, "    max_length = 63  # DNS-1035 label max length\n", "    label_max = 63\n    max_length = label_max\n", None),
    Twin("benign: helper branches inverted", _P, '    if not deployment_id:\n        # DNS-1035: must start with an alphabetic character\n        if hex_suffix[0].isdigit():\n            hex_suffix = random.choice("abcdef") + hex_suffix[1:]\n        return hex_suffix\n    else:\n        to_take = max_length - randomness - 1\n        return f"{deployment_id[:to_take]}-{hex_suffix}"\n',
         '    if deployment_id:\n        to_take = max_length - randomness - 1\n        head = deployment_id[:to_take]\n        return f"{head}-{hex_suffix}"\n    if hex_suffix[0].isdigit():\n        hex_suffix = random.choice("abcdef") + hex_suffix[1:]\n    return hex_suffix\n', None),
    # ---- R1 breaking
    Twin("cut may end in a hyphen", _P, _CUT, '    deployment_id = deployment_id[:max_length]', "C32.R1"),
    Twin("suffix room off by one (64 chars)", _P, "to_take = max_length - randomness - 1", "to_take = max_length - randomness", "C32.R1"),
    Twin("replacement first char may be a digit", _P, 'random.choice("abcdef")', 'random.choice("abcdef0")', "C32.R1"),
    Twin("empty name reaches [0]", _P, "    if deployment_id and not deployment_id[0].isalpha():", "    if not deployment_id[0].isalpha():", "C32.R1"),
    Twin("underscore survives", _P, 're.sub(r"[^a-z0-9]", "-", deployment_id)', 're.sub(r"[^a-z0-9_]", "-", deployment_id)', "C32.R1"),
    Twin("unicode word characters survive", _P, 're.sub(r"[^a-z0-9]", "-", deployment_id)', 're.sub(r"[\\W_]", "-", deployment_id)', "C32.R1"),
    Twin("prefix added after the cut", _P, '    if deployment_id and not deployment_id[0].isalpha():\n        deployment_id = "d-" + deployment_id\n' + _CUT, _CUT + '\n    if deployment_id and not deployment_id[0].isalpha():\n        deployment_id = "d-" + deployment_id', "C32.R1"),
    # ---- R1: populations taken from the stdlib `string` module are evaluated as character sets
    Twin("leading-letter replacement drawn from string.ascii_letters (upper case reaches the id)", _P, _HEXLINE + _EMPTY_HEAD + _REPL,
         "    import string\n" + _HEXLINE.replace(_HEXLIT, "string.hexdigits[:16]") + _EMPTY_HEAD + _REPL.replace('"abcdef"', "string.ascii_letters"), "C32.R1"),
    Twin("suffix drawn from all of string.hexdigits (A-F included)", _P, _HEXLINE, "    import string\n" + _HEXLINE.replace(_HEXLIT, "string.hexdigits"), "C32.R1"),
    Twin("suffix drawn from an aliased from-import of ascii_uppercase + digits", _P, _HEXLINE, "    from string import ascii_uppercase as letters, digits\n" + _HEXLINE.replace(_HEXLIT, "digits + letters[:6]"), "C32.R1"),
    Twin("leading-letter replacement drawn from the hex alphabet itself (may be a digit again)", _P, _HEXLINE + _EMPTY_HEAD + _REPL,
         "    import string\n    hex_alphabet = string.hexdigits[:-6]\n" + _HEXLINE.replace(_HEXLIT, "hex_alphabet") + _EMPTY_HEAD + _REPL.replace('"abcdef"', "hex_alphabet"), "C32.R1"),
    Twin("suffix drawn from string.printable[:36] with the bound in a local, upper-cased", _P, _HEXLINE, "    import string\n    base36 = 36\n" + _HEXLINE.replace(_HEXLIT, "string.printable[:base36].upper()"), "C32.R1"),
    Twin("benign: hex alphabet spelled string.hexdigits[:16], letter from string.ascii_lowercase[:6]", _P, _HEXLINE + _EMPTY_HEAD + _REPL,
         "    import string\n" + _HEXLINE.replace(_HEXLIT, "string.hexdigits[:16]") + _EMPTY_HEAD + _REPL.replace('"abcdef"', "string.ascii_lowercase[:6]"), None),
    Twin("benign: hex alphabet as string.digits + string.ascii_lowercase[:6] through an aliased import", _P, _HEXLINE, "    import string as st\n" + _HEXLINE.replace(_HEXLIT, "st.digits + st.ascii_lowercase[:6]"), None),
    Twin("benign: negative slice bound, alphabet in a local, leading letter from any lower-case letter", _P, _HEXLINE + _EMPTY_HEAD + _REPL,
         "    from string import hexdigits, ascii_lowercase\n    hex_alphabet = hexdigits[:-6]\n" + _HEXLINE.replace(_HEXLIT, "hex_alphabet") + _EMPTY_HEAD + _REPL.replace('"abcdef"', "ascii_lowercase"), None),
    Twin("benign: base-36 suffix (string.printable[:36] is 0-9a-z)", _P, _HEXLINE, "    import string\n    base36 = 36\n" + _HEXLINE.replace(_HEXLIT, "string.printable[:base36]"), None),
    # ---- R2 breaking
    Twin("three-letter names get a suffix", _P, _SUF, '    if len(deployment_id) < 4 or force_suffix:', "C32.R2"),
    Twin("name not lowercased", _P, "deployment_id = name.lower()", "deployment_id = name", "C32.R2"),
    Twin("digits dropped from the id", _P, 're.sub(r"[^a-z0-9]", "-", deployment_id)', 're.sub(r"[^a-z]", "-", deployment_id)', "C32.R2"),
    Twin("length test dropped", _P, _SUF, '    if force_suffix:', "C32.R2"),
    # ---- benign
    Twin("benign: strip instead of anchored sub", _P, 'deployment_id = re.sub(r"^-|-$", "", deployment_id)', 'deployment_id = deployment_id.strip("-")', None),
    Twin("benign: reordered suffix test", _P, _SUF, '    if force_suffix or not (len(deployment_id) >= 3):', None),
    Twin("benign: extracted local", _P, _SUF, '    too_short = 3 > len(deployment_id)\n    if too_short or force_suffix:', None),
    Twin("benign: regex rstrip", _P, _CUT, '    deployment_id = re.sub(r"-+$", "", deployment_id[:63])', None),
    Twin("benign: early return in helper", _P, _ELSE, '    to_take = max_length - randomness - 1\n    return f"{deployment_id[:to_take]}-{hex_suffix}"', None),
    Twin("benign: explicit emptiness test", _P, "    if not deployment_id:", "    if len(deployment_id) == 0:", None),
    Twin("benign: digit membership", _P, "if hex_suffix[0].isdigit():", 'if hex_suffix[0] in "0123456789":', None),
    Twin("benign: concatenation instead of f-string", _P, 'return f"{deployment_id[:to_take]}-{hex_suffix}"', 'return deployment_id[:to_take] + "-" + hex_suffix', None),
]
