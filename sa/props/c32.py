"""C32 — generated deployment ids are valid DNS-1035 labels.

This module also hosts the small regular-language toolkit (symbolic alphabet, DFA/NFA, finite
state transducers, regex-AST -> automaton) and the abstract string interpreter `SInterp` that
C33 and C34 import from here (shared helper kept in a property module on purpose: the brief
forbids editing the shared framework files).

Nothing from /repo is imported or executed: the analysed functions are walked as ASTs and every
string value is a *regular language* over a symbolic alphabet whose letters are classes of
Unicode characters that no operation of the analysed code can tell apart.
"""

from __future__ import annotations

import ast
import re
import sys
from typing import Any, Callable, Iterable

from ..index import AnchorError, FuncNode
from ..selftest import Twin

try:  # CPython >= 3.11
    import re._constants as _sc
    import re._parser as _sp
except ImportError:  # pragma: no cover
    import sre_constants as _sc  # type: ignore
    import sre_parse as _sp  # type: ignore


class Unsupported(Exception):
    """The analysed code uses a construct the abstract interpreter has no transfer function for."""


# =====================================================================================
# symbolic alphabet
# =====================================================================================


def _props(ch: str) -> tuple:
    return (ch.isalpha(), ch.isdecimal(), ch.isdigit(), ch.isalnum(), ch.isspace())


_UNI: dict | None = None


def _unicode_groups() -> dict:
    """Non-ASCII code points grouped by (predicates, image under str.lower()); one pass over all of
    Unicode with CPython's own tables, cached per process (~0.4 s)."""
    global _UNI
    if _UNI is None:
        groups: dict = {}
        for c in range(128, sys.maxunicode + 1):
            ch = chr(c)
            lo = ch.lower()
            if lo == ch:
                key = (_props(ch), None)
            else:
                key = (_props(ch), tuple((x if x < "\x80" else None, _props(x)) for x in lo))
            if key not in groups:
                groups[key] = ch
        _UNI = groups
    return _UNI


class Atom:
    __slots__ = ("idx", "rep", "members", "props", "desc")

    def __init__(self, idx: int, rep: str, members: frozenset | None, desc: str):
        self.idx, self.rep, self.members, self.desc = idx, rep, members, desc
        self.props = _props(rep)


class Alphabet:
    """Partition of all Unicode characters into atoms that refine every registered character set,
    the str predicates isalpha/isdecimal/isdigit/isalnum/isspace, '_' and the image under lower()."""

    def __init__(self, singles: Iterable[str] = (), sets: Iterable[Iterable[str]] = ()):
        ssets = [frozenset(s) for s in sets] + [frozenset(c) for c in set(singles)] + [frozenset("\n"), frozenset("_")]
        ssets = sorted(set(ssets), key=lambda s: sorted(s))
        for s in ssets:
            for ch in s:
                if ch >= "\x80":
                    raise Unsupported(f"non-ASCII literal {ch!r} in a character set")
        self.sets = ssets

        def memb(ch: str) -> tuple:
            return tuple(ch in s for s in ssets)

        groups: dict = {}
        for c in range(128):
            ch = chr(c)
            lo = ch.lower()
            lowsig = None if lo == ch else tuple((memb(x), _props(x)) for x in lo)
            groups.setdefault((memb(ch), _props(ch), lowsig), []).append(ch)
        self.atoms: list[Atom] = []
        self._ascii: dict[str, int] = {}
        for sig, chars in sorted(groups.items(), key=lambda kv: kv[1][0]):
            a = Atom(len(self.atoms), chars[0], frozenset(chars), _describe(chars))
            self.atoms.append(a)
            for ch in chars:
                self._ascii[ch] = a.idx
        self._uni: dict = {}
        for key, rep in _unicode_groups().items():
            a = Atom(len(self.atoms), rep, None, f"U+{ord(rep):04X}-like")
            self.atoms.append(a)
            self._uni[key] = a.idx
        self.K = len(self.atoms)
        self._lower = [self._lower_image(a) for a in self.atoms]

    def _key(self, ch: str) -> tuple:
        lo = ch.lower()
        if lo == ch:
            return (_props(ch), None)
        return (_props(ch), tuple((x if x < "\x80" else None, _props(x)) for x in lo))

    def atom_of(self, ch: str) -> int:
        if ch < "\x80":
            return self._ascii[ch]
        k = self._key(ch)
        if k not in self._uni:
            raise Unsupported(f"character {ch!r} has no atom")
        return self._uni[k]

    def _lower_image(self, a: Atom) -> tuple:
        return tuple(self.atom_of(x) for x in a.rep.lower())

    def lower_image(self, idx: int) -> tuple:
        return self._lower[idx]

    def select(self, pred: Callable[[str], bool]) -> frozenset:
        return frozenset(a.idx for a in self.atoms if pred(a.rep))

    def of_chars(self, chars: Iterable[str]) -> frozenset:
        chars = frozenset(chars)
        out = set()
        for ch in chars:
            a = self.atoms[self.atom_of(ch)]
            if a.members is None or not a.members <= chars:
                raise Unsupported(f"alphabet does not refine the character set containing {ch!r}")
            out.add(a.idx)
        return frozenset(out)

    def word(self, s: str) -> tuple:
        out = []
        for ch in s:
            a = self.atoms[self.atom_of(ch)]
            if a.members is None or len(a.members) != 1:
                raise Unsupported(f"literal character {ch!r} is not a singleton atom")
            out.append(a.idx)
        return tuple(out)

    def loose_word(self, s: str) -> tuple:
        return tuple(self.atom_of(ch) for ch in s)

    def render(self, w: Iterable[int]) -> str:
        return "".join(self.atoms[i].rep for i in w)

    @property
    def all_atoms(self) -> frozenset:
        return frozenset(range(self.K))


def _describe(chars: list[str]) -> str:
    if len(chars) == 1:
        return repr(chars[0])
    return f"{chars[0]!r}..{chars[-1]!r}({len(chars)})"


# =====================================================================================
# automata
# =====================================================================================


class NFA:
    def __init__(self, K: int):
        self.K = K
        self.tr: list[dict[int, set[int]]] = []
        self.eps: list[set[int]] = []
        self.starts: set[int] = set()
        self.finals: set[int] = set()

    def new(self) -> int:
        self.tr.append({})
        self.eps.append(set())
        return len(self.tr) - 1

    def add(self, p: int, a: int, q: int) -> None:
        self.tr[p].setdefault(a, set()).add(q)

    def add_eps(self, p: int, q: int) -> None:
        if p != q:
            self.eps[p].add(q)

    def add_word(self, p: int, w: tuple, q: int) -> None:
        if not w:
            self.add_eps(p, q)
            return
        cur = p
        for a in w[:-1]:
            n = self.new()
            self.add(cur, a, n)
            cur = n
        self.add(cur, w[-1], q)

    def embed(self, d: "DFA") -> int:
        """Copy a DFA's states; returns the offset (its start is offset+0)."""
        off = len(self.tr)
        for _ in d.tr:
            self.new()
        for s, row in enumerate(d.tr):
            t = self.tr[off + s]
            for a, q in enumerate(row):
                t[a] = {off + q}
        return off

    def _closure(self, states: Iterable[int]) -> frozenset:
        seen = set(states)
        stack = list(seen)
        while stack:
            s = stack.pop()
            for q in self.eps[s]:
                if q not in seen:
                    seen.add(q)
                    stack.append(q)
        return frozenset(seen)

    def to_dfa(self) -> "DFA":
        K = self.K
        start = self._closure(self.starts)
        ids = {start: 0}
        order = [start]
        tr: list[list[int]] = []
        i = 0
        while i < len(order):
            cur = order[i]
            i += 1
            row = []
            moves: dict[int, set[int]] = {}
            for s in cur:
                for a, qs in self.tr[s].items():
                    m = moves.get(a)
                    if m is None:
                        moves[a] = set(qs)
                    else:
                        m |= qs
            cache: dict[frozenset, int] = {}
            for a in range(K):
                qs = moves.get(a)
                if not qs:
                    tgt = frozenset()
                else:
                    fq = frozenset(qs)
                    if fq in cache:
                        row.append(cache[fq])
                        continue
                    tgt = self._closure(fq)
                j = ids.get(tgt)
                if j is None:
                    j = len(order)
                    ids[tgt] = j
                    order.append(tgt)
                if qs:
                    cache[frozenset(qs)] = j
                row.append(j)
            tr.append(row)
        fin = [bool(st & self.finals) for st in order]
        return DFA(K, tr, fin).minimize()


class DFA:
    """Complete DFA, start state 0."""

    __slots__ = ("K", "tr", "fin", "_key", "_min")

    def __init__(self, K: int, tr: list[list[int]], fin: list[bool]):
        self.K, self.tr, self.fin = K, tr, fin
        self._key = None
        self._min = False

    # ------------------------------------------------------------------ normal form
    def minimize(self) -> "DFA":
        if self._min:
            return self
        n = len(self.tr)
        block = [1 if f else 0 for f in self.fin]
        nblocks = len(set(block))
        while True:
            sigs: dict = {}
            newb = [0] * n
            for s in range(n):
                sig = (block[s], tuple(block[t] for t in self.tr[s]))
                b = sigs.get(sig)
                if b is None:
                    b = len(sigs)
                    sigs[sig] = b
                newb[s] = b
            block = newb
            if len(sigs) == nblocks:
                break
            nblocks = len(sigs)
        # quotient + canonical BFS numbering from the start block
        rep: dict[int, int] = {}
        for s in range(n):
            rep.setdefault(block[s], s)
        order = [block[0]]
        num = {block[0]: 0}
        i = 0
        tr: list[list[int]] = []
        while i < len(order):
            b = order[i]
            i += 1
            row = []
            for t in self.tr[rep[b]]:
                bt = block[t]
                if bt not in num:
                    num[bt] = len(order)
                    order.append(bt)
                row.append(num[bt])
            tr.append(row)
        fin = [self.fin[rep[b]] for b in order]
        d = DFA(self.K, tr, fin)
        d._min = True
        return d

    @property
    def key(self) -> tuple:
        if self._key is None:
            d = self.minimize()
            self._key = (tuple(tuple(r) for r in d.tr), tuple(d.fin))
        return self._key

    # ------------------------------------------------------------------ queries
    def is_empty(self) -> bool:
        return self.shortest() is None

    def shortest(self) -> tuple | None:
        prev: dict[int, tuple | None] = {0: None}
        queue = [0]
        i = 0
        while i < len(queue):
            s = queue[i]
            i += 1
            if self.fin[s]:
                out = []
                cur = s
                while prev[cur] is not None:
                    p, a = prev[cur]
                    out.append(a)
                    cur = p
                return tuple(reversed(out))
            for a, t in enumerate(self.tr[s]):
                if t not in prev:
                    prev[t] = (s, a)
                    queue.append(t)
        return None

    def accepts(self, w: Iterable[int]) -> bool:
        s = 0
        for a in w:
            s = self.tr[s][a]
        return self.fin[s]

    def run(self, s: int, w: Iterable[int]) -> int:
        for a in w:
            s = self.tr[s][a]
        return s

    def _product(self, other: "DFA", op: Callable[[bool, bool], bool]) -> "DFA":
        ids = {(0, 0): 0}
        order = [(0, 0)]
        tr = []
        i = 0
        while i < len(order):
            p, q = order[i]
            i += 1
            row = []
            rp, rq = self.tr[p], other.tr[q]
            for a in range(self.K):
                k = (rp[a], rq[a])
                j = ids.get(k)
                if j is None:
                    j = len(order)
                    ids[k] = j
                    order.append(k)
                row.append(j)
            tr.append(row)
        fin = [op(self.fin[p], other.fin[q]) for p, q in order]
        return DFA(self.K, tr, fin).minimize()

    def __and__(self, o: "DFA") -> "DFA":
        return self._product(o, lambda a, b: a and b)

    def __or__(self, o: "DFA") -> "DFA":
        return self._product(o, lambda a, b: a or b)

    def __sub__(self, o: "DFA") -> "DFA":
        return self._product(o, lambda a, b: a and not b)

    def complement(self) -> "DFA":
        d = DFA(self.K, self.tr, [not f for f in self.fin])
        return d.minimize()

    def __le__(self, o: "DFA") -> bool:
        return (self - o).is_empty()

    def same(self, o: "DFA") -> bool:
        return self.key == o.key

    def concat(self, o: "DFA") -> "DFA":
        n = NFA(self.K)
        a = n.embed(self)
        b = n.embed(o)
        n.starts = {a}
        for s, f in enumerate(self.fin):
            if f:
                n.add_eps(a + s, b)
        n.finals = {b + s for s, f in enumerate(o.fin) if f}
        return n.to_dfa()

    def star(self) -> "DFA":
        n = NFA(self.K)
        s0 = n.new()
        a = n.embed(self)
        n.starts = {s0}
        n.add_eps(s0, a)
        n.finals = {s0}
        for s, f in enumerate(self.fin):
            if f:
                n.add_eps(a + s, s0)
        return n.to_dfa()

    def optional(self) -> "DFA":
        return self | L_eps(self.K)

    def power(self, lo: int, hi: int | None) -> "DFA":
        if lo + (0 if hi is None else hi - lo) > 12:
            raise Unsupported("bounded repetition of a compound sub-pattern is too large")
        out = L_eps(self.K)
        for _ in range(lo):
            out = out.concat(self)
        if hi is None:
            return out.concat(self.star())
        opt = self.optional()
        for _ in range(hi - lo):
            out = out.concat(opt)
        return out

    # ------------------------------------------------------------------ quotients
    def lquot(self, prefix: "DFA") -> "DFA":
        """{z : exists p in prefix, p z in self}"""
        # states of self reachable by words of prefix
        seen = {(0, 0)}
        stack = [(0, 0)]
        starts = set()
        while stack:
            s, p = stack.pop()
            if prefix.fin[p]:
                starts.add(s)
            for a in range(self.K):
                k = (self.tr[s][a], prefix.tr[p][a])
                if k not in seen:
                    seen.add(k)
                    stack.append(k)
        n = NFA(self.K)
        off = n.embed(self)
        n.starts = {off + s for s in starts}
        n.finals = {off + s for s, f in enumerate(self.fin) if f}
        return n.to_dfa()

    def rquot(self, suffix: "DFA") -> "DFA":
        """{z : exists s in suffix, z s in self}"""
        good = []
        for s0 in range(len(self.tr)):
            seen = {(s0, 0)}
            stack = [(s0, 0)]
            ok = False
            while stack and not ok:
                s, p = stack.pop()
                if self.fin[s] and suffix.fin[p]:
                    ok = True
                    break
                for a in range(self.K):
                    k = (self.tr[s][a], suffix.tr[p][a])
                    if k not in seen:
                        seen.add(k)
                        stack.append(k)
            good.append(ok)
        return DFA(self.K, self.tr, good).minimize()

    # ------------------------------------------------------------------ transductions
    def image(self, t: "FST") -> "DFA":
        n = NFA(self.K)
        ids: dict = {}

        def sid(q: int, s: int) -> int:
            k = (q, s)
            i = ids.get(k)
            if i is None:
                i = n.new()
                ids[k] = i
                todo.append(k)
            return i

        todo: list = []
        n.starts = {sid(0, t.start)}
        while todo:
            q, s = todo.pop()
            src = ids[(q, s)]
            if self.fin[q] and s in t.finals:
                n.finals.add(src)
            for a, arcs in t.arcs[s].items():
                q2 = self.tr[q][a]
                for s2, out in arcs:
                    n.add_word(src, out, sid(q2, s2))
        return n.to_dfa()

    def preimage(self, t: "FST") -> "DFA":
        """{s : some output of t on s lies in self}"""
        n = NFA(self.K)
        ids: dict = {}
        todo: list = []

        def sid(q: int, s: int) -> int:
            k = (q, s)
            i = ids.get(k)
            if i is None:
                i = n.new()
                ids[k] = i
                todo.append(k)
            return i

        n.starts = {sid(0, t.start)}
        while todo:
            q, s = todo.pop()
            src = ids[(q, s)]
            if self.fin[q] and s in t.finals:
                n.finals.add(src)
            for a, arcs in t.arcs[s].items():
                for s2, out in arcs:
                    n.add(src, a, sid(self.run(q, out), s2))
        return n.to_dfa()


def L_empty(K: int) -> DFA:
    return DFA(K, [[0] * K], [False]).minimize()


def L_eps(K: int) -> DFA:
    return DFA(K, [[1] * K, [1] * K], [True, False]).minimize()


def L_all(K: int) -> DFA:
    return DFA(K, [[0] * K], [True]).minimize()


def L_word(K: int, w: tuple) -> DFA:
    n = len(w)
    sink = n + 1
    tr = []
    for i in range(n):
        row = [sink] * K
        row[w[i]] = i + 1
        tr.append(row)
    tr.append([sink] * K)
    tr.append([sink] * K)
    return DFA(K, tr, [i == n for i in range(n + 2)]).minimize()


def L_chars(K: int, atoms: Iterable[int], lo: int = 1, hi: int | None = 1) -> DFA:
    """atoms{lo,hi}"""
    atoms = set(atoms)
    top = lo if hi is None else hi
    sink = top + 1
    tr = []
    for i in range(top + 1):
        row = []
        for a in range(K):
            if a in atoms:
                row.append(i + 1 if i < top else (top if hi is None else sink))
            else:
                row.append(sink)
        tr.append(row)
    tr.append([sink] * K)
    fin = [(i >= lo) for i in range(top + 1)] + [False]
    return DFA(K, tr, fin).minimize()


def L_count(K: int, atoms: Iterable[int], lo: int, hi: int | None) -> DFA:
    """Words in which the number of letters from ``atoms`` lies in [lo, hi]."""
    atoms = set(atoms)
    top = (lo if hi is None else hi) + 1  # top = "too many" (or "enough" when hi is None)
    tr = []
    for i in range(top + 1):
        tr.append([(min(i + 1, top) if a in atoms else i) for a in range(K)])
    fin = [(i >= lo and (hi is None or i <= hi)) for i in range(top + 1)]
    return DFA(K, tr, fin).minimize()


def L_length(K: int, lo: int, hi: int | None) -> DFA:
    return L_count(K, range(K), lo, hi)


def L_union(K: int, langs: Iterable[DFA]) -> DFA:
    out = L_empty(K)
    for l in langs:
        out = out | l
    return out


class FST:
    """Finite state transducer; possibly nondeterministic; arcs[state][atom] = [(state2, out_word)]."""

    def __init__(self, nstates: int, start: int, finals: Iterable[int]):
        self.arcs: list[dict[int, list]] = [{} for _ in range(nstates)]
        self.start = start
        self.finals = set(finals)

    def arc(self, s: int, a: int, s2: int, out: tuple) -> None:
        self.arcs[s].setdefault(a, []).append((s2, tuple(out)))


def fst_map(A: Alphabet, f: Callable[[int], tuple]) -> FST:
    t = FST(1, 0, [0])
    for a in range(A.K):
        t.arc(0, a, 0, f(a))
    return t


def fst_collapse(A: Alphabet, C: Iterable[int], repl: tuple) -> FST:
    """every maximal run of letters from C is replaced by ``repl`` (re.sub(r'[C]+', repl))."""
    C = set(C)
    t = FST(2, 0, [0, 1])
    for a in range(A.K):
        if a in C:
            t.arc(0, a, 1, repl)
            t.arc(1, a, 1, ())
        else:
            t.arc(0, a, 0, (a,))
            t.arc(1, a, 0, (a,))
    return t


def fst_strip(A: Alphabet, C: Iterable[int], left: str | None, right: str | None, dollar_newline: bool = False) -> FST:
    """Delete letters of C at the ends: left/right in (None, 'one', 'all').  'one' models re.sub of
    `^c` / `c$` by the empty string; dollar_newline additionally lets `c$` match before a final newline."""
    C = set(C)
    nl = A.atom_of("\n")
    LEAD, MN, MC, T, T2, X = 0, 1, 2, 3, 4, 5
    t = FST(6, LEAD if left else MN, [])
    for a in range(A.K):
        inC = a in C
        # leading phase
        if left == "all":
            if inC:
                t.arc(LEAD, a, LEAD, ())
            else:
                t.arc(LEAD, a, MN, (a,))
        elif left == "one":
            if inC:
                t.arc(LEAD, a, MN, ())
            else:
                t.arc(LEAD, a, MN, (a,))
        # middle
        for m in (MN, MC, X):
            if inC:
                t.arc(m, a, MC, (a,))
            elif m == MC and dollar_newline and right == "one" and a == nl:
                t.arc(m, a, X, (a,))
            else:
                t.arc(m, a, MN, (a,))
        if inC and right == "all":
            t.arc(MN, a, T, ())
            t.arc(T, a, T, ())
        if inC and right == "one":
            for m in (MN, MC, X):
                t.arc(m, a, T, ())
    if right == "one" and dollar_newline:
        t.arc(T, nl, T2, (nl,))
    if left == "all" and right == "all":
        pass  # an all-C string is consumed by the leading phase
    fin = {MN, T, T2}
    if left:
        fin.add(LEAD)
    if right is None:
        fin |= {MC, X}
    t.finals = fin
    if left == "one" and right:
        # after deleting one leading letter we may immediately be at the tail
        pass
    return t


def fst_prefix(A: Alphabet, n: int) -> FST:
    t = FST(n + 1, 0, range(n + 1))
    for a in range(A.K):
        for i in range(n):
            t.arc(i, a, i + 1, (a,))
        t.arc(n, a, n, ())
    return t


def fst_drop(A: Alphabet, n: int) -> FST:
    t = FST(n + 1, 0, range(n + 1))
    for a in range(A.K):
        for i in range(n):
            t.arc(i, a, i + 1, ())
        t.arc(n, a, n, (a,))
    return t


def fst_charat(A: Alphabet, k: int) -> FST:
    t = FST(k + 2, 0, [k + 1])
    for a in range(A.K):
        for i in range(k):
            t.arc(i, a, i + 1, ())
        t.arc(k, a, k + 1, (a,))
        t.arc(k + 1, a, k + 1, ())
    return t


# =====================================================================================
# regex AST -> language
# =====================================================================================

_CATS = {
    "CATEGORY_DIGIT": lambda ch: ch.isdecimal(),
    "CATEGORY_NOT_DIGIT": lambda ch: not ch.isdecimal(),
    "CATEGORY_WORD": lambda ch: ch.isalnum() or ch == "_",
    "CATEGORY_NOT_WORD": lambda ch: not (ch.isalnum() or ch == "_"),
    "CATEGORY_SPACE": lambda ch: ch.isspace(),
    "CATEGORY_NOT_SPACE": lambda ch: not ch.isspace(),
}


def regex_parse(pattern: str):
    p = _sp.parse(pattern)
    extra = p.state.flags & ~_sc.SRE_FLAG_UNICODE
    if extra:
        raise Unsupported(f"regex flags {extra} in {pattern!r}")
    return p


def regex_charsets(pattern: str) -> tuple[set, list]:
    """(literal characters, explicit ranges as char sets) mentioned by a pattern — to be registered
    in the alphabet before automata are built."""
    singles: set = set()
    sets: list = []

    def walk(items) -> None:
        for op, av in items:
            name = str(op)
            if name in ("LITERAL", "NOT_LITERAL"):
                singles.add(chr(av))
            elif name == "IN":
                for o2, a2 in av:
                    n2 = str(o2)
                    if n2 == "LITERAL":
                        singles.add(chr(a2))
                    elif n2 == "RANGE":
                        if a2[1] - a2[0] > 300 or a2[1] >= 128:
                            raise Unsupported("large or non-ASCII character range")
                        sets.append({chr(c) for c in range(a2[0], a2[1] + 1)})
            elif name == "BRANCH":
                for sub in av[1]:
                    walk(sub)
            elif name == "SUBPATTERN":
                walk(av[3])
            elif name in ("MAX_REPEAT", "MIN_REPEAT", "POSSESSIVE_REPEAT"):
                walk(av[2])

    walk(regex_parse(pattern).data)
    return singles, sets


def class_atoms(A: Alphabet, op, av) -> frozenset | None:
    """Atoms matched by a single-character regex item, or None when the item is not one."""
    name = str(op)
    if name == "LITERAL":
        return frozenset(A.word(chr(av)))
    if name == "NOT_LITERAL":
        return A.all_atoms - frozenset(A.word(chr(av)))
    if name == "ANY":
        return A.all_atoms - {A.atom_of("\n")}
    if name == "IN":
        neg = False
        acc: set = set()
        for o2, a2 in av:
            n2 = str(o2)
            if n2 == "NEGATE":
                neg = True
            elif n2 == "LITERAL":
                acc |= set(A.word(chr(a2)))
            elif n2 == "RANGE":
                acc |= A.of_chars(chr(c) for c in range(a2[0], a2[1] + 1))
            elif n2 == "CATEGORY":
                f = _CATS.get(str(a2))
                if f is None:
                    raise Unsupported(f"regex category {a2}")
                acc |= A.select(f)
            else:
                raise Unsupported(f"regex class item {n2}")
        return frozenset(A.all_atoms - acc) if neg else frozenset(acc)
    return None


def _is_at(item, *names: str) -> bool:
    return str(item[0]) == "AT" and str(item[1]) in names


def regex_items_lang(A: Alphabet, items) -> DFA:
    out = L_eps(A.K)
    for op, av in items:
        out = out.concat(_regex_node(A, op, av))
    return out


def _regex_node(A: Alphabet, op, av) -> DFA:
    name = str(op)
    cl = class_atoms(A, op, av)
    if cl is not None:
        return L_chars(A.K, cl, 1, 1)
    if name in ("MAX_REPEAT", "MIN_REPEAT", "POSSESSIVE_REPEAT"):
        lo, hi, sub = av
        hi = None if hi == _sc.MAXREPEAT else hi
        sub = list(sub)
        if len(sub) == 1:
            c1 = class_atoms(A, *sub[0])
            if c1 is not None:
                return L_chars(A.K, c1, lo, hi)
        return regex_items_lang(A, sub).power(lo, hi)
    if name == "SUBPATTERN":
        if av[1] or av[2]:
            raise Unsupported("inline regex flags")
        return regex_items_lang(A, av[3])
    if name == "BRANCH":
        return L_union(A.K, [regex_items_lang(A, sub) for sub in av[1]])
    raise Unsupported(f"regex construct {name}")


def regex_split_anchors(pattern: str) -> tuple[list, bool, bool]:
    items = list(regex_parse(pattern).data)
    begin = end = False
    if items and _is_at(items[0], "AT_BEGINNING", "AT_BEGINNING_STRING"):
        begin = True
        items = items[1:]
    if items and _is_at(items[-1], "AT_END", "AT_END_STRING"):
        end = True
        items = items[:-1]
    return items, begin, end


def regex_match_lang(A: Alphabet, pattern: str, *, strict_end: bool = True, anchored_start: bool = True) -> DFA:
    """Strings s for which ``re.match(pattern, s)`` succeeds (anchored_start=False: ``re.search``).
    strict_end=False additionally models `$` matching before one final newline."""
    items, begin, end = regex_split_anchors(pattern)
    body = regex_items_lang(A, items)
    if not (anchored_start or begin):
        body = L_all(A.K).concat(body)
    if end:
        if not strict_end:
            body = body.concat(L_chars(A.K, [A.atom_of("\n")], 0, 1))
    else:
        body = body.concat(L_all(A.K))
    return body


def regex_groups(A: Alphabet, pattern: str) -> list[tuple[DFA, int | None]]:
    """Top-level items of an anchored pattern as (language, group number | None)."""
    items, _b, _e = regex_split_anchors(pattern)
    out = []
    for op, av in items:
        g = av[0] if str(op) == "SUBPATTERN" else None
        out.append((_regex_node(A, op, av), g))
    return out
