"""C16 — the stored event log is gap-free and resumable from any cursor.

Decided (static; nothing from /repo is imported or executed): the ASTs of `append_event`,
`query_events`, `subscribe_events` of the in-memory and the SQLite store (and `_is_terminal_event`,
`_resolve_event_stream`, the cursor part of `_stream_events`) are interpreted by the framework's AST
interpreter (extended in c28.py).  The subscriber generator is run against a cooperative-scheduling
model of asyncio: other tasks (here: appenders) run only at the subscriber's suspension points
(`async with` acquisition, `await condition.wait()`, `yield`, `asyncio.sleep`), `asyncio.Condition`
is modelled with its lock/notify semantics, and every placement of up to N appends over those
points is enumerated.  The oracle is the statement.
"""

from __future__ import annotations

import ast
import json
from typing import Any, Callable

from ..absint import Raised, Record, Unsupported
from ..astx import is_suspension
from ..cfg import CFG, exprs_in_node
from ..index import AnchorError, FuncNode
from ..selftest import Twin
from .c24 import Cfg, Harness, StoreModel, _guard
from .c28 import EVENT_INSERT_VALUES, IN_BLOCKS_OLD, IN_TABLE_ROWS, FnRef, ModelObject, SqlUnsupported, XInterp, _module_constant, event_insert_as_constant, in_blocks_table_driven, model_unsupported, parse_sql, walk_sql

EXPLANATION = (
    "R1 sequence allocation: (a) memory `append_event`: on the CFG no suspension point (await / async with / async for / yield) lies between the first "
    "read of the per-run list and the statement that appends to it; (b) SQLite `append_event`: the value of column `sequence` is computed inside the "
    "INSERT statement by a sub-select MAX(sequence) over the same table (not passed as a parameter); (c) both stores, interpreted: after k appends to a run "
    "(with a foreign run interleaved) the stored sequences are 0..k-1 in publication order. "
    "R2 cursor strictness: interpreted `query_events(run, after, limit)` returns exactly the events with sequence > after, in order, cut to limit, for every "
    "after in {None,-1,0..n,n+5} and limit in {None,0,2,10}; `subscribe_events` on a static log delivers exactly the events above the cursor for every cursor. "
    "R3 subscription under interleavings: the generator is run against a model of asyncio.Condition for every placement of up to 3 appends (chunks of <= 2) over "
    "its first suspension points, for logs with the terminal event last / in the middle / absent and cursors before, inside and beyond the log: delivered events are "
    "exactly those above the cursor, in order, once each; the generator returns right after the first terminal event and never otherwise; it never ends or blocks "
    "forever with undelivered events (lost wake-up), and raises nothing. "
    "R4 (stretch) `EventEnvelopeWithMetadata.from_event` interpreted on an instance of every repo subclass of StopEvent yields type/types that `_is_terminal_event` recognises, and on no other Event class of the workflows package. "
    "R5 (stretch) `_resolve_event_stream`: with cursor None ('now') the stream starts after the current maximum sequence; with cursor k it yields exactly the events above k "
    "with their stored sequence as id; `_stream_events` passes Last-Event-ID (if an integer, SSE mode) over the query parameter, 'now'/absent as None. "
    "Not decided: real asyncio scheduling fairness, SQLite locking between processes, the SSE text framing and heartbeat task, delivery over the network, eviction of a run's "
    "events while subscribed, Python 3.10 where asyncio.TimeoutError is not TimeoutError (observation)."
)
TRUSTED = [
    "CPython ast",
    "asyncio semantics as modelled: tasks switch only at suspension points; Condition.wait releases the lock and is woken only by notify under the lock; wait_for raises TimeoutError",
    "SQLite executes one INSERT atomically; sqlmini's model of SELECT/INSERT (c28.py)",
    "pydantic (de)serialises EventEnvelopeWithMetadata faithfully",
]
LEVEL_TEXT = "bounded exhaustive model check by AST interpretation (all placements of <= 3 appends over the subscriber's suspension points) + CFG rule for allocation atomicity"
LEVEL_NOTE = "a pass means the decided clauses hold on the enumerated logs/cursors/schedules; it is not a proof for all histories"
TECHNIQUE = "stateless model checking of the interpreted generator under a cooperative scheduler model; CFG suspension-point analysis; SQL reader"

ABS = "llama_agents.server._store.abstract_workflow_store"
MEM = "llama_agents.server._store.memory_workflow_store"
SQL = "llama_agents.server._store.sqlite.sqlite_workflow_store"
API = "llama_agents.server._api"
ENV = "llama_agents.client.protocol.serializable_events"
EVENTS = "workflows.events"
RUN, OTHER = "run-1", "run-2"


class _Quiescent(Exception):
    """The modelled subscriber is blocked and no other task will ever run again."""


class WaitReq:
    def __init__(self, timeout: Any = None):
        self.timeout = timeout


class SleepReq:
    pass


class FakeCondition(ModelObject):
    _api = frozenset({"wait", "notify_all", "notify", "locked", "wait_for"})

    def __init__(self, sim_ref: Callable[[], "Sim"]):
        self._sim = sim_ref

    def _enter(self, interp: Any, is_async: bool) -> Any:
        sim = self._sim()
        if not is_async:
            raise Raised("TypeError", "asyncio.Condition used with a plain `with`")
        if sim.in_appender:
            return self
        sim.choice_point("acquire")
        sim.lock_held = True
        return self

    def _exit(self, interp: Any, exc: Any) -> bool:
        sim = self._sim()
        if not sim.in_appender:
            sim.lock_held = False
            sim.deferred = False  # an appender blocked on the lock now notifies nobody
        return False

    def wait(self) -> WaitReq:
        return WaitReq()

    def notify_all(self) -> None:
        sim = self._sim()
        if sim.in_appender:
            if sim.lock_held:
                sim.deferred = True
            elif sim.waiting:
                sim.woken = True

    notify = notify_all

    def locked(self) -> bool:
        return self._sim().lock_held


class Sim:
    """One schedule: ``choices[i]`` = number of appends performed by other tasks at the i-th suspension point."""

    def __init__(self, choices: list[int], pending: list, appender: Callable[[Any], None]):
        self.choices, self.pending, self.appender = choices, list(pending), appender
        self.cp = 0
        self.reached: list[int] = []
        self.lock_held = self.deferred = self.waiting = self.woken = self.in_appender = False
        self.delivered: list = []
        self.idle = 0
        self.trace: list[str] = []

    def do_append(self) -> None:
        ev = self.pending.pop(0)
        self.in_appender = True
        try:
            self.appender(ev)
        finally:
            self.in_appender = False
        self.trace.append("append")

    def choice_point(self, where: str) -> int:
        idx = self.cp
        self.cp += 1
        self.reached.append(len(self.pending))
        self.trace.append(where)
        k = min(self.choices[idx] if idx < len(self.choices) else 0, len(self.pending))
        for _ in range(k):
            self.do_append()
        return k

    def on_yield(self, v: Any) -> None:
        self.delivered.append(v)
        self.idle = 0
        if len(self.delivered) > 14:  # far more than any modelled log holds: a runaway re-delivery loop
            raise _Quiescent()
        self.choice_point("yield")
        return None

    def on_await(self, v: Any) -> Any:
        if self.in_appender:
            return None if isinstance(v, (WaitReq, SleepReq)) else v  # the appender's own awaits are not scheduling points of the model
        if isinstance(v, WaitReq):
            return self.wait(v.timeout)
        if isinstance(v, SleepReq):
            return self.sleep()
        return v

    def _time_passes(self, explicit: int) -> None:
        # nothing was scheduled here explicitly and the subscriber cannot proceed: the next appender runs
        if explicit == 0 and self.cp > len(self.choices) and self.pending:
            self.do_append()

    def wait(self, timeout: Any) -> bool:
        if not self.lock_held:
            raise Raised("RuntimeError", "cannot wait on un-acquired lock")
        if self.deferred:
            self.deferred = False
            return True
        self.lock_held, self.waiting, self.woken = False, True, False
        k = self.choice_point("wait")
        if not self.woken:
            self._time_passes(k)
        self.waiting, self.lock_held = False, True
        if self.woken:
            self.idle = 0
            return True
        if timeout is not None:
            self.idle += 1
            if self.idle > 3:
                raise _Quiescent()
            raise Raised("TimeoutError", "wait_for timed out")
        raise _Quiescent()

    def sleep(self) -> None:
        k = self.choice_point("sleep")
        self._time_passes(k)
        self.idle += 1
        if self.idle > 3 and not self.pending:
            raise _Quiescent()
        return None


# ---------------------------------------------------------------------------- harness


class LogHarness:
    def __init__(self, repo: Any, cfg: Cfg | None = None):
        self.h = _guard("C16", "store construction", lambda: Harness(repo, cfg))
        self.repo = repo
        self.sim: Sim | None = None
        w = self.h.w
        w.ext_calls["asyncio.Condition"] = lambda: FakeCondition(lambda: self.sim)  # type: ignore[return-value]
        w.ext_calls["asyncio.wait_for"] = lambda aw, timeout=None: WaitReq(timeout if timeout is not None else 0) if isinstance(aw, WaitReq) else aw
        w.ext_calls["asyncio.sleep"] = lambda *a, **k: SleepReq()
        w.method_hooks[("EventEnvelopeWithMetadata", "model_dump_json")] = lambda rec, **k: json.dumps({f: getattr(rec, f) for f in ("value", "qualified_name", "type", "types")})
        w.method_hooks[("EventEnvelopeWithMetadata", "model_copy")] = lambda rec, update=None, **k: Record("EventEnvelopeWithMetadata", **{**{f: getattr(rec, f) for f in ("value", "qualified_name", "type", "types")}, **(update or {})})
        w.class_hooks[("EventEnvelopeWithMetadata", "model_validate_json")] = lambda s: self.envelope(**json.loads(s))
        self.bases: dict[str, StoreModel] = {}

    def envelope(self, **kw: Any) -> Record:
        return self.h.w.new(f"{ENV}:EventEnvelopeWithMetadata", **kw)

    def event(self, i: int, terminal: bool, sub: bool = False) -> Record:
        if terminal:
            return self.envelope(value={"i": i}, qualified_name=None, type="MyStop" if sub else "StopEvent", types=["StopEvent"] if sub else None)
        return self.envelope(value={"i": i}, qualified_name=None, type="Progress", types=["Event"] if sub else None)

    def base(self, kind: str) -> StoreModel:
        if kind not in self.bases:
            self.bases[kind] = self.h.store(kind)
        return self.bases[kind].fork()

    def append(self, s: StoreModel, run: str, ev: Record) -> None:
        s.call("append_event", run, ev)

    def log(self, s: StoreModel, run: str = RUN) -> list[tuple[int, int]]:
        return [(e.sequence, e.event.value["i"]) for e in s.call("query_events", run)]

    def subscribe(self, s: StoreModel, after: int, script: list[bool], i0: int, choices: list[int]) -> tuple[str, Sim, list[tuple[int, int]]]:
        """Run one schedule.  Returns (how it ended, the sim, final log)."""
        w = self.h.w
        evs = [self.event(i, t, sub=(i % 2 == 1)) for i, t in enumerate(script)]
        sim = Sim(choices, evs[i0:], lambda ev: self.append(s, RUN, ev))
        self.sim = sim
        sim.in_appender = True
        try:
            for ev in evs[:i0]:
                self.append(s, RUN, ev)
        finally:
            sim.in_appender = False
        it = XInterp(w, w.classes[s.rec._cls].module)
        f = it.getattr_(s.rec, "subscribe_events")
        saved = (w.yield_sink, w.await_hook)
        w.yield_sink, w.await_hook = sim.on_yield, sim.on_await
        try:
            it.call_fn(f.fn, f.recv, [RUN], {"after_sequence": after}, stream=True)
            ended = "returned"
        except _Quiescent:
            ended = "quiescent"
        except Raised as r:
            ended = f"raised {r}"
        finally:
            w.yield_sink, w.await_hook = saved
        sim.in_appender = True
        try:
            final = self.log(s)
        finally:
            sim.in_appender = False
        return ended, sim, final


def judge(after: int, terminal_ids: set[int], log: list[tuple[int, int]], delivered: list[tuple[int, int]], ended: str) -> tuple[str, str] | None:
    exp = []
    for seq, ident in log:
        if seq > after:
            exp.append((seq, ident))
            if ident in terminal_ids:
                break
    if ended.startswith("raised"):
        return "no-exception", f"the generator {ended}"
    if delivered != exp[: len(delivered)]:
        return "order-once", f"delivered (sequence, event) {delivered}, the statement gives {exp}"
    ends_terminal = bool(exp) and exp[-1][1] in terminal_ids
    if len(delivered) < len(exp):
        how = "returned" if ended == "returned" else "is blocked forever (no task left to wake it: lost wake-up or missed read)"
        return "complete", f"the generator {how} after delivering {delivered}; stored events above the cursor: {exp}"
    if ended == "returned" and not ends_terminal:
        return "terminal-end", f"the generator returned after {delivered} although no terminal event was delivered"
    if ended != "returned" and ends_terminal:
        return "terminal-end", f"the generator keeps waiting after delivering the terminal event {exp[-1]}"
    return None


CATS = {
    "order-once": "delivers exactly the events above the cursor, in order, once each",
    "complete": "never returns or blocks forever while stored events above the cursor are undelivered",
    "terminal-end": "returns right after the first terminal event and only then",
    "no-exception": "raises nothing",
}


def _seq_ok(log: list[tuple[int, int]]) -> bool:
    return [s for s, _i in log] == list(range(len(log))) and [i for _s, i in log] == sorted(i for _s, i in log)


# ---------------------------------------------------------------------------- R1


def _methods(repo: Any, ref: str) -> tuple[Any, dict[str, ast.AST]]:
    m, _c = repo.cls(ref)
    return m, repo.methods(ref)


def rule_r1_structural(chk: Any) -> None:
    repo = chk.repo
    # (a) memory store: no suspension between reading the log and appending to it
    m, meths = _methods(repo, f"{MEM}:MemoryWorkflowStore")
    fn = meths.get("append_event")
    if fn is None:
        raise AnchorError("C16.R1: MemoryWorkflowStore.append_event not found")
    log_attr = "events"
    aliases = {f"self.{log_attr}"}
    for st in ast.walk(fn):
        if isinstance(st, ast.Assign) and len(st.targets) == 1 and isinstance(st.targets[0], ast.Name) and f"self.{log_attr}" in ast.unparse(st.value):
            aliases.add(st.targets[0].id)
    cfg = CFG(fn)

    def mentions(n: Any) -> bool:
        for x in exprs_in_node(n):
            if isinstance(x, ast.Name) and x.id in aliases:
                return True
            if isinstance(x, ast.Attribute) and isinstance(x.value, ast.Name) and x.value.id == "self" and x.attr == log_attr:
                return True
        return False

    def grows(n: Any) -> bool:
        for x in exprs_in_node(n):
            if isinstance(x, ast.Call) and isinstance(x.func, ast.Attribute) and x.func.attr in ("append", "insert", "extend"):
                recv = ast.unparse(x.func.value)
                if recv in aliases or recv.startswith(f"self.{log_attr}["):
                    return True
            if isinstance(x, ast.AugAssign):
                return ast.unparse(x.target) in aliases
        if n.kind == "stmt" and isinstance(n.ast, ast.AugAssign) and (ast.unparse(n.ast.target) in aliases or ast.unparse(n.ast.target).startswith(f"self.{log_attr}[")):
            return True
        return False

    def suspends(n: Any) -> bool:
        if n.kind in ("with", "iter") and isinstance(n.ast, (ast.AsyncWith, ast.AsyncFor)):
            return True
        return any(is_suspension(x) for x in exprs_in_node(n))

    reads = [n for n in cfg.nodes if n.ast is not None and mentions(n)]
    writes = [n for n in cfg.nodes if n.ast is not None and grows(n)]
    if not writes or not reads:
        raise AnchorError("C16.R1: cannot find where `append_event` reads and grows the per-run event list (idiom not recognised)")
    first_reads = [r for r in reads if not any(o is not r and r in cfg.reach([o], include_starts=False) for o in reads)] or reads
    offenders = []
    for w_ in writes:
        back = {n for n in cfg.nodes if w_ in cfg.reach([n])}
        for r in first_reads:
            between = (cfg.reach([r], include_starts=False) & back) | {w_}
            for n in between:
                if suspends(n) and not (n is r and n is not w_):
                    offenders.append(n)
    ok = not offenders
    chk.ob("C16.R1", "memory `append_event`: no suspension point between reading the run's event list and appending to it (two concurrent appenders cannot get the same sequence)",
           ok, m=m, node=writes[0].ast, fn=fn, instance="memory:append_event:atomic",
           reason="" if ok else f"suspension point at line {offenders[0].line} lies between the read and the append: another appender can run there and allocate the same sequence",
           path=cfg.describe_path(cfg.path(first_reads[0], writes[0])) if first_reads and writes else [])
    chk.floor("C16.R1", "list-growing statements in memory append_event", len(writes), 1)

    # (b) SQLite: sequence computed inside the INSERT
    ms, smeths = _methods(repo, f"{SQL}:SqliteWorkflowStore")
    sfn = smeths.get("append_event")
    if sfn is None:
        raise AnchorError("C16.R1: SqliteWorkflowStore.append_event not found")
    inserts = []
    texts: list[tuple[ast.AST, str]] = []
    for c in ast.walk(sfn):
        if isinstance(c, ast.Constant) and isinstance(c.value, str):
            texts.append((c, c.value))
        elif isinstance(c, ast.Name) and isinstance(c.ctx, ast.Load):
            # statement text kept in a module-level constant (bound once, unconditionally, never rebound or shadowed)
            v = _module_constant(ms, c.id, c)
            if isinstance(v, ast.Constant) and isinstance(v.value, str):
                texts.append((c, v.value))
    for c, text in texts:
        if "INSERT" in text.upper():
            try:
                for st in parse_sql(text):
                    if st["kind"] == "insert":
                        inserts.append((c, st))
            except SqlUnsupported as e:
                raise AnchorError(f"C16.R1: INSERT of SqliteWorkflowStore.append_event is outside the SQL reader's subset: {e}")
    if not inserts:
        raise AnchorError("C16.R1: SqliteWorkflowStore.append_event has no constant INSERT statement (idiom not recognised)")
    chk.floor("C16.R1", "INSERT statements in sqlite append_event", len(inserts), 1)
    for c, st in inserts:
        if not st["cols"] or "sequence" not in st["cols"] or st["rows"] is None:
            raise AnchorError("C16.R1: the INSERT of append_event names no `sequence` column")
        val = st["rows"][0][st["cols"].index("sequence")]
        subs = [n for n in walk_sql(val) if isinstance(n, tuple) and n and n[0] == "subq"]
        same = [q for q in subs if q[1].get("table") == st["table"] and any(isinstance(x, tuple) and x and x[0] == "func" and x[1] == "MAX" for x in walk_sql(q[1]["items"]))]
        if val[0] == "param":
            ok, why = False, "the sequence is passed as a parameter: it was computed before the INSERT, so two connections can allocate the same number"
        elif same:
            ok, why = True, ""
        else:
            raise AnchorError("C16.R1: the `sequence` value of the INSERT is neither a parameter nor MAX(sequence) over the same table (idiom not recognised)")
        chk.ob("C16.R1", "SQLite `append_event`: the sequence is allocated inside the INSERT statement (sub-select MAX(sequence) over the same table)", ok,
               m=ms, node=c, fn=sfn, instance="sqlite:append_event:single-statement", reason=why)


def rule_r1_functional(chk: Any, lh: LogHarness) -> None:
    for kind in lh.h.cfg.kinds:
        m, meths = _methods(chk.repo, lh.h.cfg.cls(kind))
        fn = meths.get("append_event")
        if fn is None:
            raise AnchorError(f"C16.R1: {kind} store has no append_event")
        bad = ""
        try:
            s = lh.base(kind)
            lh.sim = Sim([], [], lambda ev: None)
            lh.sim.in_appender = True
            k = 0
            for i in range(5):
                lh.append(s, RUN, lh.event(i, False))
                k += 1
                if i in (0, 2):
                    lh.append(s, OTHER, lh.event(100 + i, False))
                log = _guard("C16.R1", f"{kind} query_events", lambda: lh.log(s))
                if not _seq_ok(log) or len(log) != k:
                    bad = bad or f"after {k} appends to the run (and {1 + (i >= 2)} to another run) the stored (sequence, event) pairs are {log}; expected sequences 0..{k - 1} in publication order"
            other = lh.log(s, OTHER)
            if [q for q, _i in other] != [0, 1]:
                bad = bad or f"the other run's sequences are {[q for q, _i in other]}, expected [0, 1]"
        except Raised as r:
            bad = f"append_event / query_events raised {r}"
        except SqlUnsupported as e:
            raise AnchorError(f"C16.R1: {kind}: SQL outside the model's subset: {e}")
        except Unsupported as e:
            raise model_unsupported("C16.R1", f"{kind} append_event", e)
        chk.ob("C16.R1", f"{kind} store: events appended to a run get sequences 0,1,2,... in publication order, independent of other runs (interpreted, 5 appends)",
               not bad, m=m, node=fn, fn=fn, instance=f"{kind}:append_event:consecutive", reason=bad)


# ---------------------------------------------------------------------------- R2 / R3


def rule_r2(chk: Any, lh: LogHarness) -> None:
    n_eval = 0
    for kind in lh.h.cfg.kinds:
        m, meths = _methods(chk.repo, lh.h.cfg.cls(kind))
        for need in ("query_events", "subscribe_events"):
            if need not in meths and chk.repo.find_method(lh.h.cfg.cls(kind), need) is None:
                raise AnchorError(f"C16.R2: {kind} store has no {need}")
        qfn = meths.get("query_events") or chk.repo.find_method(lh.h.cfg.cls(kind), "query_events")[2]
        sfn = meths.get("subscribe_events") or chk.repo.find_method(lh.h.cfg.cls(kind), "subscribe_events")[2]
        bad = ""
        try:
            s = lh.base(kind)
            lh.sim = Sim([], [], lambda ev: None)
            lh.sim.in_appender = True
            n = 4
            for i in range(n):
                lh.append(s, RUN, lh.event(i, False))
            lh.append(s, OTHER, lh.event(100, False))
            for after in (None, -1, 0, 1, 2, 3, 4, 9):
                for limit in (None, 0, 2, 10):
                    kw = {}
                    if after is not None:
                        kw["after_sequence"] = after
                    if limit is not None:
                        kw["limit"] = limit
                    got = [e.sequence for e in s.call("query_events", RUN, **kw)]
                    want = [q for q in range(n) if after is None or q > after]
                    want = want if limit is None else want[:limit]
                    n_eval += 1
                    if got != want:
                        bad = bad or f"query_events(after_sequence={after}, limit={limit}) over sequences 0..{n - 1} returned {got}, expected {want}"
        except Raised as r:
            bad = bad or f"query_events raised {r}"
        except SqlUnsupported as e:
            raise AnchorError(f"C16.R2: {kind}: SQL outside the model's subset: {e}")
        except Unsupported as e:
            raise model_unsupported("C16.R2", f"{kind} query_events", e)
        chk.ob("C16.R2", f"{kind} `query_events`: exactly the events with sequence > after, ascending, cut to limit (all after in None,-1..4,9 x limit in None,0,2,10)",
               not bad, m=m, node=qfn, fn=qfn, instance=f"{kind}:query_events:cursor", reason=bad)
        # subscribe on a static log, every cursor
        bad = ""
        script = [False, False, False, True]
        for after in (-1, 0, 1, 2, 3, 4, 9):
            try:
                ended, sim, log = _guard("C16.R2", f"{kind} subscribe_events", lambda: lh.subscribe(lh.base(kind), after, script, len(script), []))
            except Raised as r:
                bad = bad or f"raised {r}"
                continue
            n_eval += 1
            v = judge(after, {3}, log, [(e.sequence, e.event.value["i"]) for e in sim.delivered], ended)
            if v is not None:
                bad = bad or f"subscribe_events(after_sequence={after}) on a stored log 0..3 (3 terminal): {v[1]}"
        chk.ob("C16.R2", f"{kind} `subscribe_events` on a stored log starts strictly above the cursor for every cursor in -1..4, 9", not bad,
               m=m, node=sfn, fn=sfn, instance=f"{kind}:subscribe:start-cursor", reason=bad)
    chk.floor("C16.R2", "cursor evaluations (query_events + static subscriptions)", n_eval, len(lh.h.cfg.kinds) * 39)


SCRIPTS_QUICK = [[False, False, True], [False, True, False], [False, False]]
SCRIPTS_THOROUGH = SCRIPTS_QUICK + [[True], [False, False, False, True], [True, True]]


def rule_r3(chk: Any, lh: LogHarness, thorough: bool, fixture: bool = False) -> None:
    scripts = SCRIPTS_THOROUGH if thorough else SCRIPTS_QUICK
    max_cp = 6 if thorough else 4
    runs = 0
    for kind in lh.h.cfg.kinds:
        m, meths = _methods(chk.repo, lh.h.cfg.cls(kind))
        sfn = meths.get("subscribe_events") or chk.repo.find_method(lh.h.cfg.cls(kind), "subscribe_events")[2]
        fails: dict[str, str] = {}
        for script in scripts:
            n = len(script)
            terminal_ids = {i for i, t in enumerate(script) if t}
            cursors = sorted({-1, 0, n - 1} | ({1, n + 2} if thorough else set()))
            for after in cursors:
                for i0 in sorted({0, min(1, n), n} if not thorough else set(range(n + 1))):
                    if n - i0 > 3:
                        continue
                    seen: set[tuple] = set()

                    def explore(prefix: list[int]) -> None:
                        nonlocal runs
                        key = tuple(prefix)
                        if key in seen:
                            return
                        seen.add(key)
                        try:
                            ended, sim, log = lh.subscribe(lh.base(kind), after, script, i0, prefix)
                        except SqlUnsupported as e:
                            raise AnchorError(f"C16.R3: {kind}: SQL outside the model's subset: {e}")
                        except Unsupported as e:
                            raise model_unsupported("C16.R3", f"{kind} subscribe_events", e)
                        runs += 1
                        delivered = [(e.sequence, e.event.value["i"]) for e in sim.delivered]
                        v = judge(after, terminal_ids, log, delivered, ended)
                        if v is None and not _seq_ok(log):
                            v = ("order-once", f"stored sequences are {log}")
                        # a cursor ahead of what is stored when the subscription starts is its own slot
                        slot = ("ahead:" if after > i0 - 1 else "") + (v[0] if v is not None else "")
                        if v is not None and slot not in fails:
                            kinds_ = ["terminal" if t else "event" for t in script]
                            fails[slot] = (f"log {kinds_}, {i0} stored before subscribing with after_sequence={after}, appends per suspension point {prefix} "
                                           f"(points: {sim.trace[:12]}): {v[1]}")
                        for j in range(len(prefix), min(len(sim.reached), max_cp)):
                            for k in range(1, min(2, sim.reached[j]) + 1):
                                explore(prefix + [0] * (j - len(prefix)) + [k])

                    explore([])
        for cat, text in CATS.items():
            chk.ob("C16.R3", f"{kind} `subscribe_events` under every placement of appends over its suspension points (cursor within the stored log or -1): {text}", cat not in fails,
                   m=m, node=sfn, fn=sfn, instance=f"{kind}:subscribe:{cat}", reason=fails.get(cat, ""))
            chk.ob("C16.R3", f"{kind} `subscribe_events`, cursor ahead of the log stored at subscription time: {text}", "ahead:" + cat not in fails,
                   m=m, node=sfn, fn=sfn, instance=f"{kind}:subscribe-ahead:{cat}", reason=fails.get("ahead:" + cat, ""))
    chk.floor("C16.R3", "schedules executed (subscriber generator x append placements)", runs, (300 if not thorough else 1500) if not fixture else 1)
    chk.extra["schedules"] = runs


# ---------------------------------------------------------------------------- R4


def rule_r4(chk: Any, lh: LogHarness) -> None:
    repo = chk.repo
    w = lh.h.w
    m, fn = repo.func(f"{ENV}:_get_event_subtypes")
    ma, term = repo.func(f"{ABS}:AbstractWorkflowStore._is_terminal_event")
    stop_ref = f"{EVENTS}:StopEvent"
    ev_ref = f"{EVENTS}:Event"
    repo.cls(stop_ref)
    stops = [stop_ref] + repo.subclasses(stop_ref)
    others = [r for r in repo.subclasses(ev_ref) if r not in stops and r.startswith("workflows.")]
    chk.floor("C16.R4", "StopEvent classes in the repository (incl. StopEvent)", len(stops), 4)
    chk.floor("C16.R4", "non-terminal Event classes in the workflows package", len(others), 3)
    it = XInterp(w, ma)
    me, env_cls = repo.cls(f"{ENV}:EventEnvelopeWithMetadata")
    env_ref = it._classref(f"{ENV}:EventEnvelopeWithMetadata", me, env_cls)
    w.method_hooks[("Event", "model_dump")] = lambda rec, **k: {}
    bad = ""
    for ref in stops + others:
        mm, cc = repo.cls(ref)
        it._classref(ref, mm, cc)
        try:
            env = _guard("C16.R4", "EventEnvelopeWithMetadata.from_event", lambda: it.apply(it.getattr_(env_ref, "from_event"), [Record(cc.name)], {}))
            types = env.types
            stored = w.new(f"{ABS}:StoredEvent", run_id=RUN, sequence=0, timestamp=None, event=env)
            got = _guard("C16.R4", "_is_terminal_event", lambda: it.call_fn(FnRef(term, ma), None, [stored], {}))
        except Raised as r:
            bad = bad or f"{cc.name}: raised {r}"
            continue
        want = ref in stops
        if bool(got) != want:
            bad = bad or f"{cc.name}: from_event writes type={env.type!r}, types={types}; _is_terminal_event says {got}, expected {want}"
    chk.ob("C16.R4", f"the envelope metadata written for an event class makes `_is_terminal_event` true exactly for StopEvent and its subclasses ({len(stops)} terminal, {len(others)} other classes)",
           not bad, m=ma, node=term, fn=term, instance="terminal-recognition", reason=bad)


# ---------------------------------------------------------------------------- R5


class _Captured(Exception):
    def __init__(self, kw: dict):
        self.kw = kw


def rule_r5(chk: Any, lh: LogHarness) -> None:
    repo = chk.repo
    w = lh.h.w
    api_ref = f"{API}:_WorkflowAPI"
    m, meths = _methods(repo, api_ref)
    res = meths.get("_resolve_event_stream")
    strm = meths.get("_stream_events")
    if res is None or strm is None:
        raise AnchorError("C16.R5: `_WorkflowAPI._resolve_event_stream` / `_stream_events` not found")
    it = XInterp(w, m)
    it._classref(api_ref, m, repo.cls(api_ref)[1])
    bad = ""
    n = 0
    for kind in lh.h.cfg.kinds:
        for after, stored in ((None, 2), (-1, 2), (0, 2), (1, 2), (None, 0), (-1, 0)):
            s = lh.base(kind)
            lh.sim = Sim([], [], lambda ev: None)
            lh.sim.in_appender = True
            try:
                s.call("update", lh.h.handler(handler_id="H", workflow_name="w", status="running", run_id=RUN))
                for i in range(stored):
                    lh.append(s, RUN, lh.event(i, False))
                api = Record("_WorkflowAPI", _service=Record("Service", store=s.rec))
                gen = _guard("C16.R5", "_resolve_event_stream", lambda: w.call_method(api, "_resolve_event_stream", "H", after_sequence=after, include_internal=True, include_qualified_name=True))
                if gen is None:
                    bad = bad or f"{kind}: a running handler with stored events resolved to `None` (stream refused) for after_sequence={after}"
                    continue
                lh.append(s, RUN, lh.event(stored, False))
                lh.append(s, RUN, lh.event(stored + 1, True))
                lh.sim.in_appender = False
                saved = w.await_hook
                w.await_hook = lh.sim.on_await
                try:
                    items = _guard("C16.R5", "event generator", lambda: list(gen))
                finally:
                    w.await_hook = saved
            except Raised as r:
                bad = bad or f"{kind}: after_sequence={after}: raised {r}"
                continue
            except _Quiescent:
                bad = bad or f"{kind}: after_sequence={after}: the stream blocks although a terminal event is stored"
                continue
            n += 1
            got = [(q, e.value["i"]) for q, e in items]
            cur = stored - 1 if after is None else after
            want = [(q, q) for q in range(stored + 2) if q > cur]
            if got != want:
                bad = bad or (f"{kind}: {stored} events stored, stream resolved with after_sequence={'now' if after is None else after}, then 2 more (last terminal) appended: "
                              f"stream yields (id, event) {got}, expected {want}")
    chk.ob("C16.R5", "`_resolve_event_stream`: 'now' starts after the current maximum sequence, a cursor k yields exactly the events above k with the stored sequence as id (both stores)",
           not bad, m=m, node=res, fn=res, instance="resolve-cursor", reason=bad)
    chk.floor("C16.R5", "stream resolutions evaluated", n, 0 if bad else 6 * len(lh.h.cfg.kinds))

    # cursor selection in _stream_events: Last-Event-ID > query parameter; 'now'/absent -> None
    def capture(rec: Any, *a: Any, **kw: Any) -> Any:
        raise _Captured(kw)

    w.method_hooks[("_WorkflowAPI", "_resolve_event_stream")] = capture
    bad2 = ""
    n2 = 0
    try:
        for q in (None, "now", "NOW", "5", "-1", "x"):
            for hdr in (None, "7", "abc"):
                for sse in (None, "true", "false"):
                    qp = {}
                    if q is not None:
                        qp["after_sequence"] = q
                    if sse is not None:
                        qp["sse"] = sse
                    req = Record("Request", path_params={"handler_id": "H"}, query_params=qp, headers=({"last-event-id": hdr} if hdr is not None else {}))
                    api = Record("_WorkflowAPI", _service=Record("Service", store=None), _sse_heartbeat_interval=None)
                    is_sse = sse != "false"
                    qint = None if q is None or q.lower() == "now" else (int(q) if q.lstrip("-").isdigit() else "invalid")
                    want: Any = qint
                    if is_sse and hdr is not None and hdr.isdigit():
                        want = int(hdr)
                    try:
                        _guard("C16.R5", "_stream_events", lambda: w.call_method(api, "_stream_events", req))
                        got: Any = "no call to _resolve_event_stream"
                    except _Captured as c:
                        got = c.kw.get("after_sequence", "missing")
                    except Raised as r:
                        got = "invalid" if r.name == "HTTPException" else f"raised {r}"
                    n2 += 1
                    if qint == "invalid" and not (is_sse and hdr is not None and hdr.isdigit()):
                        want = "invalid"
                    if qint == "invalid" and got == "invalid":
                        continue  # rejecting a malformed query parameter before looking at the header is fine too
                    if got != want:
                        bad2 = bad2 or f"query after_sequence={q!r}, Last-Event-ID={hdr!r}, sse={sse!r}: cursor passed on is {got!r}, expected {want!r}"
    finally:
        w.method_hooks.pop(("_WorkflowAPI", "_resolve_event_stream"), None)
    chk.ob("C16.R5", "`_stream_events`: an integer Last-Event-ID (SSE mode) overrides the query parameter; 'now'/absent resolves later; the cursor reaches `_resolve_event_stream` unchanged",
           not bad2, m=m, node=strm, fn=strm, instance="cursor-selection", reason=bad2)
    chk.floor("C16.R5", "request shapes evaluated", n2, 54)


# ---------------------------------------------------------------------------- run


def run(chk: Any) -> None:
    repo = chk.repo
    thorough = chk.tier == "thorough"
    lh = LogHarness(repo)
    rule_r1_structural(chk)
    rule_r1_functional(chk, lh)
    rule_r2(chk, lh)
    rule_r3(chk, lh, thorough)
    rule_r4(chk, lh)
    rule_r5(chk, lh)
    chk.exhaustive = True
    chk.extra["interpreter_steps"] = lh.h.w.steps
    planted_fixture(chk)
    chk.observe("SqliteWorkflowStore.subscribe_events suppresses the builtin TimeoutError around asyncio.wait_for; on Python 3.10 (the package allows >=3.10) "
                "asyncio.TimeoutError is a different class, so the poll timeout would escape the generator there. The sandbox interpreter is 3.12; not an obligation.")
    chk.observe("MemoryWorkflowStore.subscribe_events cursors by list index; if the run's list is dropped by completed-handler eviction while a subscriber waits, "
                "the index no longer matches. Outside the statement (no eviction in its quantifier).")


FIXTURE = "fixtures/c16/planted_log.py"
FIXTURE_MOD = "verif_fixture_c16.planted_log"
FIXTURE_NEED = [("C16.R1", "memory:append_event:consecutive"), ("C16.R2", "memory:query_events:cursor"), ("C16.R3", "memory:subscribe:terminal-end"), ("C16.R3", "memory:subscribe:complete")]


def planted_fixture(chk: Any) -> None:
    """Every C16 rule expects no finding on the repository: a planted log store with known defects is analysed on every run and must be reported."""
    from ..index import Module, _set_parents
    from ..report import VERIF, Check

    path = VERIF / FIXTURE
    if not path.is_file():
        raise AnchorError(f"C16: fixture {path} is missing")
    src = path.read_text()
    tree = ast.parse(src, filename=str(path))
    _set_parents(tree)
    repo = chk.repo.with_overlay({})
    fm = Module(FIXTURE_MOD, path, f"verif-fixture/{FIXTURE}", src, tree)
    repo._collect(fm)
    repo.modules[FIXTURE_MOD] = fm
    repo.by_rel[fm.rel] = fm
    scratch = Check("C16", repo, "quick", 0, quiet=True, write=False)
    lh = LogHarness(repo, Cfg(f"{FIXTURE_MOD}:PlantedLog", None))
    rule_r1_functional(scratch, lh)
    rule_r2(scratch, lh)
    rule_r3(scratch, lh, False, fixture=True)
    got = {(o.rule, o.key.rsplit("|", 1)[-1]) for o in scratch.violations()}
    missing = [x for x in FIXTURE_NEED if x not in got]
    if missing:
        raise AnchorError(f"C16: planted defects not reported on {FIXTURE}: {missing}; the rules are blind (reported: {sorted(got)})")
    chk.floor("C16.R3", "planted fixture defects reported (sequence base, inclusive cursor, missing terminal return, check-then-wait window)", len(FIXTURE_NEED), 4)


_PM = "packages/llama-agents-server/src/llama_agents/server/_store/memory_workflow_store.py"
_PS = "packages/llama-agents-server/src/llama_agents/server/_store/sqlite/sqlite_workflow_store.py"
_PA = "packages/llama-agents-server/src/llama_agents/server/_store/abstract_workflow_store.py"
_PAPI = "packages/llama-agents-server/src/llama_agents/server/_api.py"
_PENV = "packages/llama-agents-client/src/llama_agents/client/protocol/serializable_events.py"

TWINS: list[Twin] = [
    # ---- getattr() / module-level tables in the interpreted store code
    Twin("benign: sqlite handler filters driven by a module-level table read with getattr", _PS, IN_BLOCKS_OLD, in_blocks_table_driven(), None),
    Twin("benign: sqlite subscription cursor read with getattr", _PS, "                yield event\n                cursor = event.sequence\n", "                yield event\n                cursor = getattr(event, \"sequence\")\n", None),
    Twin("sqlite: subscription cursor read with getattr from the wrong field", _PS, "                yield event\n                cursor = event.sequence\n", "                yield event\n                cursor = getattr(event, \"sequence\", cursor) - 1\n", "C16.R3"),
    Twin("sqlite table-driven filters: handler ids matched against the run_id column (the stream's handler is never found)", _PS, IN_BLOCKS_OLD,
         in_blocks_table_driven(IN_TABLE_ROWS.replace('("handler_id", "handler_id_in")', '("run_id", "handler_id_in")')), "C16.R5"),
    # ---- R1 breaking
    Twin("memory: suspension between reading the last sequence and appending", _PM, "        existing.append(stored)\n        condition = self._conditions.get(run_id)", "        await asyncio.sleep(0)\n        existing.append(stored)\n        condition = self._conditions.get(run_id)", "C16.R1"),
    Twin("memory: sequence from the length plus one", _PM, "next_seq = (existing[-1].sequence + 1) if existing else 0\n        stored = StoredEvent(", "next_seq = len(existing) + 1\n        stored = StoredEvent(", "C16.R1"),
    Twin("sqlite: sequences start at 1", _PS, "FROM events WHERE run_id = ?), -1) + 1", "FROM events WHERE run_id = ?), 0) + 1", "C16.R1"),
    Twin("sqlite: sequence read in one statement and inserted in another", _PS,
         '            conn.execute(\n                """INSERT INTO events (run_id, sequence, timestamp, event_json)\n                VALUES (?, COALESCE((SELECT MAX(sequence) FROM events WHERE run_id = ?), -1) + 1, CURRENT_TIMESTAMP, ?)""",\n                (\n                    run_id,\n                    run_id,\n                    event.model_dump_json(),\n                ),\n            )',
         '            nxt = conn.execute("SELECT COALESCE(MAX(sequence), -1) + 1 FROM events WHERE run_id = ?", (run_id,)).fetchone()[0]\n            conn.execute(\n                """INSERT INTO events (run_id, sequence, timestamp, event_json)\n                VALUES (?, ?, CURRENT_TIMESTAMP, ?)""",\n                (run_id, nxt, event.model_dump_json()),\n            )', "C16.R1"),
    # ---- R1: statement text in a module-level string constant
    Twin("benign: sqlite event INSERT text in a module-level constant, payload in a local, early returns in _connect / notify", _PS, *event_insert_as_constant(), None),
    Twin("sqlite: module-level INSERT constant takes the sequence as a parameter (read by an earlier statement)", _PS,
         *event_insert_as_constant(values="?, ?, CURRENT_TIMESTAMP, ?", args="(run_id, nxt, event_json)",
                                   before='            nxt = conn.execute("SELECT COALESCE(MAX(sequence), -1) + 1 FROM events WHERE run_id = ?", (run_id,)).fetchone()[0]\n'), "C16.R1"),
    Twin("sqlite: module-level INSERT constant starts sequences at 1", _PS, *event_insert_as_constant(values=EVENT_INSERT_VALUES.replace("-1) + 1", "0) + 1")), "C16.R1"),
    # ---- R2 breaking
    Twin("memory: inclusive cursor in query_events", _PM, "events = [e for e in events if e.sequence > after_sequence]", "events = [e for e in events if e.sequence >= after_sequence]", "C16.R2"),
    Twin("sqlite: inclusive cursor in query_events", _PS, 'sql += " AND sequence > ?"', 'sql += " AND sequence >= ?"', "C16.R2"),
    Twin("sqlite: ORDER BY dropped", _PS, '        sql += " ORDER BY sequence"\n        if limit is not None:', "        if limit is not None:", "C16.R2"),
    Twin("sqlite: newest first", _PS, '        sql += " ORDER BY sequence"\n        if limit is not None:', '        sql += " ORDER BY sequence DESC"\n        if limit is not None:', "C16.R2"),
    Twin("memory: subscription start index one too far", _PM, "if e.sequence <= after_sequence:\n                    cursor = i + 1", "if e.sequence <= after_sequence:\n                    cursor = i + 2", "C16.R2"),
    Twin("memory: start index counts only the first event at or below the cursor", _PM, "if e.sequence <= after_sequence:\n                    cursor = i + 1", "if e.sequence <= after_sequence and cursor == 0:\n                    cursor = i + 1", None),
    Twin("benign: start index one short (the delivery loop skips events at or below the cursor)", _PM, "if e.sequence <= after_sequence:\n                    cursor = i + 1", "if e.sequence < after_sequence:\n                    cursor = i + 1", None),
    Twin("pre-fix shape: events at or below a cursor ahead of the log are delivered", _PM, "                if event.sequence <= after_sequence:\n", "                if False:\n", "C16.R3"),
    Twin("delivery skip is not strict: the event at the cursor is delivered when the cursor is ahead of the log", _PM, "                if event.sequence <= after_sequence:\n", "                if event.sequence < after_sequence:\n", "C16.R3"),
    Twin("sqlite: subscription cursor off by one", _PS, "        cursor = after_sequence\n\n        while True:\n            async with condition:", "        cursor = after_sequence + 1\n\n        while True:\n            async with condition:", "C16.R2"),
    # ---- R3 breaking
    Twin("memory: cursor not advanced", _PM, "                yield event\n                cursor += 1\n", "                yield event\n", "C16.R3"),
    Twin("memory: no return after the terminal event", _PM, "                if self._is_terminal_event(event):\n                    return", "                if self._is_terminal_event(event):\n                    pass", "C16.R3"),
    Twin("sqlite: cursor not advanced", _PS, "                yield event\n                cursor = event.sequence\n", "                yield event\n", "C16.R3"),
    Twin("memory: batch read before the lock is taken (check-then-wait window)", _PM,
         "            async with condition:\n                all_events = self.events.get(run_id, [])\n                batch = all_events[cursor:]\n                if not batch:\n                    await condition.wait()\n                    continue\n",
         "            all_events = self.events.get(run_id, [])\n            batch = all_events[cursor:]\n            if not batch:\n                async with condition:\n                    await condition.wait()\n                continue\n", "C16.R3"),
    Twin("memory: appender forgets to notify", _PM, "            async with condition:\n                condition.notify_all()\n\n    async def query_events", "            async with condition:\n                pass\n\n    async def query_events", "C16.R3"),
    Twin("sqlite: terminal test looks at the end of the batch", _PS, "                cursor = event.sequence\n                if self._is_terminal_event(event):", "                cursor = event.sequence\n                if self._is_terminal_event(batch[-1]):", "C16.R3"),
    Twin("memory: terminal test looks at the end of the batch", _PM, "                cursor += 1\n                if self._is_terminal_event(event):", "                cursor += 1\n                if self._is_terminal_event(batch[-1]):", "C16.R3"),
    Twin("terminal test ignores subclasses of StopEvent", _PA, "        return StopEvent.__name__ in types", "        return event.event.type == StopEvent.__name__", "C16.R3"),
    Twin("benign: batch re-read after the wake-up instead of `continue`", _PM, "                if not batch:\n                    await condition.wait()\n                    continue\n", "                if not batch:\n                    await condition.wait()\n                    batch = all_events[cursor:]\n", None),
    # ---- R4 breaking
    Twin("envelope drops the nearest base class name", _PENV, "for c in cls.mro()[1:]:", "for c in cls.mro()[2:]:", "C16.R4"),
    Twin("envelope written without base-class names", _PENV, "            types=_get_event_subtypes(type(event)),", "            types=None,", "C16.R4"),
    # ---- R5 breaking
    Twin("'now' on an empty log skips sequence 0", _PAPI, "after_sequence = all_current[-1].sequence if all_current else -1", "after_sequence = all_current[-1].sequence if all_current else 0", "C16.R5"),
    Twin("'now' resolved to the event count", _PAPI, "after_sequence = all_current[-1].sequence if all_current else -1", "after_sequence = len(all_current)", "C16.R5"),
    Twin("Last-Event-ID ignored", _PAPI, "                try:\n                    after_sequence = int(last_event_id)\n                except ValueError:", "                try:\n                    int(last_event_id)\n                except ValueError:", "C16.R5"),
    Twin("stream ids are positions, not stored sequences", _PAPI, "                yield stored_event.sequence, envelope", "                yield stored_event.sequence + 1, envelope", "C16.R5"),
    # ---- benign
    Twin("benign: next sequence from the list length", _PM, "next_seq = (existing[-1].sequence + 1) if existing else 0", "next_seq = len(existing)", None),
    Twin("benign: setdefault for the run's list", _PM, "        if run_id not in self.events:\n            self.events[run_id] = []\n        existing = self.events[run_id]\n        next_seq = (existing[-1].sequence + 1) if existing else 0\n        stored = StoredEvent(", "        existing = self.events.setdefault(run_id, [])\n        next_seq = (existing[-1].sequence + 1) if existing else 0\n        stored = StoredEvent(", None),
    Twin("benign: IFNULL and +1 inside the sub-select", _PS, "COALESCE((SELECT MAX(sequence) FROM events WHERE run_id = ?), -1) + 1, CURRENT_TIMESTAMP", "IFNULL((SELECT MAX(sequence) + 1 FROM events WHERE run_id = ?), 0), CURRENT_TIMESTAMP", None),
    Twin("benign: start index by counting", _PM, "            cursor = 0\n            for i, e in enumerate(all_events):\n                if e.sequence <= after_sequence:\n                    cursor = i + 1", "            cursor = sum(1 for e in all_events if e.sequence <= after_sequence)", None),
    Twin("benign: cursor advanced before the yield", _PM, "                yield event\n                cursor += 1\n", "                cursor += 1\n                yield event\n", None),
    Twin("benign: len() test for the empty batch", _PS, "                if not batch:\n                    with contextlib.suppress(TimeoutError):", "                if len(batch) == 0:\n                    with contextlib.suppress(TimeoutError):", None),
    Twin("benign: types list built the other way round", _PA, "types = (event.event.types or []) + [event.event.type]", "types = [event.event.type] + list(event.event.types or [])", None),
    Twin("benign: 'now' through max()", _PAPI, "after_sequence = all_current[-1].sequence if all_current else -1", "after_sequence = max((e.sequence for e in all_current), default=-1)", None),
    Twin("benign: reversed strict comparison", _PM, "events = [e for e in events if e.sequence > after_sequence]", "events = [e for e in events if after_sequence < e.sequence]", None),
    Twin("benign: cursor kept as last delivered sequence via max", _PS, "                cursor = event.sequence\n", "                cursor = max(cursor, event.sequence)\n", None),
]
