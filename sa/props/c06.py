"""C06 — retry delays follow the wait strategy in documented order.

Decided: (R1) index base — the number that reaches each wait strategy for the k-th retry, traced
through the producer chain (reducer `failures`, `_ComposableRetryPolicy.next`, forwarding
combinators), makes every index-like use of it (subscript index, exponent, multiplier of an
increment) equal to k-1: the first retry uses the first strategy / the initial delay (tenacity
semantics).  Strategy classes are discovered from the class hierarchy; the few arithmetic
expressions are evaluated from their AST for k = 1..5.  (R2) the delay the policy returns reaches
the scheduled wake-up unchanged and a delayed tick is popped only when due (and every due tick is).
(R3) the retry number survives the copies the reducer takes of the state on every tick: each explicit
re-construction of a state record in the state module's copy methods passes every field of the record.
Also (R1) floor: strategies with a floor and a cap are built by interpreting __init__ and evaluated on a grid including min > max
(tenacity applies the floor last): no delay below max(0, min); (R2) heap discipline: the wake-up list is changed only through heapq.
Not decided: scheduling latency.
"""

from __future__ import annotations

import ast

from ..absint import Interp, Raised, Record, Unsupported
from ..astx import reaching_def, atoms, call_name, enclosing_stmt, expand, facts_at, has_fact, kwarg, last
from ..cfg import CFG
from ..index import AnchorError, parent
from ..selftest import Twin
from ._engine import CL, CL_REL, RUNNER, branch_for, param

EXPLANATION = __doc__.split("\n\n", 1)[1]
TECHNIQUE = 'static analysis: affine index-base agreement along the producer chain (AST evaluation of index-like sub-expressions for retries 1..5), delay plumbing def-use'
TRUSTED = ["CPython ast", "heapq ordering"]
RP = "workflows.retry_policy"
RP_REL = "packages/llama-index-workflows/src/workflows/retry_policy.py"


def _mentions(e: ast.AST, name: str) -> bool:
    return any(isinstance(x, ast.Name) and x.id == name for x in ast.walk(e))


def _clone(e: ast.AST) -> ast.AST:
    """Structural copy of an AST without the parent back-links (deepcopy would drag the whole module along)."""
    new = type(e)()
    for fld, val in ast.iter_fields(e):
        if isinstance(val, ast.AST):
            setattr(new, fld, _clone(val))
        elif isinstance(val, list):
            setattr(new, fld, [(_clone(v) if isinstance(v, ast.AST) else v) for v in val])
        else:
            setattr(new, fld, val)
    for a in ("lineno", "col_offset", "end_lineno", "end_col_offset"):
        if hasattr(e, a):
            setattr(new, a, getattr(e, a))
    return new


def _subst(e: ast.AST, mapping: dict[str, ast.AST]) -> ast.AST:
    class T(ast.NodeTransformer):
        def visit_Name(self, n: ast.Name) -> ast.AST:
            if isinstance(n.ctx, ast.Load) and n.id in mapping:
                return _clone(mapping[n.id])
            return n

    return T().visit(_clone(e))


def helper_calls(mod, fn: ast.AST) -> list[tuple[ast.Call, ast.AST, dict[str, ast.AST]]]:
    """Calls in fn to module-level helper functions of the same module: (call, helper def, param -> argument)."""
    out = []
    for c in ast.walk(fn):
        if isinstance(c, ast.Call) and isinstance(c.func, ast.Name) and c.func.id in mod.functions and "." not in c.func.id:
            h = mod.functions[c.func.id]
            params = [a.arg for a in h.args.posonlyargs + h.args.args]
            mapping = {p: expand(a, c) for p, a in zip(params, c.args)}
            for k in c.keywords:
                if k.arg:
                    mapping[k.arg] = expand(k.value, c)
            out.append((c, h, mapping))
    return out


def index_like(fn: ast.AST, var: str, mod=None, _depth: int = 2) -> list[tuple[str, ast.AST, ast.AST]]:
    """(kind, expression, site) for every index-like use of `var` in fn (locals expanded; module-level
    helper functions followed one or two calls deep with their parameters substituted)."""
    out = []
    for n in ast.walk(fn):
        if isinstance(n, ast.BinOp) and isinstance(n.op, ast.Pow):
            r = expand(n.right, n)
            if _mentions(r, var):
                out.append(("exponent", r, n))
        elif isinstance(n, ast.BinOp) and isinstance(n.op, ast.Mult):
            for side in (n.left, n.right):
                s = expand(side, n)
                if _mentions(s, var) and not any(isinstance(x, ast.BinOp) and isinstance(x.op, ast.Pow) for x in ast.walk(s)):
                    out.append(("multiplier", s, n))
        elif isinstance(n, ast.Subscript) and isinstance(n.ctx, ast.Load):
            s = expand(n.slice, n)
            if _mentions(s, var):
                out.append(("subscript", s, n))
    if mod is not None and _depth > 0:
        for call, h, mapping in helper_calls(mod, fn):
            for p, arg in mapping.items():
                if _mentions(arg, var):
                    for kind, expr, site in index_like(h, p, mod, _depth - 1):
                        out.append((kind, _subst(expr, mapping), site))
    return out


def producer_chain(repo) -> tuple[list[int], list[str]]:
    """Values that reach a wait strategy's `attempts` for retries k = 1..5, derived from the code."""
    notes = []
    _, sr = repo.func(f"{CL}:_process_step_result_tick")
    nexts = [c for c in ast.walk(sr) if isinstance(c, ast.Call) and isinstance(c.func, ast.Attribute) and c.func.attr == "next" and len(c.args) >= 2]
    if not nexts:
        raise AnchorError("C06.R1: reducer no longer calls retry_policy.next")
    arg = expand(nexts[0].args[1], nexts[0], depth=1)
    notes.append(f"reducer passes `{ast.unparse(arg)}`")
    mrp = repo.module(RP)
    Interp.register_module_classes(mrp)
    nxt = mrp.functions.get("_ComposableRetryPolicy.next")
    if nxt is None:
        raise AnchorError("C06.R1: _ComposableRetryPolicy.next not found")
    waits = [c for c in ast.walk(nxt) if isinstance(c, ast.Call) and ast.unparse(c.func) == "self.wait"]
    if not waits:
        raise AnchorError("C06.R1: _ComposableRetryPolicy.next no longer calls self.wait")
    warg = expand(waits[0].args[0], waits[0], depth=1)
    pname = nxt.args.args[2].arg
    notes.append(f"_ComposableRetryPolicy.next passes `{ast.unparse(warg)}` to the wait strategy")
    vals = []
    for k in range(1, 6):
        holder = ast.unparse(arg)
        # the only free variable is `<x>.attempts` = number of earlier executions' failures = k-1
        env = {}
        for n in ast.walk(arg):
            if isinstance(n, ast.Attribute) and n.attr == "attempts" and isinstance(n.value, ast.Name):
                env[n.value.id] = Record("InProgressState", attempts=k - 1)
        try:
            v1 = Interp().eval(arg, env)
            v2 = Interp().eval(warg, {pname: v1})
        except (Unsupported, Raised) as e:
            raise AnchorError(f"C06.R1: cannot evaluate the producer chain: {e}")
        vals.append(v2)
    return vals, notes


def run(chk) -> None:
    repo = chk.repo
    from ._engine import engine_view
    chk.extra["helpers_inlined"] = engine_view(repo)
    # a retry delay is one entry of the wake-up heap: it is released when due only while [0] is the earliest entry
    from ._engine import heap_discipline
    heap_discipline(chk, "C06.R2")
    mrp = repo.module(RP)
    Interp.register_module_classes(mrp)
    vals, notes = producer_chain(repo)
    chk.extra["producer_chain"] = {"notes": notes, "values_for_retry_1_to_5": vals}
    classes = [r for r in repo.subclasses(f"{RP}:_WaitStrategyBase") if r.startswith(RP + ":")]
    chk.floor("C06.R1", "wait strategy classes", len(classes), 8)
    indexed = 0
    for ref in classes:
        cname = ref.split(":")[1]
        call = mrp.functions.get(f"{cname}.__call__")
        if call is None:
            continue  # inherits __call__
        var = call.args.args[1].arg
        uses = index_like(call, var, mrp)
        # forwarding to inner strategies must pass the number on unchanged
        for c in ast.walk(call):
            if isinstance(c, ast.Call) and c.args and not isinstance(c.func, ast.Attribute) or (isinstance(c, ast.Call) and isinstance(c.func, ast.Subscript)):
                tgt = ast.unparse(c.func)
                if ("strateg" in tgt) and c.args:
                    same = ast.unparse(expand(c.args[0], c)) == var
                    chk.ob("C06.R1", f"{cname} forwards the retry number unchanged to the inner strategy", same, m=mrp, node=c, fn=call, instance=f"{cname}:forwards-attempts",
                           reason=f"inner strategy receives `{ast.unparse(c.args[0])}`")
        if not uses:
            continue
        indexed += 1
        bad = ""
        fp = []
        table = []
        consts = {}
        for st_ in mrp.tree.body:
            tg_ = st_.targets[0] if isinstance(st_, ast.Assign) and len(st_.targets) == 1 else (st_.target if isinstance(st_, ast.AnnAssign) else None)
            if isinstance(tg_, ast.Name) and isinstance(getattr(st_, "value", None), ast.Constant):
                consts[tg_.id] = st_.value.value
        for kind, expr, site in uses:
            seq = []
            for k, v in enumerate(vals, start=1):
                env = {**consts, var: v, "self": Record(cname, strategies=[0] * 8)}
                try:
                    seq.append(Interp().eval(expr, env))
                except (Unsupported, Raised) as e:
                    raise AnchorError(f"C06.R1: cannot evaluate `{ast.unparse(expr)}` in {cname}.__call__: {e}")
            # an exponent / multiplier keeps growing with the retry number ("all retry counts"): no plateau for large k. A subscript
            # index is exempt: a chain documents that its last strategy is reused.
            if kind != "subscript" and "subscript" not in kind and "index" not in kind:
                try:
                    big = [Interp().eval(expr, {**consts, var: kk, "self": Record(cname, strategies=[0] * 8)}) for kk in (63, 64, 65, 66, 1000, 1001)]
                except (Unsupported, Raised) as e:
                    raise AnchorError(f"C06.R1: cannot evaluate `{ast.unparse(expr)}` in {cname}.__call__ for large retry numbers: {e}")
                steps = [b_ - a_ for a_, b_ in zip(big, big[1:])]
                grows = steps[0] == steps[1] == steps[2] == steps[4] and steps[0] > 0
                chk.ob("C06.R1", f"{cname}: the {kind} `{ast.unparse(expr)[:40]}` keeps following the retry number for large counts (no cap)", grows, m=mrp, node=site, fn=call, instance=f"index-uncapped:{kind}",
                       reason=f"for retry numbers 63, 64, 65, 66, 1000, 1001 it takes {big}: from some count on every retry gets the same delay, below what the strategy documents")
            table.append({"kind": kind, "expr": ast.unparse(expr), "values_k1_to_k5": seq})
            fp.append(",".join(map(str, seq)))
            if seq != [0, 1, 2, 3, 4]:
                bad = bad or f"{kind} `{ast.unparse(expr)}` takes {seq} for retries 1..5 (expected 0,1,2,3,4: the first retry must use index 0)"
        chk.extra.setdefault("index_tables", {})[cname] = table
        chk.ob("C06.R1", f"{cname}: the k-th retry uses index k-1 (first retry = first strategy / initial delay)", not bad, m=mrp, node=call, fn=call, instance="index-base", detail="seq=" + ";".join(fp), reason=bad)
    chk.floor("C06.R1", "strategies with an index-like use of the retry number", indexed, 5)
    # the documented delay includes the strategy's floor: a retry may not start earlier than max(0, min), also when the floor lies
    # above the cap (tenacity applies the floor last); evaluated by interpreting __init__ and __call__ on a parameter grid
    from .c07 import _combinator_hooks, _module_env, floor_cap_grid

    class _TD:
        pass
    genv = _module_env(mrp)
    genv["timedelta"] = _TD
    exp_like = {c_ for c_, d_ in mrp.classes.items() if any((isinstance(x, ast.Call) and last(call_name(x)) == "_exp_term") or (isinstance(x, ast.BinOp) and isinstance(x.op, ast.Pow)) for x in ast.walk(d_))}
    fc = floor_cap_grid(mrp, genv, _combinator_hooks(mrp, genv), _TD, floor_wins=exp_like)
    chk.floor("C06.R1", "wait strategies with a floor and a cap evaluated on the floor/cap grid", len(fc), 2)
    for cname, (callf, bad_fc, n_fc) in sorted(fc.items()):
        if "below the documented floor" not in bad_fc and bad_fc:
            continue        # other bound faults are C07's
        chk.ob("C06.R1", f"{cname}: no retry is released earlier than the strategy's documented floor max(0, min), whatever the cap", not bad_fc, m=mrp, node=callf, fn=callf,
               instance=f"floor:{cname}", reason=bad_fc)

    # ---------------------------------------------------------------- R2 delay plumbing
    ms, sr = repo.func(f"{CL}:_process_step_result_tick")
    rq = [c for c in ast.walk(sr) if isinstance(c, ast.Call) and last(call_name(c)) == "CommandQueueEvent" and kwarg(c, "delay") is not None]
    chk.floor("C06.R2", "retry CommandQueueEvent constructions", len(rq), 1)
    for c in rq:
        d = expand(kwarg(c, "delay"), c)
        ok = isinstance(d, ast.Call) and isinstance(d.func, ast.Attribute) and d.func.attr == "next" or ast.unparse(kwarg(c, "delay")) == "delay"
        chk.ob("C06.R2", "the retry command carries the delay returned by the policy unchanged", ok, m=ms, node=c, fn=sr, instance="delay:command", reason=f"delay={ast.unparse(kwarg(c, 'delay'))}")
    mr, pc = repo.func(f"{RUNNER}.process_command")
    cmd = param(pc, 1)
    br = branch_for(pc, cmd, "CommandQueueEvent")
    cfg = CFG(pc)
    sched = [c for s_ in br.body for c in ast.walk(s_) if isinstance(c, ast.Call) and last(call_name(c)) == "schedule_tick"]
    chk.floor("C06.R2", "schedule_tick calls for delayed events", len(sched), 1)
    for c in sched:
        at = kwarg(c, "at_time", 1)
        e = expand(at, c) if at is not None else None
        def _is_clock(x: ast.AST) -> bool:
            # the adapter clock, directly or through a local bound to `await <adapter>.get_now()`
            if "get_now" in ast.unparse(x):
                return True
            d_ = reaching_def(x.id, c) if isinstance(x, ast.Name) else None
            return d_ is not None and "get_now" in ast.unparse(d_)
        ok = isinstance(e, ast.BinOp) and isinstance(e.op, ast.Add) and f"{cmd}.delay" in (ast.unparse(e.left), ast.unparse(e.right)) and any(_is_clock(x) for x in (e.left, e.right))
        chk.ob("C06.R2", "a delayed event is scheduled at now + delay", ok, m=mr, node=c, fn=pc, instance="delay:at_time", reason=f"at_time={ast.unparse(at) if at is not None else None}")
        for n in cfg.nodes_of(enclosing_stmt(c)):
            f = facts_at(cfg, n, expand_locals=True)
            chk.ob("C06.R2", "scheduling happens exactly for positive delays", has_fact(f, f"{cmd}.delay is not None") and has_fact(f, f"{cmd}.delay > 0"), m=mr, node=c, fn=pc, instance="delay:positive-only",
                   reason=f"guards are {sorted(f)[:6]}")
    # ---------------------------------------------------------------- R3 the retry number survives the reducer's state copies
    from ._engine import copy_completeness
    chk.floor("C06.R3", "explicit copy constructions in the state module's copy methods", copy_completeness(chk, "C06.R3"), 2)
    _, pop = repo.func(f"{RUNNER}.pop_due_ticks")
    loops = [n for n in ast.walk(pop) if isinstance(n, ast.While)]
    chk.floor("C06.R2", "pop loops in pop_due_ticks", len(loops), 1)
    nowp = param(pop, 1)
    cfp = CFG(pop)
    pops = [c for c in ast.walk(pop) if isinstance(c, ast.Call) and last(call_name(c)) in ("heappop", "pop", "popleft")]
    chk.floor("C06.R2", "pop sites in pop_due_ticks", len(pops), 1)
    for c in pops:
        heap = ast.unparse(c.args[0]) if last(call_name(c)) == "heappop" and c.args else ast.unparse(c.func.value) if isinstance(c.func, ast.Attribute) else "?"
        for n in cfp.nodes_of(enclosing_stmt(c)):
            f = facts_at(cfp, n, expand_locals=True)
            # on every path to the pop: the heap is non-empty and not (now < time of its first entry); nothing else decides
            heap_here = {heap, ast.unparse(expand(ast.parse(heap, mode="eval").body, c, depth=2))}      # the heap behind a local alias
            due = any((f"{nowp} < {h_}[0][0]", False) in f for h_ in heap_here)
            nonempty = any((h_, True) in f for h_ in heap_here)
            chk.ob("C06.R2", "a scheduled tick is released only when its time has come (scheduled_time <= now)", due and nonempty, m=mr, node=c, fn=pop, instance="pop:only-due",
                   reason=f"facts on the path to the pop: {sorted(f)}")
    for lp in loops:
        # and every due tick is released: the loop is left only when the heap is empty or its first entry is not due yet
        from ..index import ancestors as _anc
        inside = [t for t in cfp.nodes if t.kind == "test" and any(a is lp for a in [t.ast] + list(_anc(t.ast)))]
        # only a test that can leave the loop decides when releasing stops: the loop condition itself, or an `if` one of whose
        # arms breaks / returns; an `if` that merely does bookkeeping on the popped tick is not an exit
        exits = [t for t in inside if t.ast is lp or any(isinstance(x, (ast.Break, ast.Return)) for x in ast.walk(t.ast))]
        extra = []
        heap_x = ast.unparse(expand(ast.parse(heap, mode="eval").body, lp, depth=2))  # the heap behind a local alias
        if heap_x == heap and pops:
            heap_x = ast.unparse(expand(ast.parse(heap, mode="eval").body, pops[0], depth=2))
        allowed = {h_ for hp in (heap, heap_x) for h_ in (hp, f"{nowp} < {hp}[0][0]")}
        for t in exits:
            raw = [a_ for a_, _p in atoms(t.ast.test, True)]
            exp = [a_ for a_, _p in atoms(expand(t.ast.test, t.ast), True)]
            for a_raw, a_exp in zip(raw, exp) if len(raw) == len(exp) else [(a_, a_) for a_ in exp]:
                if a_raw not in allowed and a_exp not in allowed:
                    extra.append(a_exp)
        chk.ob("C06.R2", "the release loop stops only on an empty heap or a first entry that is not due yet", not extra, m=mr, node=lp, fn=pop, instance="pop:all-due", reason=f"further loop conditions {sorted(set(extra))}")
    _, st = repo.func(f"{RUNNER}.schedule_tick")
    push = [c for c in ast.walk(st) if isinstance(c, ast.Call) and last(call_name(c)) == "heappush"]
    entry = expand(push[0].args[1], push[0], depth=2) if push and len(push[0].args) > 1 else None       # the entry tuple, possibly bound to a local first
    ok = isinstance(entry, ast.Tuple) and bool(entry.elts) and ast.unparse(expand(entry.elts[0], push[0], depth=2)) == param(st, 2)
    chk.ob("C06.R2", "the heap is keyed by the requested wake-up time", ok, m=mr, node=push[0] if push else st, fn=st, instance="heap:key", reason="first tuple element is not at_time")


TWINS = [
    Twin("due wake-up taken with list.pop(0) instead of heapq.heappop", CL_REL, "heapq.heappop(self.scheduled_wakeups)", "self.scheduled_wakeups.pop(0)", "C06.R2"),
    Twin("benign: heap popped through a local alias", CL_REL, "            _, _, tick = heapq.heappop(self.scheduled_wakeups)\n", "            _heap = self.scheduled_wakeups\n            _, _, tick = heapq.heappop(_heap)\n", None),
    Twin("queue copy drops the retry bookkeeping", "packages/llama-index-workflows/src/workflows/runtime/types/internal_state.py", "            queue=[dataclasses.replace(x) for x in self.queue],", "            queue=[EventAttempt(event=x.event, recovery_counts=dict(x.recovery_counts)) for x in self.queue],", "C06.R3"),
    Twin("in-progress copy forgets attempts", "packages/llama-index-workflows/src/workflows/runtime/types/internal_state.py", "            attempts=self.attempts,\n            first_attempt_at=self.first_attempt_at,\n            last_exception=self.last_exception,", "            first_attempt_at=self.first_attempt_at,\n            last_exception=self.last_exception,", "C06.R3"),
    Twin("benign: queue copy spelled out in full", "packages/llama-index-workflows/src/workflows/runtime/types/internal_state.py", "            queue=[dataclasses.replace(x) for x in self.queue],", "            queue=[EventAttempt(event=x.event, attempts=x.attempts, first_attempt_at=x.first_attempt_at, last_exception=x.last_exception, last_failed_at=x.last_failed_at, recovery_counts=dict(x.recovery_counts)) for x in self.queue],", None),
    Twin("reducer passes attempts+2", CL_REL, "            failures = this_execution.attempts + 1\n", "            failures = this_execution.attempts + 2\n", "C06.R1"),
    Twin("chain skips ahead", RP_REL, "        idx = min(attempts, len(self.strategies) - 1)", "        idx = min(attempts + 1, len(self.strategies) - 1)", "C06.R1"),
    Twin("chain forwards shifted attempts", RP_REL, "        return self.strategies[idx](attempts, seed=seed)", "        return self.strategies[idx](attempts - idx, seed=seed)", "C06.R1"),
    Twin("delay halved", CL_REL, "                self.schedule_tick(event, at_time=now + command.delay)", "                self.schedule_tick(event, at_time=now + command.delay / 2)", "C06.R2"),
    Twin("delay ignored", CL_REL, "                        delay=delay,\n                        step_name=tick.step_name,", "                        delay=0.0 if delay else delay,\n                        step_name=tick.step_name,", "C06.R2"),
    Twin("pop early", CL_REL, "while self.scheduled_wakeups and self.scheduled_wakeups[0][0] <= now:", "while self.scheduled_wakeups and self.scheduled_wakeups[0][0] <= now + 1:", "C06.R2"),
    Twin("benign: pop condition reversed", CL_REL, "while self.scheduled_wakeups and self.scheduled_wakeups[0][0] <= now:", "while self.scheduled_wakeups and now >= self.scheduled_wakeups[0][0]:", None),
    Twin("benign: at_time commuted", CL_REL, "                self.schedule_tick(event, at_time=now + command.delay)", "                self.schedule_tick(event, at_time=command.delay + now)", None),
]

_WE_OLD = """        return max(
            max(0.0, self.min),
            min(_exp_term(self.multiplier, self.exp_base, attempts), self.max),
        )
"""
TWINS += [
    Twin("wait_exponential: cap applied last, so a floor above the cap is ignored", "packages/llama-index-workflows/src/workflows/retry_policy.py", _WE_OLD,
         "        return min(max(_exp_term(self.multiplier, self.exp_base, attempts), max(0.0, self.min)), self.max)\n", "C06.R1"),
    Twin("benign: wait_exponential clamp written with locals and a conditional", "packages/llama-index-workflows/src/workflows/retry_policy.py", _WE_OLD,
         "        capped = min(_exp_term(self.multiplier, self.exp_base, attempts), self.max)\n        floor = max(0.0, self.min)\n        return floor if floor > capped else capped\n", None),
]
