"""C26 — idle release and resume never lose an event or double-run a workflow.

Decided (necessary conditions, visible in the shape of the code):
  R1  the reducer emits the idle-release exit command only under the idle predicate, and the idle
      predicate is false whenever a step has queued or running work (finite exhaustive evaluation
      of the predicate's AST);
  R2  the in-process releaser (hard abort of the control-loop task) re-verifies idleness from a
      source that the *run* keeps current: either a hook that runs for every processed tick clears
      / refreshes the idle marker, or the release path reads live run state;
  R3  check-then-send atomicity: in each stack the sender's liveness check and the forwarding send
      that relies on it lie in one critical section that the releaser's decision+act also takes;
  R4  lifecycle CAS transitions: each UPDATE of the lifecycle row carries `AND state = <expected>`
      with the expected constant of the state machine; try_begin_resume reads and writes inside one
      transaction with a row lock or one keyed-lock region; `released` (ownership) is returned to
      exactly the caller whose UPDATE ran;
  R5  one control loop per run: reload re-checks the active set under the reload lock; the basic
      runtime refuses an existing run id; the DBOS resume awaits the old workflow before restart;
  R6  (conditional) if the reducer can reject TickIdleRelease, the DBOS releaser has a `releasing` ->
      `active` compensation, otherwise the lifecycle row sticks and later senders hang.
  R7  ownership of `releasing` across suspension points (DBOS stack): the idle-timer task is stored in a registry whose
      entries are cancelled on every received tick, on re-schedule and on resume.  The task must have left that registry
      (or hand the release to a task the registry does not hold) before the first suspension point that follows a
      successful release CAS, on every path; and no removal of its key may run on the task's cancellation path unless it
      is guarded by `stored task is this task` (the canceller already removed the entry and a re-schedule stores the
      successor under the same key in the same step).

Not decided: DBOS / Postgres / SQLite semantics (trusted), multi-replica timing, scheduled work held
only in the runner's timer heap (decided by C03.R2 / C14.R1), the short overlap between a cancelled
control-loop task's cleanup and its successor, eventual delivery by asyncio / DBOS mailboxes.
"""

from __future__ import annotations

import ast
import itertools
import re

from ..absint import Interp, Raised, Record, Unsupported
from ..astx import (
    atoms,
    call_name,
    calls_named,
    dotted,
    enclosing_stmt,
    expand,
    facts_at,
    is_suspension,
    kwarg,
    last,
    reaching_def,
)
from ..cfg import CFG
from ..index import AnchorError, FuncNode, ancestors, enclosing_function, parent, qualname_of, walk_shallow
from ..selftest import Twin, multi

EXPLANATION = (
    "Static necessary-condition rules for idle release / resume. "
    "R1: every construction of CommandCompleteRun(IdleReleasedEvent) in the workflows package is dominated by a true "
    "outcome of the idle predicate (the predicate that gates WorkflowIdleEvent in _reduce_tick) applied to the state the run is "
    "left in; the predicate's AST is evaluated on every (is_running, per-step queue/in_progress emptiness) combination for 0..2 "
    "steps and must be False whenever work is queued or running (finite, exhaustive). "
    "R2: IdleReleaseDecorator._release_idle_handler aborts the run task directly, so the marker it trusts (idle_since) must be "
    "refreshed by a hook executed for every processed tick of the run (on_tick / after_tick / wait_for_next_task / wait_receive "
    "override in the internal adapter that touches the marker or the deferred timer), or the release path must read live run state. "
    "R3: in both stacks, the external adapter's forwarding send and the lifecycle/liveness check that guards it are nested in one "
    "`async with` region, and the releaser's decision and act are nested in a region on the same lock attribute. "
    "R4: for every RunLifecycleLock implementation, begin_release = UPDATE … WHERE run_id AND state='active' SET 'releasing' with "
    "the result derived from the affected row; complete_release = … AND state='releasing' SET 'released'; try_begin_resume does "
    "SELECT and UPDATE(SET 'active') in one transaction with FOR UPDATE or one keyed-lock region without suspension between them, "
    "returns `released` only through the UPDATE and never returns anything else after it; SQLite mutators all run under the keyed lock. "
    "R5: workflow.run in the reload path is dominated by `run_id not in _active_run_ids`, its callers hold the reload lock, "
    "BasicRuntime.run_workflow raises for a known run id before creating the task, _do_resume awaits the old workflow's result and "
    "is entered only by the owner of the `released` transition, restarting with the same run id. "
    "R6 (conditional on R1's guard being present): when some path of the TickIdleRelease branch returns without the exit command, a "
    "RunLifecycleLock transition `releasing`→`active` other than the crash-timeout takeover must exist and be called from the DBOS idle-release module. "
    "R7: in the DBOS decorator the timer registry is bound by role (the dict attribute whose looked-up values receive `.cancel()`; the coroutine "
    "methods whose spawned task is stored in it are the timers; the release CAS is any RunLifecycleLock transition whose UPDATE sets `releasing`). "
    "Walking the timer coroutine and the methods it awaits in its own task, every suspension point reachable (normal edges) after a CAS call must be "
    "unreachable from the coroutine's entry without passing a removal of the task's own key from the registry (`pop(key…)`, `del reg[key]`, or the "
    "absent edge of `key in reg`); a release handed to create_task / ensure_future / shield / the class's spawner runs in an unregistered task and is "
    "accepted; a coroutine call that is neither awaited nor handed to a spawner is exit 2. Every removal reachable from the cancellation edge of one "
    "of the task's suspension points must be dominated by `<reg>.get(key) is asyncio.current_task()` (zero such removals today; exercised on a planted fixture). "
    "Not decided by R7: whether a cancel path that skips releasing tasks by another mechanism is correct (a canceller guarded by other state is not modelled; "
    "today the canceller tests only `is not None` / `done()`), and cancellation of the CAS await itself. "
    "Not decided: database/DBOS semantics, cross-replica timing, timers in the runner's heap (C03/C14), delivery liveness."
)
TRUSTED = [
    "CPython ast",
    "asyncio.Lock / KeyedLock mutual exclusion (C25)",
    "single-statement UPDATE … WHERE atomicity and SELECT … FOR UPDATE row locks (Postgres), sqlite3 statement atomicity",
    "DBOS workflow completion / mailbox semantics",
]
LEVEL_TEXT = "static necessary-condition rules (guard dominance, critical-section nesting, CAS shape of SQL, finite evaluation of the idle predicate, registry-membership typestate across suspension points)"
LEVEL_NOTE = (
    "A pass means the decided clauses hold, not the whole property: delivery liveness, database semantics, cross-replica "
    "timing and scheduled work in the runner's timer heap are not decided here."
)
TECHNIQUE = "ast + CFG dominance + small SQL reader + AST interpretation over a finite domain"

CL = "workflows.runtime.control_loop"
SRV = "llama_agents.server._runtime.idle_release_runtime"
DBI = "llama_agents.dbos.idle_release"
LIFE = "llama_agents.dbos.journal.lifecycle"
BASIC = "workflows.plugins.basic"

# ======================================================================================= shared helpers
# (also imported by c36.py / c27.py; kept here because the brief forbids new shared files under sa/)


def fn_params(fn: ast.AST) -> list[str]:
    a = fn.args
    return [p.arg for p in a.posonlyargs + a.args + a.kwonlyargs]


def strip_await(e: ast.AST | None) -> ast.AST | None:
    while isinstance(e, ast.Await):
        e = e.value
    return e


def with_regions(node: ast.AST) -> list[ast.AST]:
    """Enclosing with / async-with statements of a node, innermost first, inside its function."""
    out = []
    for a in ancestors(node):
        if isinstance(a, FuncNode):
            break
        if isinstance(a, (ast.With, ast.AsyncWith)):
            out.append(a)
    return out


def region_lock_attr(w: ast.AST) -> tuple[str, str] | None:
    """(lock attribute, key text) for `async with <recv>.<attr>(<key>)` / `async with <recv>.<attr>`."""
    for item in w.items:
        e = item.context_expr
        key = ""
        if isinstance(e, ast.Call):
            key = ", ".join(ast.unparse(a) for a in e.args)
            e = e.func
        if isinstance(e, ast.Name):
            d = reaching_def(e.id, w)
            if isinstance(d, ast.Call) and not key:
                key = ", ".join(ast.unparse(a) for a in d.args)
                d = d.func
            e = d if d is not None else e
        if isinstance(e, ast.Attribute):
            return e.attr, key
    return None


def lock_attrs_of_class(cls: ast.ClassDef) -> dict[str, str]:
    """Attributes assigned a lock object in __init__: attr -> constructor name."""
    out = {}
    for n in cls.body:
        if isinstance(n, FuncNode) and n.name == "__init__":
            for s in ast.walk(n):
                if isinstance(s, (ast.Assign, ast.AnnAssign)):
                    tgt = s.targets[0] if isinstance(s, ast.Assign) else s.target
                    val = s.value
                    if isinstance(tgt, ast.Attribute) and isinstance(tgt.value, ast.Name) and tgt.value.id == "self" and isinstance(val, ast.Call):
                        cn = last(call_name(val)) or ""
                        if cn in ("KeyedLock", "Lock", "RLock", "Semaphore", "BoundedSemaphore"):
                            out[tgt.attr] = cn
    return out


def method(cls: ast.ClassDef, name: str) -> ast.AST | None:
    for n in cls.body:
        if isinstance(n, FuncNode) and n.name == name:
            return n
    return None


def need_method(m, cls: ast.ClassDef, name: str) -> ast.AST:
    f = method(cls, name)
    if f is None:
        raise AnchorError(f"method `{cls.name}.{name}` not found in {m.rel}")
    return f


def returned_class(fn: ast.AST) -> str | None:
    """Class constructed by the (single) return of a factory method."""
    names = set()
    for n in walk_shallow(fn):
        if isinstance(n, ast.Return) and n.value is not None:
            v = expand(n.value, n)
            if isinstance(v, ast.Call) and dotted(v.func):
                names.add(dotted(v.func))
    return names.pop() if len(names) == 1 else None


def suspension_between(fn: ast.AST, a: ast.AST, b: ast.AST) -> list[ast.AST]:
    """Suspension points lexically after statement a and before statement b (same function), excluding the
    awaits that are part of a and b themselves."""
    la, lb = (a.end_lineno, a.end_col_offset), (b.lineno, b.col_offset)
    out = []
    for n in walk_shallow(fn):
        if is_suspension(n):
            pos = (n.lineno, n.col_offset)
            if la <= pos < lb:
                out.append(n)
    return out


# --------------------------------------------------------------------------------------- tiny SQL reader

_TOK = re.compile(r"\s*(\$\d+|\?|@\w+|'[^']*'|[A-Za-z_][A-Za-z_0-9.]*|<=|>=|<>|!=|[(),=*<>;])")


class Sql:
    """One SQL statement built at a call site: text with `{expr}` pieces replaced by @X tokens, placeholders
    bound to the argument expressions."""

    def __init__(self, call: ast.Call, text: str, params: list[ast.AST], style: str):
        self.call, self.text, self.params, self.style = call, text, params, style
        self.tokens = _TOK.findall(text)
        self.verb = self.tokens[0].upper() if self.tokens else ""
        self._q = 0

    def upper(self) -> list[str]:
        return [t.upper() if not t.startswith("'") else t for t in self.tokens]

    def has_seq(self, *words: str) -> bool:
        up = self.upper()
        n = len(words)
        return any(up[i:i + n] == list(words) for i in range(len(up) - n + 1))

    def _bind(self, tok: str, qindex: int) -> ast.AST | str | None:
        if tok.startswith("$"):
            i = int(tok[1:]) - 1
            return self.params[i] if 0 <= i < len(self.params) else None
        if tok == "?":
            return self.params[qindex] if qindex < len(self.params) else None
        if tok.startswith("'"):
            return tok[1:-1]
        return None

    def assignments(self) -> tuple[dict[str, object], dict[str, object]]:
        """(SET col -> value, WHERE col -> value for `col = value` conjuncts).  `?` placeholders are
        numbered in textual order."""
        up = self.upper()
        sets: dict[str, object] = {}
        where: dict[str, object] = {}
        section = None
        i = 0
        while i < len(up):
            t = up[i]
            if t == "SET":
                section = "set"
            elif t == "WHERE":
                section = "where"
            elif t in ("RETURNING", "ORDER", "FOR", "LIMIT", "VALUES", "ON", "GROUP"):
                section = None
            if section in ("set", "where") and i + 2 < len(up) and up[i + 1] == "=" and re.match(r"^[A-Za-z_]", self.tokens[i]) and t not in ("AND", "OR", "NOT", "SET", "WHERE"):
                col = self.tokens[i].split(".")[-1].lower()
                vt = self.tokens[i + 2]
                qn = sum(1 for x in self.tokens[: i + 2] if x == "?")
                val = self._bind(vt, qn)
                (sets if section == "set" else where)[col] = val if val is not None else vt
                i += 3
                continue
            i += 1
        return sets, where

    def insert_values(self) -> dict[str, object]:
        """INSERT INTO t (a, b) VALUES (p1, p2) -> {a: p1, b: p2}."""
        up = self.upper()
        if "VALUES" not in up or "(" not in up:
            return {}
        try:
            i0 = up.index("(")
            i1 = up.index(")", i0)
            cols = [t.lower() for t in self.tokens[i0 + 1:i1] if t != ","]
            j0 = up.index("(", up.index("VALUES"))
            j1 = up.index(")", j0)
            vals = [t for t in self.tokens[j0 + 1:j1] if t != ","]
        except ValueError:
            return {}
        out = {}
        for k, (c, v) in enumerate(zip(cols, vals)):
            qn = sum(1 for x in self.tokens[: j0 + 1] if x == "?") + sum(1 for x in vals[:k] if x == "?")
            b = self._bind(v, qn)
            out[c] = b if b is not None else v
        return out


_SQL_METHODS = {"execute", "fetchrow", "fetch", "fetchval", "executemany", "executescript"}


def sql_text_of(e: ast.AST) -> str | None:
    if isinstance(e, ast.Constant) and isinstance(e.value, str):
        return e.value
    if isinstance(e, ast.JoinedStr):
        out = []
        for v in e.values:
            if isinstance(v, ast.Constant):
                out.append(str(v.value))
            else:
                out.append(" @X ")
        return "".join(out)
    if isinstance(e, ast.BinOp) and isinstance(e.op, ast.Add):
        l, r = sql_text_of(e.left), sql_text_of(e.right)
        return l + r if l is not None and r is not None else None
    return None


def sql_statements(fn: ast.AST) -> list[Sql]:
    out = []
    for c in ast.walk(fn):
        if isinstance(c, ast.Call) and isinstance(c.func, ast.Attribute) and c.func.attr in _SQL_METHODS and c.args:
            first = c.args[0]
            if isinstance(first, ast.Name):
                d = reaching_def(first.id, c)
                first = d if d is not None else first
            text = sql_text_of(first)
            if text is None or not re.match(r"\s*(SELECT|UPDATE|INSERT|DELETE|CREATE|ALTER)\b", text, re.I):
                continue
            rest = list(c.args[1:])
            if len(rest) == 1 and isinstance(rest[0], (ast.Tuple, ast.List)):
                params, style = list(rest[0].elts), "qmark"
            else:
                params, style = rest, "dollar"
            out.append(Sql(c, text, params, style))
    return sorted(out, key=lambda s: (s.call.lineno, s.call.col_offset))


def enum_members(cls: ast.ClassDef) -> dict[str, object]:
    out = {}
    for s in cls.body:
        if isinstance(s, ast.Assign) and len(s.targets) == 1 and isinstance(s.targets[0], ast.Name) and isinstance(s.value, ast.Constant):
            out[s.targets[0].id] = s.value.value
    return out


def state_member(v: object, enum_name: str, members: dict[str, object], at: ast.AST | None = None) -> str | None:
    """Name of the lifecycle state denoted by a bound SQL value / expression."""
    if isinstance(v, str):
        for k, val in members.items():
            if val == v:
                return k
        return None
    if isinstance(v, ast.Name) and at is not None:
        d = reaching_def(v.id, at)
        if d is not None:
            v = d
    if isinstance(v, ast.Constant) and isinstance(v.value, str):
        return state_member(v.value, enum_name, members)
    d = dotted(v) if isinstance(v, ast.AST) else None
    if d:
        parts = d.split(".")
        if parts[-1] == "value":
            parts = parts[:-1]
        if len(parts) >= 2 and parts[-2] == enum_name and parts[-1] in members:
            return parts[-1]
    return None


def lifecycle_impls(repo) -> tuple[object, ast.ClassDef, list[tuple[str, object, ast.ClassDef]], str, dict[str, object]]:
    """(module, abstract class, [(ref, module, class)] concrete implementations, enum name, enum members)."""
    m, base = repo.cls(f"{LIFE}:RunLifecycleLock")
    _, enum = repo.cls(f"{LIFE}:RunLifecycleState")
    members = enum_members(enum)
    for need in ("active", "releasing", "released"):
        if need not in members:
            raise AnchorError(f"RunLifecycleState has no member `{need}` (state machine active→releasing→released→active)")
    impls = []
    for ref in repo.subclasses(f"{LIFE}:RunLifecycleLock"):
        mm, c = repo.cls(ref)
        impls.append((ref, mm, c))
    return m, base, impls, "RunLifecycleState", members


def abstract_methods(cls: ast.ClassDef) -> list[str]:
    out = []
    for n in cls.body:
        if isinstance(n, FuncNode) and any((dotted(d) or "").split(".")[-1] == "abstractmethod" for d in n.decorator_list):
            out.append(n.name)
    return out


# ======================================================================================= R1


def _idle_predicate(repo) -> tuple[object, ast.AST, str]:
    """The idle predicate = callee of the test that gates publication of WorkflowIdleEvent in _reduce_tick."""
    m, rt = repo.func(f"{CL}:_reduce_tick")
    cfg = CFG(rt)
    names = set()
    for c in calls_named(rt, "WorkflowIdleEvent"):
        st = enclosing_stmt(c)
        for n in cfg.nodes_of(st):
            # positive facts on the path (either `if pred(): publish` or `if not pred(): return` … publish)
            for atom, pol in facts_at(cfg, n, expand_locals=True, _depth=0):
                if not pol:
                    continue
                try:
                    tst = ast.parse(atom, mode="eval").body
                except SyntaxError:
                    continue
                if isinstance(tst, ast.Call) and isinstance(tst.func, ast.Name) and tst.func.id in m.functions:
                    names.add(tst.func.id)
    if len(names) != 1:
        raise AnchorError(f"C26.R1: cannot bind the idle predicate (test gating WorkflowIdleEvent in _reduce_tick calls {sorted(names)})")
    name = names.pop()
    return m, m.functions[name], name


def _guard_calls(facts: set[tuple[str, bool]], pred: str) -> list[tuple[ast.Call, bool]]:
    out = []
    for text, pol in facts:
        try:
            e = ast.parse(text, mode="eval").body
        except SyntaxError:
            continue
        if isinstance(e, ast.Call) and isinstance(e.func, ast.Name) and e.func.id == pred:
            out.append((e, pol))
    return out


def _state_like(fn: ast.AST, arg: ast.AST, at: ast.AST, returned: ast.AST | None) -> bool:
    if returned is not None and ast.unparse(arg) == ast.unparse(returned):
        return True
    if isinstance(arg, ast.Name):
        if arg.id in fn_params(fn):
            return True
        d = reaching_def(arg.id, at)
        if d is not None:
            d = strip_await(d)
            if isinstance(d, ast.Call) and isinstance(d.func, ast.Attribute) and d.func.attr in ("deepcopy", "copy") and isinstance(d.func.value, ast.Name) and d.func.value.id in fn_params(fn):
                return True
            if isinstance(d, ast.Name) and d.id in fn_params(fn):
                return True
    return False


def rule_r1(chk) -> None:
    repo = chk.repo
    m, pred_fn, pred = _idle_predicate(repo)
    sites = []
    for mod in list(repo.by_rel.values()):
        if not (mod.name == "workflows" or mod.name.startswith("workflows.")):
            continue
        for c in calls_named(mod.tree, "CommandCompleteRun", shallow=False):
            res = kwarg(c, "result", 0)
            if res is None:
                continue
            ex = expand(res, c)
            if isinstance(ex, ast.Call) and last(call_name(ex)) == "IdleReleasedEvent":
                fn = enclosing_function(c)
                if fn is not None:
                    sites.append((mod, fn, c))
    chk.floor("C26.R1", "constructions of CommandCompleteRun(IdleReleasedEvent)", len(sites), 1)
    for mod, fn, c in sites:
        repo.consulted.add(mod.rel)
        st = enclosing_stmt(c)
        returned = None
        if isinstance(st, ast.Return) and isinstance(st.value, ast.Tuple) and st.value.elts:
            returned = st.value.elts[0]
        ok, reason = _guarded_by_pred(fn, st, pred, returned)
        if not ok and qualname_of(fn) != "_reduce_tick":
            # helper one call deep: the guard may sit at the helper's call site in the reducer
            for mod2 in repo.by_rel.values():
                if not mod2.name.startswith("workflows"):
                    continue
                for call in calls_named(mod2.tree, fn.name, shallow=False):
                    f2 = enclosing_function(call)
                    if f2 is None or f2 is fn:
                        continue
                    ok2, _r = _guarded_by_pred(f2, enclosing_stmt(call), pred, None)
                    ok = ok or ok2
        chk.ob("C26.R1", f"CommandCompleteRun(IdleReleasedEvent) is emitted only under `{pred}(<state>)`", ok, m=mod, node=c, fn=fn,
               instance="idle-release-exit", reason=reason,
               path=[f"tick TickIdleRelease -> {qualname_of(fn)} -> CommandCompleteRun(IdleReleasedEvent) -> runner cleanup_tasks(): running workers cancelled, queued events dropped from memory"] if not ok else None)

    # ---- the predicate itself: false whenever work is queued or running (finite, exhaustive)
    params = fn_params(pred_fn)
    if not params:
        raise AnchorError(f"C26.R1: idle predicate `{pred}` takes no state parameter")
    a = pred_fn.args
    pos = [p.arg for p in a.posonlyargs + a.args]
    required = pos[: len(pos) - len(a.defaults)] + [p.arg for p, d in zip(a.kwonlyargs, a.kw_defaults) if d is None]
    required_extra = [p for p in required if p != params[0]]
    if len(required_extra) > 2:
        raise AnchorError(f"C26.R1: idle predicate `{pred}` has {len(required_extra)} extra required parameters; the rule cannot model them")
    neutral = [None, 0, 1, False, True, ()]
    cases = bad = evaluated = 0
    reason = ""
    try:
        for nw in range(0, 3):
            for combo in itertools.product([(0, 0), (1, 0), (0, 1), (1, 1)], repeat=nw):
                for running in (True, False):
                    for extra in itertools.product(neutral, repeat=len(required_extra)):
                        workers = {f"s{i}": Record("InternalStepWorkerState", queue=["e"] * q, in_progress=["w"] * ip, collected_events={}, collected_waiters=[])
                                   for i, (q, ip) in enumerate(combo)}
                        st = Record("BrokerState", is_running=running, workers=workers)
                        busy = any(q or ip for q, ip in combo) or not running
                        if not busy:
                            continue
                        cases += 1
                        args = {params[0]: st, **dict(zip(required_extra, extra))}
                        try:
                            v = Interp({}).call_function(pred_fn, args)
                        except Raised:
                            continue
                        evaluated += 1
                        if v:
                            bad += 1
                            reason = reason or f"`{pred}` is truthy for is_running={running}, (queue,in_progress) sizes {list(combo)}, extra args {list(extra)}"
    except Unsupported as e:
        raise AnchorError(f"C26.R1: idle predicate `{pred}` uses a construct the evaluator does not model: {e}")
    if evaluated == 0:
        raise AnchorError(f"C26.R1: idle predicate `{pred}` could not be evaluated on any of {cases} busy states")
    chk.ob("C26.R1", f"`{pred}` is false for all {evaluated} evaluated states (0..2 steps) that have queued or running work or are not running", bad == 0,
           m=m, node=pred_fn, fn=pred_fn, instance="idle-predicate-sound", reason=reason)
    chk.extra["idle_predicate_enumeration"] = {"busy_states": cases, "evaluated": evaluated, "bad": bad}
    chk.exhaustive = True
    # what the predicate cannot see (computed, not claimed)
    _, runner = repo.cls(f"{CL}:_ControlLoopRunner")
    sched = need_method(m, runner, "schedule_tick")
    heaps = sorted({n.args[0].attr for n in ast.walk(sched) if isinstance(n, ast.Call) and last(call_name(n)) == "heappush" and n.args and isinstance(n.args[0], ast.Attribute)})
    reads = sorted({n.attr for n in ast.walk(pred_fn) if isinstance(n, ast.Attribute)})
    if heaps and not set(heaps) & set(reads):
        chk.observe(f"C26.R1: the idle predicate `{pred}` reads {reads}; scheduled work lives in the runner attribute(s) {heaps} "
                    "(timer heap) which the reducer cannot see — the `scheduled work` clause of C26 is decided by C03.R2 / C14.R1, not here.")


def _guarded_by_pred(fn: ast.AST, st: ast.AST, pred: str, returned: ast.AST | None) -> tuple[bool, str]:
    cfg = CFG(fn)
    nodes = cfg.nodes_of(st)
    if not nodes:
        raise AnchorError(f"C26.R1: statement at line {getattr(st, 'lineno', '?')} has no CFG node in {qualname_of(fn)}")
    ok_all = True
    reason = ""
    for n in nodes:
        facts = facts_at(cfg, n)
        calls = _guard_calls(facts, pred)
        pos = [c for c, pol in calls if pol]
        if not pos:
            ok_all = False
            neg = [c for c, pol in calls if not pol]
            reason = (f"dominated by `not {pred}(…)` — inverted guard" if neg else
                      f"no dominating `{pred}(…)` test: the branch is unconditional (facts on all paths: {sorted(t for t, _p in facts)[:4]})")
            continue
        good = [c for c in pos if len(c.args) >= 1 and _state_like(fn, c.args[0], st, returned)]
        if not good:
            raise AnchorError(f"C26.R1: `{pred}` guard in {qualname_of(fn)} is applied to `{ast.unparse(pos[0].args[0]) if pos[0].args else ''}`, "
                              "which the rule cannot relate to the reducer's state")
    return ok_all, reason


# ======================================================================================= R3


def _decorator_and_adapter(repo, modname: str, deco_name: str) -> tuple[object, ast.ClassDef, ast.ClassDef, ast.ClassDef | None]:
    m, deco = repo.cls(f"{modname}:{deco_name}")
    ext_name = returned_class(need_method(m, deco, "get_external_adapter"))
    if ext_name is None or ext_name not in m.classes:
        raise AnchorError(f"{deco_name}.get_external_adapter does not construct a class of {m.rel}")
    int_name = returned_class(need_method(m, deco, "get_internal_adapter"))
    internal = m.classes.get(int_name) if int_name else None
    return m, deco, m.classes[ext_name], internal


def _forward_sends(fn: ast.AST) -> list[ast.Call]:
    tick = fn_params(fn)[1] if len(fn_params(fn)) > 1 else None
    out = []
    for c in calls_named(fn, "send_event"):
        if isinstance(c.func, ast.Attribute) and c.args and isinstance(c.args[0], ast.Name) and c.args[0].id == tick:
            out.append(c)
    return out


def _shared_reads(e: ast.AST) -> list[ast.Attribute]:
    """The attribute loads inside `e` (a node of the analysed tree) that evaluate shared runtime state: `<recv>.<attr>`
    whose receiver chain is `self.<runtime>.<attr>` once the straight-line locals it goes through are substituted at the
    place of the load (`runtime = self._runtime` … `runtime._active_run_ids`).  The question is where the object comes
    from, not what it holds, so a local that is also mutated in place is followed too (provenance).  Binding the runtime
    object or the run id to a local (`self._runtime`, `self.run_id`: one attribute deep, fixed for the adapter's life) is
    not a read of shared state; the load of `<runtime>.<attr>` is, wherever it is written."""
    out = []
    for x in ast.walk(e):
        if isinstance(x, ast.Attribute) and isinstance(x.ctx, ast.Load):
            d = dotted(expand(x, x, provenance=True))
            if d and d.startswith("self.") and d.count(".") >= 2 and not d.endswith(("run_id", "_decorated")):
                out.append(x)  # self._runtime.<state>
    return out


def _reads_shared(test: ast.AST) -> bool:
    return bool(_shared_reads(test))


def _shared_check_stmts(fn: ast.AST, ifstmt: ast.If) -> list[ast.AST]:
    """The statements that make up a check of shared liveness state by `ifstmt`: every statement in which shared state
    `self.<runtime>.<attr>` (receiver resolved through locals, see _shared_reads) is loaded and may flow into the test
    — the test itself (`if run_id in runtime._active_run_ids:`, either polarity) and/or right-hand sides of locals the
    test is over (`active = self.run_id in self._runtime._active_run_ids` … `if active:`; dependence slice, any path) —
    *and* the `if`: the read, not only the branch, has to lie inside the critical section."""
    from ..astx import dep_slice

    sl = dep_slice(fn, ifstmt.test)
    reads: list[ast.AST] = []
    found = False
    for e in sl.exprs:
        if not _shared_reads(e):
            continue
        found = True
        s = ifstmt if e is ifstmt.test else enclosing_stmt(e)
        if s is not None and s is not ifstmt and not any(s is r for r in reads):
            reads.append(s)
    return reads + [ifstmt] if found else []


def _check_sources(fn: ast.AST, cfg: CFG, stmt: ast.AST) -> list[ast.AST]:
    """Statements that read shared liveness / lifecycle state and on whose outcome (or effect) the send relies:
    (a) a dominating test over `self.<runtime>.<attr>`; (b) the assignment of an awaited call result that a
    dominating test branches on; (c) an `if` over `self.<runtime>.<attr>` that precedes the send in the same or
    an enclosing block (the send relies on what that branch did: reload / clear the marker)."""
    from ..astx import stmt_list_of

    out: list[ast.AST] = []
    for n in cfg.nodes_of(stmt):
        for t, _lab in cfg.guards(n):
            if t.kind != "test":
                continue
            test = t.ast.test
            if isinstance(t.ast, ast.If):
                out += _shared_check_stmts(fn, t.ast)
            for x in ast.walk(test):
                if isinstance(x, ast.Name) and isinstance(x.ctx, ast.Load):
                    d = reaching_def(x.id, t.ast)
                    if isinstance(d, ast.Await):
                        for s in ast.walk(fn):
                            if isinstance(s, (ast.Assign, ast.AnnAssign)) and getattr(s, "value", None) is d:
                                out.append(s)
    cur: ast.AST | None = stmt
    while cur is not None and not isinstance(cur, FuncNode):
        locn = stmt_list_of(cur)
        if locn is not None:
            lst, i = locn
            for prev in lst[:i]:
                for x in ast.walk(prev):
                    if isinstance(x, ast.If):
                        out += _shared_check_stmts(fn, x)
        cur = parent(cur)
    seen, uniq = set(), []
    for s in out:
        if id(s) not in seen:
            seen.add(id(s))
            uniq.append(s)
    return uniq


def _lock_regions(node: ast.AST) -> list[tuple[ast.AST, tuple[str, str]]]:
    return [(w, la) for w in with_regions(node) for la in [region_lock_attr(w)] if la is not None]


def rule_r3(chk) -> None:
    repo = chk.repo
    matched = 0
    for stack, modname, deco_name, act_names in (
        ("in-process", SRV, "IdleReleaseDecorator", ("_abort_inner_run", "abort")),
        ("dbos", DBI, "DBOSIdleReleaseDecorator", ("send_event",)),
    ):
        m, deco, ext, _internal = _decorator_and_adapter(repo, modname, deco_name)
        send = need_method(m, ext, "send_event")
        locks = lock_attrs_of_class(deco)
        # ---- releaser: decision and act inside one region
        rel = need_method(m, deco, "_release_idle_handler")
        acts = [c for c in ast.walk(rel) if isinstance(c, ast.Call) and last(call_name(c)) in act_names]
        if not acts:
            raise AnchorError(f"C26.R3: `{deco.name}._release_idle_handler` has no release act ({act_names})")
        rcfg = CFG(rel)
        releaser_locks: set[str] = set()
        releaser_has_region = False
        rel_obs = []
        for c in acts:
            matched += 1
            st = enclosing_stmt(c)
            regs = _lock_regions(st)
            releaser_has_region |= bool(regs)
            tests = []
            for n in rcfg.nodes_of(st):
                tests += [t.ast for t, _l in rcfg.guards(n) if t.kind == "test"]
            # awaited decisions that feed the tests (e.g. `handlers = await store.query(…)`) belong to the decision too
            decision = list(tests)
            for t in tests:
                for x in ast.walk(t.test):
                    if isinstance(x, ast.Name) and isinstance(x.ctx, ast.Load):
                        d = reaching_def(x.id, t)
                        if isinstance(d, ast.Await):
                            decision += [s for s in ast.walk(rel) if isinstance(s, (ast.Assign, ast.AnnAssign)) and getattr(s, "value", None) is d]
            inside = [la[0] for w, la in regs if all(any(x is t for x in ast.walk(w)) for t in decision)]
            releaser_locks |= set(inside)
            rel_obs.append((c, st, regs, inside))
        # ---- sender
        cfg = CFG(send)
        fwd = _forward_sends(send)
        if not fwd:
            raise AnchorError(f"C26.R3: `{ext.name}.send_event` has no forwarding `<inner>.send_event(<tick>)` call")
        sender_has_region = False
        for c in fwd:
            matched += 1
            st = enclosing_stmt(c)
            checks = _check_sources(send, cfg, st)
            all_regions = [la[0] for _w, la in _lock_regions(st)]
            shared = [la[0] for w, la in _lock_regions(st) if checks and all(any(x is s for x in ast.walk(w)) for s in checks)]
            sender_has_region |= bool(shared)
            common = [a for a in shared if a in releaser_locks]
            # a critical section provided by the lifecycle lock object itself (e.g. `async with lifecycle.<hold>(run_id) as state:`)
            # is accepted: the releaser's CAS goes through the same object; its implementation is then R4's business
            by_lifecycle = []
            for w in with_regions(st):
                for item in w.items:
                    ce = strip_await(item.context_expr)
                    if isinstance(ce, ast.Call) and isinstance(ce.func, ast.Attribute) and isinstance(ce.func.value, ast.Name):
                        d = strip_await(reaching_def(ce.func.value.id, w))
                        if isinstance(d, ast.Call) and "lifecycle" in (call_name(d) or ""):
                            by_lifecycle.append(ce.func.attr)
            chk_txt = "; ".join(" ".join(ast.unparse(s).split())[:70] for s in checks[:2])
            if by_lifecycle:
                ok, reason = True, ""
                chk.observe(f"C26.R3: [{stack}] the sender's critical section is provided by the lifecycle object (`{by_lifecycle[0]}`); its mutual exclusion with begin_release is trusted, not analysed")
            elif not checks and any(a in releaser_locks for a in all_regions):
                raise AnchorError(f"C26.R3: `{ext.name}.send_event` sends inside the releaser's lock region but the rule cannot identify the liveness check it relies on")
            elif not checks:
                ok, reason = False, "the forwarding send is neither guarded by a liveness / lifecycle check nor inside the releaser's critical section"
            elif common:
                unknown = [a for a in common if a not in locks]
                if unknown:
                    raise AnchorError(f"C26.R3: sender and releaser of {deco.name} share a region on `{unknown[0]}`, which is not a lock object created in {deco.name}.__init__ ({sorted(locks)})")
                ok, reason = True, ""
            elif shared:
                ok, reason = False, f"the sender's critical section is on `{shared[0]}`, the releaser's on {sorted(releaser_locks) or 'none'}: not the same lock"
            else:
                ok, reason = False, (f"check `{chk_txt}` and the send it guards are not inside one critical section shared with the releaser: "
                                     "a release that begins between them is not seen, the tick goes to a run that is completing and is purged on resume")
            chk.ob("C26.R3", f"[{stack}] liveness check and forwarding send lie in one critical section that the releaser also takes", ok,
                   m=m, node=c, fn=send, instance="check-then-send", reason=reason,
                   path=([f"sender: {' '.join(ast.unparse(s).split())[:90]}" for s in checks[:2]] + [f"sender: {' '.join(ast.unparse(st).split())[:90]}"]
                         + [f"releaser: {' '.join(ast.unparse(enclosing_stmt(a)).split())[:90]}" for a in acts[:2]]) if not ok else None)
        for c, st, regs, inside in rel_obs:
            if not sender_has_region and not releaser_has_region:
                continue  # no critical section on either side: reported once, at the sender
            ok = bool(inside)
            chk.ob("C26.R3", f"[{stack}] release decision and act lie in one critical section", ok, m=m, node=c, fn=rel,
                   instance=f"release-act:{last(call_name(c))}",
                   reason=f"the release decision (tests / awaited reads) and `{ast.unparse(c.func)}` are not all inside one `async with <lock>(run_id)` region")
    chk.floor("C26.R3", "forwarding sends + release acts examined", matched, 4)


# ======================================================================================= R4


def _sqls_by_verb(fn: ast.AST) -> dict[str, list[Sql]]:
    out: dict[str, list[Sql]] = {}
    for s in sql_statements(fn):
        out.setdefault(s.verb, []).append(s)
    return out


def _result_depends_on(fn: ast.AST, call: ast.Call) -> bool:
    """Some return value of fn is computed from the result of `call` (directly or through the local it is assigned to)."""
    st = enclosing_stmt(call)
    names = set()
    if isinstance(st, (ast.Assign, ast.AnnAssign)):
        tgt = st.targets[0] if isinstance(st, ast.Assign) else st.target
        if isinstance(tgt, ast.Name):
            names.add(tgt.id)
    def mentions(e: ast.AST) -> bool:
        return any(x is call or (isinstance(x, ast.Name) and x.id in names) for x in ast.walk(e))

    for _ in range(3):  # locals derived from the result
        for a in walk_shallow(fn):
            if isinstance(a, ast.Assign) and len(a.targets) == 1 and isinstance(a.targets[0], ast.Name) and mentions(a.value):
                names.add(a.targets[0].id)
    for r in walk_shallow(fn):
        if isinstance(r, ast.Return) and r.value is not None and mentions(r.value):
            return True
        if isinstance(r, (ast.If, ast.While)) and mentions(r.test) and any(isinstance(x, ast.Return) for x in ast.walk(r)):
            return True
    return False


def rule_r4(chk) -> None:
    repo = chk.repo
    m0, base, impls, ename, members = lifecycle_impls(repo)
    chk.floor("C26.R4", "RunLifecycleLock implementations", len(impls), 2)
    EXPECT = {"begin_release": ("active", "releasing"), "complete_release": ("releasing", "released")}
    updates = 0
    for ref, m, cls in impls:
        runid = None
        # ---- conditional single-statement transitions
        for meth, (expected, target) in EXPECT.items():
            fn = need_method(m, cls, meth)
            runid = fn_params(fn)[1] if len(fn_params(fn)) > 1 else "run_id"
            ups = _sqls_by_verb(fn).get("UPDATE", [])
            if not ups:
                raise AnchorError(f"C26.R4: `{cls.name}.{meth}` contains no UPDATE statement the SQL reader recognises")
            for s in ups:
                updates += 1
                sets, where = s.assignments()
                w_state = state_member(where.get("state"), ename, members, s.call) if "state" in where else None
                s_state = state_member(sets.get("state"), ename, members, s.call) if "state" in sets else None
                rid = where.get("run_id")
                ok_rid = isinstance(rid, ast.Name) and rid.id == runid
                ok = w_state == expected and s_state == target and ok_rid
                shown = where.get("state")
                shown = ast.unparse(shown) if isinstance(shown, ast.AST) else shown
                if "state" not in where:
                    reason = f"UPDATE has no `AND state = <expected>` conjunct: the transition to `{target}` is unconditional"
                elif w_state != expected:
                    reason = f"expected state in WHERE is `{w_state or shown}`, the state machine requires `{expected}`"
                elif s_state != target:
                    reason = f"SET state is `{s_state}`, the state machine requires `{target}`"
                else:
                    reason = f"WHERE run_id is not bound to the `{runid}` parameter"
                chk.ob("C26.R4", f"{cls.name}.{meth}: UPDATE … WHERE run_id = <run_id> AND state = '{expected}' SET state = '{target}'", ok,
                       m=m, node=s.call, fn=fn, instance=f"cas:{meth}", reason=reason)
            if meth == "begin_release":
                dep = any(_result_depends_on(fn, s.call) for s in ups)
                chk.ob("C26.R4", f"{cls.name}.begin_release returns whether *its* UPDATE changed a row", dep, m=m, node=fn, fn=fn,
                       instance="cas:begin_release:result", reason="no return value is derived from the UPDATE's result (row / rowcount): every caller is told it owns the release")
        # ---- try_begin_resume: read-modify-write
        fn = need_method(m, cls, "try_begin_resume")
        by = _sqls_by_verb(fn)
        sel, ups = by.get("SELECT", []), by.get("UPDATE", [])
        if len(sel) != 1 or not ups:
            raise AnchorError(f"C26.R4: `{cls.name}.try_begin_resume` is not a SELECT followed by UPDATE(s) ({len(sel)} SELECT, {len(ups)} UPDATE)")
        sel_st = enclosing_stmt(sel[0].call)
        cfg = CFG(fn)
        cls_locks = lock_attrs_of_class(cls)
        # liveness half of the guard, over *all* claiming UPDATEs: when the two claiming cases (`released`; timed-out
        # `releasing`) are written as separate branches, each with its own UPDATE, a `released` row has to reach at
        # least one of them; the safety half (never from `active`, from `releasing` only after the timeout) stays an
        # obligation of every single UPDATE
        released_claimable: bool | None = None
        for s in ups:
            updates += 1
            up_st = enclosing_stmt(s.call)
            sets, where = s.assignments()
            s_state = state_member(sets.get("state"), ename, members, s.call) if "state" in sets else None
            chk.ob("C26.R4", f"{cls.name}.try_begin_resume: the claiming UPDATE sets state = 'active' for this run id", s_state == "active" and isinstance(where.get("run_id"), ast.Name),
                   m=m, node=s.call, fn=fn, instance="resume:update", reason=f"SET state is `{s_state}` / WHERE run_id = `{where.get('run_id')}`")
            # one atomic region
            regs_up = with_regions(up_st)
            common = [w for w in regs_up if any(x is sel_st for x in ast.walk(w))]
            txn = [w for w in common if any(isinstance(i.context_expr, ast.Call) and last(call_name(i.context_expr)) == "transaction" for i in w.items)]
            keyed = [w for w in common if (region_lock_attr(w) or ("", ""))[0] in cls_locks]
            if txn:
                ok = sel[0].has_seq("FOR", "UPDATE")
                reason = "" if ok else "SELECT and UPDATE share a transaction but the SELECT takes no row lock (`FOR UPDATE`): two resumers can both read `released`"
            elif keyed:
                susp = suspension_between(fn, sel_st, up_st)
                ok = not susp
                reason = "" if ok else f"suspension point at line {susp[0].lineno} between the read and the write inside the lock region"
            else:
                ok, reason = False, "the SELECT and the UPDATE are not inside one transaction or one keyed-lock region: two resumers can both claim the run"
            chk.ob("C26.R4", f"{cls.name}.try_begin_resume reads and writes the row in one atomic region", ok, m=m, node=s.call, fn=fn,
                   instance="resume:atomic", reason=reason)
            # case analysis on the row's state: never claimed when active, claimed when released, and from `releasing` only
            # when a crash timeout is set and has elapsed
            from ..astx import facts_given
            subj = None
            for x in ast.walk(fn):
                if isinstance(x, ast.Assign) and len(x.targets) == 1 and isinstance(x.targets[0], ast.Name) and isinstance(x.value, ast.Call) and last(call_name(x.value)) == ename:
                    subj = x.targets[0].id
            if subj is None:
                raise AnchorError(f"C26.R4: `{cls.name}.try_begin_resume` does not decode the row's state into a {ename}")
            domain = [f"{ename}.{k}" for k in members]
            tmo = fn.args.args[2].arg if len(fn.args.args) > 2 else None
            if tmo is None:
                raise AnchorError(f"C26.R4: `{cls.name}.try_begin_resume` has no crash-timeout parameter")
            if released_claimable is None:
                released_claimable = any(facts_given(cfg, n2, subj, f"{ename}.released", domain, mod=m)[0]
                                         for s2 in ups for n2 in cfg.nodes_of(enclosing_stmt(s2.call)))
            guarded, why = True, ""
            for n in cfg.nodes_of(up_st):
                for k in members:
                    if k == "released":
                        if not released_claimable:
                            guarded, why = False, "a `released` run can never be claimed (the resume would wait forever)"
                        continue
                    reach_k, facts_k = facts_given(cfg, n, subj, f"{ename}.{k}", domain, mod=m)
                    if k == "releasing":
                        if reach_k:
                            set_ = (f"{tmo} is None", False) in facts_k or (f"None is {tmo}", False) in facts_k
                            elapsed = any((a_.startswith(f"{tmo} < ") and pol) or (a_.endswith(f" < {tmo}") and not pol) for a_, pol in facts_k)
                            if not (set_ and elapsed):
                                guarded, why = False, f"a run that is still `releasing` is claimed without the crash timeout being set and elapsed (facts on that path: {sorted(facts_k)[:6]})"
                    elif reach_k:
                        guarded, why = False, f"the claiming UPDATE is reachable when the row's state is `{k}`"
            chk.ob("C26.R4", f"{cls.name}.try_begin_resume claims only from `released` (or a timed-out `releasing`)", guarded, m=m, node=s.call, fn=fn,
                   instance="resume:guard", reason=why or "the claiming UPDATE is not dominated by a test on RunLifecycleState.released")
        # ownership: `released` returned only through the UPDATE; nothing else returned after it
        up_nodes = [n for s in ups for n in cfg.nodes_of(enclosing_stmt(s.call))]
        rets_owner, rets_other = [], []
        for r in walk_shallow(fn):
            if isinstance(r, ast.Return):
                mem = state_member(r.value, ename, members, r) if r.value is not None else None
                (rets_owner if mem == "released" else rets_other).append(r)
        if not rets_owner:
            raise AnchorError(f"C26.R4: `{cls.name}.try_begin_resume` never returns RunLifecycleState.released")
        for r in rets_owner:
            off = cfg.must_pass([cfg.entry], cfg.nodes_of(r), up_nodes)
            chk.ob("C26.R4", f"{cls.name}.try_begin_resume returns `released` (ownership) only after its own UPDATE ran", not off, m=m, node=r, fn=fn,
                   instance="resume:owner", reason="a path reaches `return released` without executing the claiming UPDATE: a second resumer is told it owns the run")
        leak = []
        for r in rets_other:
            if any(n in cfg.reach(up_nodes, include_starts=False, labels_excluded=("exc", "cancel")) for n in cfg.nodes_of(r)):
                leak.append(r)
        chk.ob("C26.R4", f"{cls.name}.try_begin_resume: after the claiming UPDATE the caller is always told `released`", not leak, m=m,
               node=leak[0] if leak else fn, fn=fn, instance="resume:owner-told",
               reason="a non-`released` return is reachable after the UPDATE: the row is active but nobody resumes the run; the pending event is sent to a finished workflow")
        # ---- process-local implementations: every statement under the keyed lock
        if cls_locks:
            for meth in abstract_methods(base):
                f = method(cls, meth)
                if f is None:
                    continue
                for s in sql_statements(f):
                    regs = [w for w in with_regions(s.call) if (region_lock_attr(w) or ("", ""))[0] in cls_locks]
                    key_ok = any(runid is None or (region_lock_attr(w) or ("", ""))[1] == fn_params(f)[1] for w in regs) if len(fn_params(f)) > 1 else bool(regs)
                    chk.ob("C26.R4", f"{cls.name}.{meth}: SQL runs under the keyed lock of the run id", bool(regs) and key_ok, m=m, node=s.call, fn=f,
                           instance=f"locked:{meth}:{s.verb.lower()}", reason="statement outside `async with self.<lock>(run_id)` while try_begin_resume relies on that lock for its read-modify-write")
    chk.floor("C26.R4", "lifecycle UPDATE statements", updates, 6)


# ======================================================================================= R2 / R5 (stretch)

_PER_TICK_HOOKS = ("on_tick", "after_tick", "wait_for_next_task", "wait_receive")


def rule_r2(chk) -> None:
    repo = chk.repo
    m, deco, _ext, internal = _decorator_and_adapter(repo, SRV, "IdleReleaseDecorator")
    if internal is None:
        raise AnchorError("C26.R2: IdleReleaseDecorator.get_internal_adapter does not construct a class of its module")
    rel = need_method(m, deco, "_release_idle_handler")
    aborts = [c for c in ast.walk(rel) if isinstance(c, ast.Call) and last(call_name(c)) in ("_abort_inner_run", "abort")]
    if not aborts:
        raise AnchorError("C26.R2: _release_idle_handler has no abort act")
    # marker = the handler field the release decision tests for None
    cfg = CFG(rel)
    markers = set()
    for c in aborts:
        for n in cfg.nodes_of(enclosing_stmt(c)):
            for t, _l in cfg.guards(n):
                if t.kind == "test":
                    # the tested value may be held in a straight-line local (`idle_since = handlers[0].idle_since` … `if idle_since is None`)
                    for x in ast.walk(expand(t.ast.test, t.ast)):
                        if isinstance(x, ast.Compare) and isinstance(x.left, ast.Attribute) and any(isinstance(o, (ast.Is, ast.IsNot)) for o in x.ops):
                            markers.add(x.left.attr)
    if len(markers) != 1:
        raise AnchorError(f"C26.R2: cannot bind the idle marker tested by _release_idle_handler ({sorted(markers)})")
    marker = markers.pop()
    # (a) a per-tick hook of the internal adapter refreshes the marker or the timer
    refreshing = []
    for h in _PER_TICK_HOOKS:
        f = method(internal, h)
        if f is None:
            continue
        touches = any(isinstance(k, ast.keyword) and k.arg == marker for k in ast.walk(f)) or any(
            isinstance(c, ast.Call) and (last(call_name(c)) or "").startswith(("_cancel", "_reschedule", "_schedule")) for c in ast.walk(f))
        if touches:
            refreshing.append(h)
    # (b) the release decision reads live run state through the inner runtime / adapter
    live = False
    for c in aborts:
        for n in cfg.nodes_of(enclosing_stmt(c)):
            for t, _l in cfg.guards(n):
                if t.kind == "test":
                    tst = expand(t.ast.test, t.ast)
                    for x in ast.walk(tst):
                        d = dotted(x) if isinstance(x, ast.Attribute) else None
                        if d and (d.endswith(".is_running") or "._decorated" in d or d.endswith(".state") or "in_progress" in d):
                            live = True
                        if isinstance(x, ast.Call) and last(call_name(x)) in ("is_running", "get_result_or_none", "_check_idle_state", "is_idle"):
                            live = True
    ok = bool(refreshing) or live
    setters = sorted({qualname_of(enclosing_function(k)) for mod in [m] for k in ast.walk(mod.tree)
                      if isinstance(k, ast.keyword) and k.arg == marker and enclosing_function(k) is not None})
    chk.ob("C26.R2", f"in-process release re-verifies idleness from a source the run keeps current (marker `{marker}`)", ok, m=m, node=aborts[0], fn=rel,
           instance="release-reverify",
           reason=(f"`{marker}` is written only by {setters}; no per-tick hook ({', '.join(_PER_TICK_HOOKS)}) of {internal.name} refreshes it and the release "
                   "decision reads no live run state: a run woken by its own timer (waiter timeout, delayed retry) after it announced idle is aborted while a step runs"),
           path=[f"{internal.name}.write_to_event_stream(WorkflowIdleEvent) sets {marker}", "runner pops a due timer tick -> step starts (no external send, marker unchanged)",
                 f"_deferred_release -> _release_idle_handler: {marker} set and old enough -> abort()"] if not ok else None)


def rule_r5(chk) -> None:
    repo = chk.repo
    m, deco, _ext, _int = _decorator_and_adapter(repo, SRV, "IdleReleaseDecorator")
    locks = lock_attrs_of_class(deco)
    ens = need_method(m, deco, "_ensure_active_run_locked")
    runid = fn_params(ens)[1]
    runs = [c for c in ast.walk(ens) if isinstance(c, ast.Call) and isinstance(c.func, ast.Attribute) and c.func.attr == "run" and kwarg(c, "run_id") is not None]
    chk.floor("C26.R5", "workflow.run(run_id=…) in the reload path", len(runs), 1)
    cfg = CFG(ens)
    active_attr = None
    for c in runs:
        ok = False
        for n in cfg.nodes_of(enclosing_stmt(c)):
            for text, pol in facts_at(cfg, n):
                mt = re.match(rf"^{re.escape(runid)} in self\.(\w+)$", text)
                if mt and pol is False:
                    ok, active_attr = True, mt.group(1)
        chk.ob("C26.R5", "reload starts a control loop only when the run id is not in the active set (re-checked inside the locked function)", ok,
               m=m, node=c, fn=ens, instance="reload:recheck", reason=f"`workflow.run(run_id=…)` is not dominated by `{runid} not in self.<active set>`")
        if ok:
            adds = [a for a in ast.walk(ens) if isinstance(a, ast.Call) and isinstance(a.func, ast.Attribute) and a.func.attr == "add" and dotted(a.func.value) == f"self.{active_attr}"]
            good = bool(adds) and all(not suspension_between(ens, enclosing_stmt(c), enclosing_stmt(a)) for a in adds)
            chk.ob("C26.R5", "the run id is recorded as active with no suspension after the control loop was started", good, m=m, node=c, fn=ens,
                   instance="reload:mark-active", reason="no `.add(run_id)` on the active set directly after workflow.run, or an await in between (a second reload can start another loop)")
    callers = [c for c in ast.walk(m.tree) if isinstance(c, ast.Call) and last(call_name(c)) == "_ensure_active_run_locked"]
    chk.floor("C26.R5", "callers of _ensure_active_run_locked", len(callers), 2)
    for c in callers:
        fn = enclosing_function(c)
        ok = any((region_lock_attr(w) or ("", ""))[0] in locks for w in with_regions(c))
        chk.ob("C26.R5", "_ensure_active_run_locked is called with the reload lock held", ok, m=m, node=c, fn=fn,
               instance=f"reload:caller:{qualname_of(fn).split('.')[-1]}", reason="call site is not inside `async with <runtime>._reload_lock(run_id)`")
    # basic runtime refuses a known run id
    mb, rw = repo.func(f"{BASIC}:BasicRuntime.run_workflow")
    rid = fn_params(rw)[1]
    tasks = [c for c in ast.walk(rw) if isinstance(c, ast.Call) and last(call_name(c)) in ("create_task", "ensure_future")]
    chk.floor("C26.R5", "task creations in BasicRuntime.run_workflow", len(tasks), 1)
    bcfg = CFG(rw)
    for c in tasks:
        ok = False
        for n in bcfg.nodes_of(enclosing_stmt(c)):
            for text, pol in facts_at(bcfg, n):
                if re.match(rf"^{re.escape(rid)} in self\.\w+$", text) and pol is False:
                    ok = True
        chk.ob("C26.R5", "BasicRuntime.run_workflow creates the control-loop task only for a run id it does not already hold", ok, m=mb, node=c, fn=rw,
               instance="basic:refuse-existing", reason="task creation is not dominated by `run_id not in self.<runs>` (early raise)")
    # DBOS resume
    md, dd, dext, _ = _decorator_and_adapter(repo, DBI, "DBOSIdleReleaseDecorator")
    res = need_method(md, dd, "_do_resume")
    rcfg = CFG(res)
    starts = [c for c in ast.walk(res) if isinstance(c, ast.Call) and last(call_name(c)) == "run_workflow"]
    chk.floor("C26.R5", "run_workflow in _do_resume", len(starts), 1)
    waits = []
    for c in ast.walk(res):
        if isinstance(c, ast.Call) and last(call_name(c)) == "get_result" and isinstance(c.func, ast.Attribute) and isinstance(c.func.value, ast.Name):
            d = strip_await(reaching_def(c.func.value.id, c))
            if isinstance(d, ast.Call) and "retrieve_workflow" in (call_name(d) or ""):
                waits.append(c)
    wait_nodes = [n for w in waits for n in rcfg.nodes_of(enclosing_stmt(w))]
    for c in starts:
        off = rcfg.must_pass([rcfg.entry], rcfg.nodes_of(enclosing_stmt(c)), wait_nodes, labels_excluded=("exc", "cancel")) if wait_nodes else [1]
        if not off and rcfg.must_pass([rcfg.entry], rcfg.nodes_of(enclosing_stmt(c)), wait_nodes):
            chk.observe("C26.R5: when retrieving / awaiting the old DBOS workflow raises, _do_resume logs and restarts the run anyway (exception path not "
                        "claimed: whether an old control loop can still be alive then depends on DBOS failure semantics)")
        chk.ob("C26.R5", "_do_resume awaits the old DBOS workflow's result before starting the run again", not off, m=md, node=c, fn=res,
               instance="resume:await-old", reason="a path reaches run_workflow without `await <retrieve_workflow_async(run_id)>.get_result()`: two control loops for one run id")
        a0 = c.args[0] if c.args else kwarg(c, "run_id")
        chk.ob("C26.R5", "_do_resume restarts with the same run id", isinstance(a0, ast.Name) and a0.id == fn_params(res)[1], m=md, node=c, fn=res,
               instance="resume:same-id", reason="run_workflow is not given the run id being resumed")
    send = need_method(md, dext, "send_event")
    scfg = CFG(send)
    rcalls = [c for c in ast.walk(send) if isinstance(c, ast.Call) and last(call_name(c)) == "_do_resume"]
    chk.floor("C26.R5", "_do_resume call sites in the DBOS sender", len(rcalls), 1)
    for c in rcalls:
        ok = False
        for n in scfg.nodes_of(enclosing_stmt(c)):
            for t, lab in scfg.guards(n):
                if t.kind == "test":
                    for text, pol in atoms(expand(t.ast.test, t.ast), lab == "T"):
                        if pol and "RunLifecycleState.released" in text and "==" in text:
                            ok = True
        chk.ob("C26.R5", "only the owner of the `released`→`active` transition resumes", ok, m=md, node=c, fn=send, instance="resume:owner-only",
               reason="_do_resume is not dominated by `result == RunLifecycleState.released`")


def rule_r6(chk) -> None:
    """Conditional companion of R1: once the reducer may *reject* TickIdleRelease (a path of the branch without the exit
    command), the DBOS releaser — which has already moved the row to `releasing` and waits for the run's result — needs a
    way back to `active`; otherwise the row stays `releasing`, later releases fail their CAS, and senders poll, force-claim
    after the crash timeout and then wait for a workflow that is alive."""
    repo = chk.repo
    m, rt = repo.func(f"{CL}:_reduce_tick")
    cfg = CFG(rt)
    branch_tests = [n for n in cfg.nodes if n.kind == "test" and "TickIdleRelease" in ast.unparse(n.ast.test) and "isinstance" in ast.unparse(n.ast.test)]
    if not branch_tests:
        raise AnchorError("C26.R6: _reduce_tick has no isinstance(tick, TickIdleRelease) branch")
    exits = [n for n in cfg.nodes if n.ast is not None and n.kind == "stmt" and any(isinstance(c, ast.Call) and last(call_name(c)) in ("IdleReleasedEvent",) for c in ast.walk(n.ast))]
    helper_calls = []
    if not exits:
        # helper one call deep: the branch calls a function that builds the exit command
        for n in cfg.nodes:
            if n.ast is not None and n.kind == "stmt":
                for c in ast.walk(n.ast):
                    if isinstance(c, ast.Call) and isinstance(c.func, ast.Name) and c.func.id in m.functions and any(
                            isinstance(x, ast.Call) and last(call_name(x)) == "IdleReleasedEvent" for x in ast.walk(m.functions[c.func.id])):
                        helper_calls.append((n, m.functions[c.func.id]))
    rejects = False
    for t in branch_tests:
        starts = [d for lab, d in cfg.succ[t] if lab == "T"]
        r = cfg.reach(starts, blocked=exits + [n for n, _f in helper_calls], labels_excluded=("exc", "cancel"))
        if cfg.exit in r:
            rejects = True
    for _n, hf in helper_calls:
        hcfg = CFG(hf)
        hex_ = [n for n in hcfg.nodes if n.ast is not None and n.kind == "stmt" and any(isinstance(c, ast.Call) and last(call_name(c)) == "IdleReleasedEvent" for c in ast.walk(n.ast))]
        if hcfg.exit in hcfg.reach([hcfg.entry], blocked=hex_, labels_excluded=("exc", "cancel")):
            rejects = True
    if not rejects:
        chk.ob("C26.R6", "the reducer never rejects TickIdleRelease, so a begun release always completes (nothing to compensate)", True, m=m, node=branch_tests[0].ast, fn=rt,
               instance="rejected-release-compensated")
        return
    _m0, base, impls, ename, members = lifecycle_impls(repo)
    reverts = set()
    for _ref, mm, cls in impls:
        for n in cls.body:
            if isinstance(n, FuncNode) and n.name not in ("try_begin_resume", "create", "__init__"):
                for sq in sql_statements(n):
                    if sq.verb == "UPDATE":
                        sets, where = sq.assignments()
                        if state_member(sets.get("state"), ename, members, sq.call) == "active" and state_member(where.get("state"), ename, members, sq.call) == "releasing":
                            reverts.add(n.name)
    md, deco = repo.cls(f"{DBI}:DBOSIdleReleaseDecorator")
    called = {c.func.attr for c in ast.walk(md.tree) if isinstance(c, ast.Call) and isinstance(c.func, ast.Attribute) and c.func.attr in reverts}
    rel = need_method(md, deco, "_release_idle_handler")
    chk.ob("C26.R6", "a release that the reducer rejects is compensated (lifecycle row moved back from `releasing` to `active`)", bool(called), m=md, node=rel, fn=rel,
           instance="rejected-release-compensated",
           reason=("the TickIdleRelease branch can now return without the exit command, but " +
                   (f"the revert transition(s) {sorted(reverts)} are never called from {DBI}" if reverts else "no RunLifecycleLock method moves a row from `releasing` back to `active`") +
                   ": after a rejected release the row stays `releasing` (later begin_release CAS fails; senders poll, force-claim after the crash timeout and _do_resume then awaits a workflow that is alive)"),
           path=["begin_release: active -> releasing", "send TickIdleRelease -> reducer: not idle -> ignored", "_await_and_mark_released blocked in external.get_result()",
                 "sender: try_begin_resume -> releasing … (crash timeout) -> forced `released` -> _do_resume awaits the live workflow"] if not called else None)


# ======================================================================================= R7


_DETACH = ("create_task", "ensure_future", "shield")


def _tail_attr(e: ast.AST | None) -> str | None:
    """`self.<attr>` / `self.<x>.<attr>` -> attr (the object that owns the registry may be reached through the adapter)."""
    if isinstance(e, ast.Attribute) and (dotted(e) or "").startswith("self."):
        return e.attr
    return None


def _registry_lookup(e: ast.AST | None) -> tuple[str, ast.AST | None] | None:
    """(registry attribute, key) for `<self…>.<attr>.pop(k, …)` / `.get(k, …)` / `<self…>.<attr>[k]`."""
    e = strip_await(e)
    if isinstance(e, ast.Call) and isinstance(e.func, ast.Attribute) and e.func.attr in ("pop", "get") and e.args:
        a = _tail_attr(e.func.value)
        return (a, e.args[0]) if a else None
    if isinstance(e, ast.Subscript):
        a = _tail_attr(e.value)
        return (a, e.slice) if a else None
    return None


def _dict_attrs_of_init(cls: ast.ClassDef) -> set[str]:
    out = set()
    init = method(cls, "__init__")
    for s in ast.walk(init) if init is not None else ():
        if isinstance(s, (ast.Assign, ast.AnnAssign)) and s.value is not None:
            tgt = s.targets[0] if isinstance(s, ast.Assign) else s.target
            v = s.value
            if isinstance(tgt, ast.Attribute) and isinstance(tgt.value, ast.Name) and tgt.value.id == "self" and (
                    isinstance(v, ast.Dict) or (isinstance(v, ast.Call) and last(call_name(v)) in ("dict", "defaultdict", "WeakValueDictionary"))):
                out.add(tgt.attr)
    return out


def attr_names_of_init(cls: ast.ClassDef) -> set[str]:
    init = method(cls, "__init__")
    return {t.attr for s in (ast.walk(init) if init is not None else ()) if isinstance(s, (ast.Assign, ast.AnnAssign))
            for t in (s.targets if isinstance(s, ast.Assign) else [s.target]) if isinstance(t, ast.Attribute) and isinstance(t.value, ast.Name) and t.value.id == "self"}


class TimerRegistry:
    """Role binding and path analysis for C26.R7 on one decorator class (used on the repo class and on the planted fixture).

    registry   = a dict attribute of the class whose looked-up values receive `.cancel()` somewhere in the module
    timers     = the coroutine methods whose task is stored in that dict (`self.<reg>[k] = <spawn>(self.<T>(k))`)
    CAS        = calls of a lifecycle transition that moves the row to `releasing` (names given by the caller)
    """

    def __init__(self, tree: ast.AST, cls: ast.ClassDef, cas_names: set[str]):
        self.tree, self.cls, self.cas_names = tree, cls, set(cas_names)
        self.methods = {n.name: n for n in cls.body if isinstance(n, FuncNode)}
        self.detachers = set(_DETACH)
        for name, fn in self.methods.items():
            ps = fn_params(fn)[1:]
            for c in walk_shallow(fn):
                if isinstance(c, ast.Call) and last(call_name(c)) in ("create_task", "ensure_future") and c.args and isinstance(c.args[0], ast.Name) and c.args[0].id in ps:
                    self.detachers.add(name)
        dicts = _dict_attrs_of_init(cls)
        self.cancel_sites: dict[str, list[tuple[ast.AST, ast.Call]]] = {}
        for fn in (n for n in ast.walk(tree) if isinstance(n, FuncNode)):
            for c in walk_shallow(fn):
                if isinstance(c, ast.Call) and isinstance(c.func, ast.Attribute) and c.func.attr == "cancel" and not c.args:
                    recv = c.func.value
                    look = _registry_lookup(reaching_def(recv.id, c)) if isinstance(recv, ast.Name) else _registry_lookup(recv)
                    if look is not None and look[0] in dicts:
                        self.cancel_sites.setdefault(look[0], []).append((fn, c))
        self.timers: dict[str, list[tuple[str, ast.AST]]] = {}  # reg -> [(timer method name, store stmt)]
        for reg in self.cancel_sites:
            for fn in self.methods.values():
                for s in walk_shallow(fn):
                    if isinstance(s, ast.Assign) and len(s.targets) == 1 and isinstance(s.targets[0], ast.Subscript) and _tail_attr(s.targets[0].value) == reg:
                        v = expand(s.value, s)
                        found = [a.func.attr for c in ast.walk(v) if isinstance(c, ast.Call) and last(call_name(c)) in self.detachers
                                 for a in c.args if isinstance(a, ast.Call) and isinstance(a.func, ast.Attribute) and _tail_attr(a.func) in self.methods]
                        if not found:
                            raise AnchorError(f"C26.R7: `{ast.unparse(s)[:80]}` stores something in the timer registry `{reg}` that the rule cannot trace to a coroutine method of {cls.name}")
                        self.timers.setdefault(reg, []).extend((t, s) for t in found)

    # ---- per-function facts
    def removals(self, cfg: CFG, fn: ast.AST, reg: str) -> tuple[list, list]:
        """(CFG nodes that remove the task's own key from the registry, branch edges on which the key is known absent)."""
        ps = set(fn_params(fn))
        nodes, edges = [], []
        for n in cfg.nodes:
            if n.ast is None:
                continue
            if n.kind == "stmt" and isinstance(n.ast, ast.Delete):
                for t in n.ast.targets:
                    look = _registry_lookup(t)
                    if look and look[0] == reg and isinstance(look[1], ast.Name) and look[1].id in ps:
                        nodes.append(n)
                continue
            for x in _exprs(n):
                if isinstance(x, ast.Call) and isinstance(x.func, ast.Attribute) and x.func.attr == "pop":
                    look = _registry_lookup(x)
                    if look and look[0] == reg and isinstance(look[1], ast.Name) and look[1].id in ps:
                        nodes.append(n)
            if n.kind == "test":
                t, neg = n.ast.test, False
                while isinstance(t, ast.UnaryOp) and isinstance(t.op, ast.Not):
                    t, neg = t.operand, not neg
                if isinstance(t, ast.Compare) and len(t.ops) == 1 and isinstance(t.ops[0], (ast.In, ast.NotIn)) and _tail_attr(t.comparators[0]) == reg \
                        and isinstance(t.left, ast.Name) and t.left.id in ps:
                    absent_when_true = isinstance(t.ops[0], ast.NotIn) != neg
                    edges.append((n, "T" if absent_when_true else "F"))
        return nodes, edges

    def _self_calls(self, n) -> list[tuple[ast.Call, ast.AST]]:
        return [(x, self.methods[x.func.attr]) for x in _exprs(n)
                if isinstance(x, ast.Call) and isinstance(x.func, ast.Attribute) and isinstance(x.func.value, ast.Name) and x.func.value.id == "self" and x.func.attr in self.methods]

    def has_cas(self, fn: ast.AST, seen: frozenset = frozenset()) -> bool:
        if fn.name in seen:
            return False
        for x in walk_shallow(fn):
            if isinstance(x, ast.Call) and isinstance(x.func, ast.Attribute):
                if x.func.attr in self.cas_names:
                    return True
                if isinstance(x.func.value, ast.Name) and x.func.value.id == "self" and x.func.attr in self.methods \
                        and self.has_cas(self.methods[x.func.attr], seen | {fn.name}):
                    return True
        return False

    def _in_task(self, call: ast.Call, callee: ast.AST) -> bool:
        """Does the coroutine `self.<callee>(…)` run inside the calling task?  awaited directly -> yes; handed to
        create_task / ensure_future / shield / a spawner method of the class -> no (its own, unregistered task)."""
        p = parent(call)
        if isinstance(p, ast.Await):
            return True
        if isinstance(p, ast.Call) and call in p.args and last(call_name(p)) in self.detachers:
            return False
        raise AnchorError(f"C26.R7: cannot tell in which task `{ast.unparse(call)[:60]}` (it moves the row to `releasing`) runs: neither awaited directly nor handed to a task spawner")

    def analyse(self, fn: ast.AST, reg: str, seen: frozenset = frozenset()) -> dict:
        """Walk the part of `fn` in which the task is still registered.  Returns
        owned: suspension points reached after a CAS while registered [(fn, cfg node, cas text)],
        leaks: the function may return, still registered, after a CAS,
        cas_sites / post_cas: CAS calls and suspension points after them seen at all (floors),
        late: removals that run on a cancellation path [(fn, cfg node, cfg)]."""
        cfg = CFG(fn)
        R, BE = self.removals(cfg, fn, reg)
        res = {"owned": [], "leaks": False, "cas_sites": 0, "post_cas": 0, "late": [], "suspensions": 0}
        live = cfg.reach([cfg.entry], blocked=R, blocked_edges=BE)
        for n in cfg.nodes:
            if n.ast is None or n.tag:
                continue
            cas_txt = [ast.unparse(x.func) for x in _exprs(n) if isinstance(x, ast.Call) and isinstance(x.func, ast.Attribute) and x.func.attr in self.cas_names]
            res["cas_sites"] += len(cas_txt)
            sub_leak = False
            for call, callee in self._self_calls(n):
                if callee.name in seen or callee.name == fn.name or not isinstance(callee, ast.AsyncFunctionDef) or not self.has_cas(callee):
                    continue
                in_task = self._in_task(call, callee)
                sub = self.analyse(callee, reg, seen | {fn.name})
                res["cas_sites"] += sub["cas_sites"]
                res["post_cas"] += sub["post_cas"]
                if not in_task:
                    continue  # the release runs in a task of its own, which the registry does not hold
                res["suspensions"] += sub["suspensions"]
                res["late"] += sub["late"]
                if n in live:
                    res["owned"] += sub["owned"]
                    sub_leak |= sub["leaks"]
                    cas_txt = cas_txt or ([f"{callee.name} → …"] if sub["leaks"] else [])
                elif sub["post_cas"]:
                    cas_txt = cas_txt or [f"{callee.name} → …"]
            if not cas_txt:
                continue
            after_all = cfg.reach([n], labels_excluded=("exc", "cancel"), include_starts=False)
            res["post_cas"] += sum(1 for a in after_all if getattr(a, "_cancel", False))
            if n in live:
                after = cfg.reach([n], blocked=R, blocked_edges=BE, labels_excluded=("exc", "cancel"), include_starts=False)
                for a in after:
                    if getattr(a, "_cancel", False):
                        res["owned"].append((fn, a, cas_txt[0]))
                if cfg.exit in after:
                    res["leaks"] = True
        # removals that execute after the task was cancelled at one of its suspension points
        for s in cfg.nodes:
            if not getattr(s, "_cancel", False) or s.tag:
                continue
            res["suspensions"] += 1
            starts = []
            for lab, t in cfg.succ[s]:
                if lab == "cancel":
                    starts.append(t)
                elif lab == "exc" and not (t.kind == "handler" and not _catches_cancel(t.ast)):
                    starts.append(t)
            for r in cfg.reach(starts):
                if r in R and not any(r is x[1] for x in res["late"]):
                    res["late"].append((fn, r, cfg))
        return res

    def identity_guarded(self, fn: ast.AST, cfg: CFG, node, reg: str) -> bool:
        """The removal is dominated by a test `<registry lookup of the key> is/== <this task>`."""
        mentions = False
        for t, lab in cfg.guards(node):
            if t.kind != "test":
                continue
            for x in ast.walk(t.ast.test):
                if isinstance(x, ast.Compare) and len(x.ops) == 1 and isinstance(x.ops[0], (ast.Is, ast.Eq)) and lab == "T":
                    sides = [x.left, x.comparators[0]]
                    for a, b in (sides, sides[::-1]):
                        la = _registry_lookup(expand(a, t.ast))
                        eb = strip_await(expand(b, t.ast))
                        if la and la[0] == reg and isinstance(eb, ast.Call) and last(call_name(eb)) == "current_task":
                            return True
            mentions |= any(_tail_attr(x) == reg for x in ast.walk(t.ast.test))
        if mentions:
            raise AnchorError(f"C26.R7: the registry removal at line {node.line} of {fn.name} is guarded by a test over `{reg}` that the rule cannot read as `stored task is this task`")
        return False


def _exprs(n) -> list[ast.AST]:
    from ..cfg import exprs_in_node
    return list(exprs_in_node(n))


def _catches_cancel(h: ast.ExceptHandler) -> bool:
    if h.type is None:
        return True
    names = [ast.unparse(e).split(".")[-1] for e in (h.type.elts if isinstance(h.type, ast.Tuple) else [h.type])]
    return any(x in ("BaseException", "CancelledError") for x in names)


def _r7_findings(reg_obj: TimerRegistry) -> list[dict]:
    out = []
    for reg, timers in reg_obj.timers.items():
        for tname in sorted({t for t, _s in timers}):
            fn = reg_obj.methods[tname]
            if not isinstance(fn, ast.AsyncFunctionDef):
                raise AnchorError(f"C26.R7: `{tname}`, stored in the timer registry `{reg}`, is not a coroutine method")
            res = reg_obj.analyse(fn, reg)
            late_bad = [(f, node) for f, node, cfg in res["late"] if not reg_obj.identity_guarded(f, cfg, node, reg)]
            out.append({"reg": reg, "timer": fn, "res": res, "late_bad": late_bad})
    return out


def _releasing_transitions(repo) -> set[str]:
    """Names of the RunLifecycleLock transitions whose UPDATE moves a row to `releasing` (the release CAS)."""
    _m0, _base, impls, ename, members = lifecycle_impls(repo)
    names = set()
    for _ref, _mm, cls in impls:
        for n in cls.body:
            if isinstance(n, FuncNode):
                for sq in sql_statements(n):
                    if sq.verb == "UPDATE":
                        sets, _where = sq.assignments()
                        if state_member(sets.get("state"), ename, members, sq.call) == "releasing":
                            names.add(n.name)
    if not names:
        raise AnchorError("C26.R7: no RunLifecycleLock method moves a row to `releasing`")
    return names


def rule_r7(chk) -> None:
    """Ownership across suspension points: a task that the timer registry can cancel must not be the one that holds the
    `releasing` state.  `<canceller>` (run for every received tick, for every re-schedule and on resume) cancels whatever task
    the registry holds for the run id.  A cancellation delivered after the release CAS committed ends the task before
    TickIdleRelease is sent / complete_release is arranged: nothing moves the row out of `releasing` again."""
    repo = chk.repo
    md, deco = repo.cls(f"{DBI}:DBOSIdleReleaseDecorator")
    cas = _releasing_transitions(repo)
    tr = TimerRegistry(md.tree, deco, cas)
    if not tr.cancel_sites:
        raise AnchorError(f"C26.R7: no `.cancel()` of a task looked up in a dict attribute of {deco.name} found in {md.rel} (timer registry not bound)")
    chk.floor("C26.R7", "timer registries (dict of tasks whose entries are cancelled per tick / re-schedule / resume)", len(tr.cancel_sites), 1)
    findings = _r7_findings(tr)
    chk.floor("C26.R7", "timer coroutines stored in the registry", len(findings), 1)
    for f in findings:
        reg, fn, res = f["reg"], f["timer"], f["res"]
        cancellers = sorted({qualname_of(cf).split(".")[-1] for cf, _c in tr.cancel_sites[reg]})
        chk.floor("C26.R7", f"release CAS calls reached from the timer `{fn.name}`", res["cas_sites"], 1)
        chk.floor("C26.R7", f"suspension points that follow the release CAS on the way from `{fn.name}`", res["post_cas"], 1)
        owned = res["owned"]
        if owned:
            # the alternative repair — a canceller that skips a task which has begun releasing — is not modelled: a cancel
            # site whose guards read other state of the object is exit 2, not a violation
            for cf, c in tr.cancel_sites[reg]:
                ccfg = CFG(cf)
                for cn in ccfg.node_of_containing(c):
                    for t, _lab in ccfg.guards(cn):
                        other = sorted({a for x in ast.walk(t.ast.test) if t.kind == "test" for a in [_tail_attr(x)] if a and a != reg and a in _dict_attrs_of_init(deco) | set(attr_names_of_init(deco))})
                        if other:
                            raise AnchorError(f"C26.R7: `{fn.name}` stays registered while it owns `releasing`, but the cancel site in {qualname_of(cf)} is guarded by `self.{other[0]}`: "
                                              "the rule cannot tell whether cancellation skips a releasing task")
        first = owned[0] if owned else None
        chk.ob("C26.R7", f"the timer task `{fn.name}` has left `{reg}` (is no longer cancellable) before any suspension point that follows a successful release CAS", not owned,
               m=md, node=first[1].ast if first else fn, fn=first[0] if first else fn, instance=f"timer:{fn.name}:deregistered-before-owning-releasing",
               reason=(f"`{fn.name}` is still stored in `self.{reg}` when it suspends at `{' '.join(ast.unparse(_hdr(first[1])).split())[:70]}` after `{first[2]}` moved the row to `releasing`; "
                       f"the stored task is cancelled from {', '.join(cancellers)} (every received tick, re-schedule, resume): cancelled there, TickIdleRelease is never sent and "
                       "complete_release never runs — the row stays `releasing`, senders poll until the crash timeout and then wait for a workflow that is alive. "
                       f"Remove the entry (`self.{reg}.pop(<run id>, None)`) before the release starts, or run the release in a task the registry does not hold") if first else "",
               path=[f"{qualname_of(o[0]).split('.')[-1]}:{o[1].line} still registered at `{' '.join(ast.unparse(_hdr(o[1])).split())[:80]}`" for o in owned[:4]] if owned else None)
        bad = f["late_bad"]
        chk.ob("C26.R7", f"no unconditional removal from `{reg}` runs after the timer task `{fn.name}` was cancelled (a cancelled timer's key may already belong to its successor)", not bad,
               m=md, node=bad[0][1].ast if bad else fn, fn=bad[0][0] if bad else fn, instance=f"timer:{fn.name}:cancel-path-removal",
               reason=(f"`{' '.join(ast.unparse(bad[0][1].ast).split())[:70]}` also runs when the task is cancelled; the canceller has already removed the entry and, on re-schedule, "
                       "stored the *new* timer under the same key in the same step — this removal then drops the new timer from the registry, later ticks cannot cancel it and it releases a run that is working. "
                       f"Remove only when `self.{reg}.get(<run id>) is asyncio.current_task()`") if bad else "")
    chk.floor("C26.R7", "suspension points of timer tasks examined for cancellation-path removals", sum(f["res"]["suspensions"] for f in findings), 1)


def _hdr(n) -> ast.AST:
    from ..cfg import _header_exprs
    h = _header_exprs(n.ast) if not isinstance(n.ast, ast.ExceptHandler) else [n.ast]
    return h[0] if h else n.ast


def run(chk) -> None:
    from ._engine import engine_view
    chk.extra["helpers_inlined"] = engine_view(chk.repo)
    from ._engine import inlined_view
    for mod_ in (LIFE, DBI):
        chk.extra["helpers_inlined"] += inlined_view(chk.repo, mod_, __file__)
    rule_r1(chk)
    rule_r3(chk)
    rule_r4(chk)
    rule_r2(chk)
    rule_r5(chk)
    rule_r6(chk)
    rule_r7(chk)
    _fixture(chk)


# ======================================================================================= fixture (zero-expected shapes stay honest)

FIXTURE = "fixtures/c26/unguarded_release.py"
FIXTURE_R7 = "fixtures/c26/timer_registry_planted.py"


def _fixture(chk) -> None:
    """R4's `unconditional UPDATE` and R1's `unconditional branch` matchers are exercised on a planted example on every run."""
    from ..report import VERIF

    p = VERIF / FIXTURE
    if not p.is_file():
        raise AnchorError(f"fixture {FIXTURE} missing")
    tree = ast.parse(p.read_text())
    from ..index import _set_parents

    _set_parents(tree)
    fns = {n.name: n for n in ast.walk(tree) if isinstance(n, FuncNode)}
    ok1, _ = _guarded_by_pred(fns["reduce_planted"], [s for s in ast.walk(fns["reduce_planted"]) if isinstance(s, ast.Return)][0], "_check_idle_state", None)
    s = sql_statements(fns["begin_release_planted"])[0]
    _sets, where = s.assignments()
    planted = (not ok1) and "state" not in where
    chk.floor("C26.fixture", "planted violations recognised (unguarded release branch, unconditional lifecycle UPDATE)", 2 if planted else 0, 2)
    p7 = VERIF / FIXTURE_R7
    if not p7.is_file():
        raise AnchorError(f"fixture {FIXTURE_R7} missing")
    tree7 = ast.parse(p7.read_text())
    _set_parents(tree7)
    cls7 = next(n for n in tree7.body if isinstance(n, ast.ClassDef))
    f7 = _r7_findings(TimerRegistry(tree7, cls7, {"begin_release"}))
    seen7 = sum(bool(f["res"]["owned"]) for f in f7) + sum(bool(f["late_bad"]) for f in f7)
    chk.floor("C26.fixture", "planted R7 shapes recognised (timer registered while it owns `releasing`, removal on the cancellation path)", seen7, 2)


# ======================================================================================= twins

_CL = "packages/llama-index-workflows/src/workflows/runtime/control_loop.py"
_SRV = "packages/llama-agents-server/src/llama_agents/server/_runtime/idle_release_runtime.py"
_DBI = "packages/llama-agents-dbos/src/llama_agents/dbos/idle_release.py"
_LIFE = "packages/llama-agents-dbos/src/llama_agents/dbos/journal/lifecycle.py"
_BASIC = "packages/llama-index-workflows/src/workflows/plugins/basic.py"

_R1_OLD = "        return init, [CommandCompleteRun(result=IdleReleasedEvent())]\n"
_R1_GUARD_A = "        if not _check_idle_state(init):\n            return init, []\n        return init, [CommandCompleteRun(result=IdleReleasedEvent())]\n"
_R1_GUARD_B = "        if _check_idle_state(init):\n            return init, [CommandCompleteRun(result=IdleReleasedEvent())]\n        return init, []\n"
_R1_GUARD_C = "        still_idle = _check_idle_state(init)\n        if still_idle and init.is_running:\n            return init, [CommandCompleteRun(result=IdleReleasedEvent())]\n        return init, []\n"
_R1_INV = "        if _check_idle_state(init):\n            return init, []\n        return init, [CommandCompleteRun(result=IdleReleasedEvent())]\n"

_R3_SEND_OLD = ("        async with self._runtime._reload_lock(self.run_id):\n            if self.run_id not in self._runtime._active_run_ids:\n"
                "                await self._runtime._ensure_active_run_locked(self.run_id)\n            else:\n"
                "                await self._runtime._store.update_handler_status(\n                    self.run_id, idle_since=None\n                )\n")
_R3_SEND_ARMS = ("            if run_is_active:\n                await self._runtime._store.update_handler_status(\n                    self.run_id, idle_since=None\n                )\n"
                 "            else:\n                await self._runtime._ensure_active_run_locked(self.run_id)\n")

# the sender written over locals bound to the runtime object and the run id (bound before the lock is taken; these are not reads of shared state)
_R3_LOC_BIND = "        runtime = self._runtime\n        run_id = self.run_id\n"
_R3_LOC_WITH = "        async with runtime._reload_lock(run_id):\n"
_R3_LOC_ARMS = ("                await runtime._store.update_handler_status(run_id, idle_since=None)\n            else:\n"
                "                await runtime._ensure_active_run_locked(run_id)\n")
_R3_REL_TAIL_OLD = ("            if run_id not in self._active_run_ids:\n                return\n            self._active_run_ids.discard(run_id)\n            self._abort_inner_run(run_id)\n"
                    "            logger.info(f\"Released idle handler [run_id={run_id}] from memory\")\n")

_R7_OLD = "        await asyncio.sleep(self._idle_timeout)\n        self._deferred_release_tasks.pop(run_id, None)\n        await self._release_idle_handler(run_id)\n"
_R7_HEAD = "        lifecycle = await self._get_lifecycle()\n        if not await lifecycle.begin_release(run_id):\n            return\n"
_R7_SEND = "        await external.send_event(TickIdleRelease())\n"
_R7_NOPOP = "        await asyncio.sleep(self._idle_timeout)\n        await self._release_idle_handler(run_id)\n"

# try_begin_resume (postgres): the two claiming cases written as separate branches, each with its own claiming UPDATE
_R4_PG_OLD = ("                if state == RunLifecycleState.released or (\n                    state == RunLifecycleState.releasing\n                    and crash_timeout_seconds is not None\n"
              "                    and (datetime.now(timezone.utc) - row[\"updated_at\"]).total_seconds()\n                    > crash_timeout_seconds\n                ):\n"
              "                    await conn.execute(\n                        f\"UPDATE {self._table_ref} SET state = $1, updated_at = $2 \"\n                        f\"WHERE run_id = $3\",\n"
              "                        RunLifecycleState.active.value,\n                        datetime.now(timezone.utc),\n                        run_id,\n                    )\n"
              "                    return RunLifecycleState.released\n")
_R4_PG_UPD = ("                    await conn.execute(\n                        f\"UPDATE {self._table_ref} SET state = $1, updated_at = $2 \"\n                        f\"WHERE run_id = $3\",\n"
              "                        RunLifecycleState.active.value,\n                        datetime.now(timezone.utc),\n                        run_id,\n                    )\n"
              "                    return RunLifecycleState.released\n")
_R4_PG_REL = "                if state == RunLifecycleState.released:\n"
_R4_PG_TMO = ("                if (\n                    state == RunLifecycleState.releasing\n                    and crash_timeout_seconds is not None\n"
              "                    and crash_timeout_seconds < (datetime.now(timezone.utc) - row[\"updated_at\"]).total_seconds()\n                ):\n")

TWINS = [
    # ---- R7 (timer task must not be cancellable through the registry while it owns `releasing`)
    Twin("R7 registry removal in try/finally around sleep and release (seed form)", _DBI, _R7_OLD,
         "        try:\n            await asyncio.sleep(self._idle_timeout)\n            await self._release_idle_handler(run_id)\n        finally:\n            self._deferred_release_tasks.pop(run_id, None)\n", "C26.R7"),
    Twin("R7 registry removal after the release", _DBI, _R7_OLD,
         "        await asyncio.sleep(self._idle_timeout)\n        await self._release_idle_handler(run_id)\n        self._deferred_release_tasks.pop(run_id, None)\n", "C26.R7"),
    Twin("R7 registry removal dropped", _DBI, _R7_OLD, _R7_NOPOP, "C26.R7"),
    Twin("R7 registry removal only after TickIdleRelease was sent (moved into the releaser)", _DBI,
         *multi(_DBI, [(_R7_OLD, _R7_NOPOP), (_R7_SEND, _R7_SEND + "        self._deferred_release_tasks.pop(run_id, None)\n")]), "C26.R7"),
    Twin("R7 removal skipped on one path (only when the timeout is positive)", _DBI, _R7_OLD,
         "        await asyncio.sleep(self._idle_timeout)\n        if self._idle_timeout > 0:\n            self._deferred_release_tasks.pop(run_id, None)\n        await self._release_idle_handler(run_id)\n", "C26.R7"),
    Twin("R7 early removal kept but an unconditional cleanup also runs on cancellation", _DBI, _R7_OLD,
         "        try:\n            await asyncio.sleep(self._idle_timeout)\n            self._deferred_release_tasks.pop(run_id, None)\n            await self._release_idle_handler(run_id)\n        finally:\n            self._deferred_release_tasks.pop(run_id, None)\n", "C26.R7"),
    Twin("R7 benign: early removal kept, cleanup in finally only if the stored task is this task", _DBI, _R7_OLD,
         "        try:\n            await asyncio.sleep(self._idle_timeout)\n            self._deferred_release_tasks.pop(run_id, None)\n            await self._release_idle_handler(run_id)\n        finally:\n"
         "            if self._deferred_release_tasks.get(run_id) is asyncio.current_task():\n                self._deferred_release_tasks.pop(run_id, None)\n", None),
    Twin("R7 benign: membership test + del", _DBI, _R7_OLD,
         "        await asyncio.sleep(self._idle_timeout)\n        if run_id in self._deferred_release_tasks:\n            del self._deferred_release_tasks[run_id]\n        await self._release_idle_handler(run_id)\n", None),
    Twin("R7 benign: removal moved to the head of the releaser (before the CAS)", _DBI,
         *multi(_DBI, [(_R7_OLD, _R7_NOPOP), (_R7_HEAD, "        self._deferred_release_tasks.pop(run_id, None)\n" + _R7_HEAD)]), None),
    Twin("R7 benign: removal between the CAS and the next suspension point", _DBI,
         *multi(_DBI, [(_R7_OLD, _R7_NOPOP), (_R7_HEAD, _R7_HEAD + "        self._deferred_release_tasks.pop(run_id, None)\n")]), None),
    Twin("R7 benign: the release runs in its own unregistered task", _DBI, _R7_OLD,
         "        await asyncio.sleep(self._idle_timeout)\n        self._deferred_release_tasks.pop(run_id, None)\n        self._spawn_task(self._release_idle_handler(run_id))\n", None),
    Twin("R7 benign: detached release without the early removal (the registered task ends before the CAS)", _DBI, _R7_OLD,
         "        await asyncio.sleep(self._idle_timeout)\n        await asyncio.shield(self._spawn_task(self._release_idle_handler(run_id)))\n", None),
    # ---- R1 (the pinned tree has the unguarded form; the guarded forms are the repaired tree)
    # the guard forms below discharge R1 (verified in the module's own checks) but, alone, create the stuck-`releasing` hazard that R6 reports
    Twin("R6 guard added without compensation (early-return form)", _CL, _R1_OLD, _R1_GUARD_A, "C26.R6"),
    Twin("R6 guard added without compensation (nested-if form)", _CL, _R1_OLD, _R1_GUARD_B, "C26.R6"),
    Twin("R6 guard added without compensation (extracted local)", _CL, _R1_OLD, _R1_GUARD_C, "C26.R6"),
    Twin("R6 benign: branch reordered, still unconditional", _CL, "        # Return early — idle release does not schedule idle checks\n        return init, [CommandCompleteRun(result=IdleReleasedEvent())]\n",
         "        release = CommandCompleteRun(result=IdleReleasedEvent())\n        return init, [release]\n", None),
    Twin("R1 guard removed again (repaired tree, early-return form)", _CL, _R1_GUARD_A, _R1_OLD, "C26.R1"),
    Twin("R1 guard inverted (repaired tree, nested-if form)", _CL, _R1_GUARD_B, _R1_INV, "C26.R1"),
    Twin("R1 predicate ignores running work", _CL, "        if worker_state.queue or worker_state.in_progress:\n            return False", "        if worker_state.queue:\n            return False", "C26.R1"),
    Twin("R1 predicate ignores queued work", _CL, "        if worker_state.queue or worker_state.in_progress:\n            return False", "        if worker_state.in_progress:\n            return False", "C26.R1"),
    Twin("R1 predicate stops at first idle step", _CL, "        if worker_state.queue or worker_state.in_progress:\n            return False\n\n    return True", "        if worker_state.queue or worker_state.in_progress:\n            return False\n        return True\n    return True", "C26.R1"),
    Twin("R1 benign: predicate with any()", _CL, "    for worker_state in state.workers.values():\n        if worker_state.queue or worker_state.in_progress:\n            return False\n\n    return True",
         "    return not any(len(w.queue) > 0 or len(w.in_progress) > 0 for w in state.workers.values())", None),
    # ---- R3
    Twin("R3 send outside the reload lock", _SRV, "            await self._decorated.send_event(tick)\n\n\nclass IdleReleaseDecorator", "        await self._decorated.send_event(tick)\n\n\nclass IdleReleaseDecorator", "C26.R3"),
    Twin("R3 releaser decides before taking the lock", _SRV,
         "        async with self._reload_lock(run_id):\n            handlers = await self._store.query(HandlerQuery(run_id_in=[run_id]))\n            if len(handlers) != 1 or handlers[0].idle_since is None:\n                return\n",
         "        handlers = await self._store.query(HandlerQuery(run_id_in=[run_id]))\n        if len(handlers) != 1 or handlers[0].idle_since is None:\n            return\n        async with self._reload_lock(run_id):\n", "C26.R3"),
    Twin("R3 releaser aborts after leaving the lock", _SRV, "            self._active_run_ids.discard(run_id)\n            self._abort_inner_run(run_id)\n            logger.info(", "            self._active_run_ids.discard(run_id)\n        self._abort_inner_run(run_id)\n        logger.info(", "C26.R3"),
    Twin("R3 sender uses a private lock", _SRV, "        async with self._runtime._reload_lock(self.run_id):\n            if self.run_id not in", "        async with self._runtime._send_lock(self.run_id):\n            if self.run_id not in", "C26.R3"),
    Twin("R3 benign: inverted membership test", _SRV,
         "            if self.run_id not in self._runtime._active_run_ids:\n                await self._runtime._ensure_active_run_locked(self.run_id)\n            else:\n                await self._runtime._store.update_handler_status(\n                    self.run_id, idle_since=None\n                )\n",
         "            if self.run_id in self._runtime._active_run_ids:\n                await self._runtime._store.update_handler_status(\n                    self.run_id, idle_since=None\n                )\n            else:\n                await self._runtime._ensure_active_run_locked(self.run_id)\n", None),
    Twin("R3 benign: membership test held in a local, arms swapped", _SRV, _R3_SEND_OLD,
         "        async with self._runtime._reload_lock(self.run_id):\n            run_is_active = self.run_id in self._runtime._active_run_ids\n" + _R3_SEND_ARMS, None),
    Twin("R3 liveness read into a local before the lock is taken", _SRV, _R3_SEND_OLD,
         "        run_is_active = self.run_id in self._runtime._active_run_ids\n        async with self._runtime._reload_lock(self.run_id):\n" + _R3_SEND_ARMS, "C26.R3"),
    Twin("R3 local liveness test, send after leaving the lock", _SRV, _R3_SEND_OLD + "            await self._decorated.send_event(tick)\n",
         "        async with self._runtime._reload_lock(self.run_id):\n            run_is_active = self.run_id in self._runtime._active_run_ids\n" + _R3_SEND_ARMS
         + "        await self._decorated.send_event(tick)\n", "C26.R3"),
    Twin("R3 benign: runtime object and run id bound to locals before the lock, positive membership test, arms swapped", _SRV, _R3_SEND_OLD,
         _R3_LOC_BIND + _R3_LOC_WITH + "            if run_id in runtime._active_run_ids:\n" + _R3_LOC_ARMS, None),
    Twin("R3 benign: locals for runtime / run id, membership held in a local read under the lock", _SRV, _R3_SEND_OLD,
         _R3_LOC_BIND + _R3_LOC_WITH + "            still_loaded = run_id in runtime._active_run_ids\n            if still_loaded:\n" + _R3_LOC_ARMS, None),
    Twin("R3 locals for runtime / run id, active set read through the local before the lock is taken", _SRV, _R3_SEND_OLD,
         _R3_LOC_BIND + "        still_loaded = run_id in runtime._active_run_ids\n" + _R3_LOC_WITH + "            if still_loaded:\n" + _R3_LOC_ARMS, "C26.R3"),
    Twin("R3 locals for runtime / run id, send after leaving the lock", _SRV, _R3_SEND_OLD + "            await self._decorated.send_event(tick)\n",
         _R3_LOC_BIND + _R3_LOC_WITH + "            if run_id in runtime._active_run_ids:\n" + _R3_LOC_ARMS + "        await self._decorated.send_event(tick)\n", "C26.R3"),
    Twin("R3 locals for runtime / run id, sender takes a lock the releaser does not", _SRV, _R3_SEND_OLD,
         _R3_LOC_BIND + "        async with runtime._send_lock(run_id):\n" + "            if run_id in runtime._active_run_ids:\n" + _R3_LOC_ARMS, "C26.R3"),
    Twin("R3 benign: releaser's last early return as a positive block, swapped comparison, split early returns", _SRV,
         *multi(_SRV, [("            if len(handlers) != 1 or handlers[0].idle_since is None:\n                return\n            elapsed = (\n                datetime.now(timezone.utc) - handlers[0].idle_since\n            ).total_seconds()\n            if elapsed < self._idle_timeout:\n                return\n",
                        "            if len(handlers) != 1:\n                return\n            idle_since = handlers[0].idle_since\n            if idle_since is None:\n                return\n            idle_for = datetime.now(timezone.utc) - idle_since\n            if self._idle_timeout > idle_for.total_seconds():\n                return\n"),
                       (_R3_REL_TAIL_OLD, "            if run_id in self._active_run_ids:\n                self._active_run_ids.discard(run_id)\n                self._abort_inner_run(run_id)\n                logger.info(f\"Released idle handler [run_id={run_id}] from memory\")\n")]), None),
    Twin("R3 releaser's positive membership block placed after the lock region", _SRV, _R3_REL_TAIL_OLD,
         "        if run_id in self._active_run_ids:\n            self._active_run_ids.discard(run_id)\n            self._abort_inner_run(run_id)\n            logger.info(f\"Released idle handler [run_id={run_id}] from memory\")\n", "C26.R3"),
    Twin("R2 benign: marker read through a local", _SRV,"            if len(handlers) != 1 or handlers[0].idle_since is None:\n                return\n            elapsed = (\n                datetime.now(timezone.utc) - handlers[0].idle_since\n            ).total_seconds()\n",
         "            if len(handlers) != 1:\n                return\n            idle_since = handlers[0].idle_since\n            if idle_since is None:\n                return\n            elapsed = (datetime.now(timezone.utc) - idle_since).total_seconds()\n", None),
    Twin("R3 benign: lock bound to a local", _SRV, "        async with self._reload_lock(run_id):\n            handlers = await self._store.query", "        lock = self._reload_lock\n        async with lock(run_id):\n            handlers = await self._store.query", None),
    # ---- R4
    Twin("R4 begin_release unconditional (postgres)", _LIFE, 'f"WHERE run_id = $3 AND state = $4 RETURNING run_id",', 'f"WHERE run_id = $3 RETURNING run_id",', "C26.R4"),
    Twin("R4 begin_release expects releasing (sqlite)", _LIFE,
         "                        RunLifecycleState.releasing.value,\n                        datetime.now(timezone.utc).isoformat(),\n                        run_id,\n                        RunLifecycleState.active.value,\n",
         "                        RunLifecycleState.releasing.value,\n                        datetime.now(timezone.utc).isoformat(),\n                        run_id,\n                        RunLifecycleState.releasing.value,\n", "C26.R4"),
    Twin("R4 complete_release unconditional (sqlite)", _LIFE,
         'f"WHERE run_id = ? AND state = ?",\n                    (\n                        RunLifecycleState.released.value,\n                        datetime.now(timezone.utc).isoformat(),\n                        run_id,\n                        RunLifecycleState.releasing.value,\n                    ),',
         'f"WHERE run_id = ?",\n                    (\n                        RunLifecycleState.released.value,\n                        datetime.now(timezone.utc).isoformat(),\n                        run_id,\n                    ),', "C26.R4"),
    Twin("R4 begin_release always claims success (postgres)", _LIFE, "        return row is not None\n", "        return True\n", "C26.R4"),
    Twin("R4 row lock dropped", _LIFE, 'f"WHERE run_id = $1 FOR UPDATE",', 'f"WHERE run_id = $1",', "C26.R4"),
    Twin("R4 select outside the transaction", _LIFE,
         "            async with conn.transaction():\n                row = await conn.fetchrow(\n                    f\"SELECT state, updated_at FROM {self._table_ref} \"\n                    f\"WHERE run_id = $1 FOR UPDATE\",\n                    run_id,\n                )\n",
         "            row = await conn.fetchrow(\n                f\"SELECT state, updated_at FROM {self._table_ref} \"\n                f\"WHERE run_id = $1 FOR UPDATE\",\n                run_id,\n            )\n            async with conn.transaction():\n", "C26.R4"),
    Twin("R4 sqlite begin_release without the keyed lock", _LIFE,
         "    async def begin_release(self, run_id: str) -> bool:\n        async with self._lock(run_id):\n            with self._connect() as conn:\n                cursor = conn.execute(",
         "    async def begin_release(self, run_id: str) -> bool:\n        if True:\n            with self._connect() as conn:\n                cursor = conn.execute(", "C26.R4"),
    Twin("R4 yield between read and write under the sqlite lock", _LIFE, "                ).fetchone()\n                if row is None:\n                    return None\n",
         "                ).fetchone()\n                if row is None:\n                    return None\n                await self._settle()\n", "C26.R4"),
    Twin("R4 releasing also reported as released", _LIFE, "                # releasing\n                return RunLifecycleState.releasing\n\n\nclass SqliteRunLifecycleLock", "                # releasing\n                return RunLifecycleState.released\n\n\nclass SqliteRunLifecycleLock", "C26.R4"),
    Twin("R4 forced takeover told `releasing` after its update", _LIFE, "                    conn.commit()\n                    return RunLifecycleState.released\n",
         "                    conn.commit()\n                    if state == RunLifecycleState.released:\n                        return RunLifecycleState.released\n", "C26.R4"),
    Twin("R4 benign: literal state and reordered WHERE", _LIFE,
         'f"WHERE run_id = $3 AND state = $4 RETURNING run_id",\n            RunLifecycleState.releasing.value,\n            datetime.now(timezone.utc),\n            run_id,\n            RunLifecycleState.active.value,\n',
         'f"WHERE state = \'active\' AND run_id = $3 RETURNING run_id",\n            RunLifecycleState.releasing.value,\n            datetime.now(timezone.utc),\n            run_id,\n', None),
    Twin("R4 benign: enum without .value, named result", _LIFE, "                conn.commit()\n                return cursor.rowcount > 0\n", "                conn.commit()\n                changed = cursor.rowcount\n                return changed > 0\n", None),
    Twin("R4 benign: result through control flow", _LIFE,
         "        return row is not None\n", "        if row is None:\n            return False\n        return True\n", None),
    # ---- R5
    Twin("R5 reload without re-check", _SRV, "    async def _ensure_active_run_locked(self, run_id: str) -> None:\n        if run_id in self._active_run_ids:\n            return\n", "    async def _ensure_active_run_locked(self, run_id: str) -> None:\n", "C26.R5"),
    Twin("R5 reload called without the lock", _SRV, "        async with self._reload_lock(run_id):\n            await self._ensure_active_run_locked(run_id)\n", "        await self._ensure_active_run_locked(run_id)\n", "C26.R5"),
    Twin("R5 mark active only after the store write", _SRV, "        self._active_run_ids.add(run_id)\n        await self._store.update_handler_status(run_id, idle_since=None)\n", "        await self._store.update_handler_status(run_id, idle_since=None)\n        self._active_run_ids.add(run_id)\n", "C26.R5"),
    Twin("R5 basic runtime accepts a duplicate id", _BASIC, "        if run_id in self._queues:\n            # not supported", "        if False:\n            # not supported", "C26.R5"),
    Twin("R4 resume claims a releasing run before the crash timeout", _LIFE, "                    and (datetime.now(timezone.utc) - row[\"updated_at\"]).total_seconds()\n                    > crash_timeout_seconds\n", "                    and (datetime.now(timezone.utc) - row[\"updated_at\"]).total_seconds()\n                    < crash_timeout_seconds\n", "C26.R4"),
    Twin("R4 resume claims any releasing run", _LIFE, "                    state == RunLifecycleState.releasing\n                    and crash_timeout_seconds is not None\n                    and (datetime.now(timezone.utc) - row[\"updated_at\"]).total_seconds()\n                    > crash_timeout_seconds\n", "                    state == RunLifecycleState.releasing\n", "C26.R4"),
    Twin("R4 resume claims an active run", _LIFE, "                if state == RunLifecycleState.active:\n                    return None\n                if state == RunLifecycleState.released or (\n                    state == RunLifecycleState.releasing\n                    and crash_timeout_seconds is not None\n                    and (datetime.now(timezone.utc) - row[\"updated_at\"])", "                if state == RunLifecycleState.active and crash_timeout_seconds is None:\n                    return None\n                if state != RunLifecycleState.releasing or (\n                    state == RunLifecycleState.releasing\n                    and crash_timeout_seconds is not None\n                    and (datetime.now(timezone.utc) - row[\"updated_at\"])", "C26.R4"),
    Twin("R4 benign: resume guard as nested early returns", _LIFE, "                if state == RunLifecycleState.released or (\n                    state == RunLifecycleState.releasing\n                    and crash_timeout_seconds is not None\n                    and (datetime.now(timezone.utc) - row[\"updated_at\"]).total_seconds()\n                    > crash_timeout_seconds\n                ):\n                    await conn.execute(", "                if state == RunLifecycleState.releasing:\n                    if crash_timeout_seconds is None or not (datetime.now(timezone.utc) - row[\"updated_at\"]).total_seconds() > crash_timeout_seconds:\n                        return RunLifecycleState.releasing\n                if True:\n                    await conn.execute(", None),
    # ---- R4 resume guard when `released` and timed-out `releasing` are claimed by separate branches with one UPDATE each
    Twin("R4 benign: released / timed-out releasing claimed in two early-return branches, operands of `>` swapped", _LIFE, _R4_PG_OLD,
         _R4_PG_REL + _R4_PG_UPD + _R4_PG_TMO + _R4_PG_UPD, None),
    Twin("R4 two claiming branches, the `releasing` one without the crash timeout", _LIFE, _R4_PG_OLD,
         _R4_PG_REL + _R4_PG_UPD + "                if state == RunLifecycleState.releasing:\n" + _R4_PG_UPD, "C26.R4"),
    Twin("R4 two claiming branches, the timeout comparison of the `releasing` one inverted", _LIFE, _R4_PG_OLD,
         _R4_PG_REL + _R4_PG_UPD + _R4_PG_TMO.replace("crash_timeout_seconds < (", "crash_timeout_seconds > (") + _R4_PG_UPD, "C26.R4"),
    Twin("R4 two claiming branches, the `released` one lost: only a timed-out `releasing` row is ever claimed", _LIFE, _R4_PG_OLD,
         _R4_PG_TMO + _R4_PG_UPD, "C26.R4"),
    Twin("R4 two claiming branches, the first one tests `active` instead of `released`", _LIFE,
         "                if state == RunLifecycleState.active:\n                    return None\n" + _R4_PG_OLD,
         "                if state == RunLifecycleState.active:\n" + _R4_PG_UPD + _R4_PG_TMO + _R4_PG_UPD, "C26.R4"),
    Twin("R4 two claiming branches, `released` reported without its UPDATE", _LIFE, _R4_PG_OLD,
         _R4_PG_REL + "                    return RunLifecycleState.released\n" + _R4_PG_TMO + _R4_PG_UPD, "C26.R4"),
    Twin("R5 resume does not await the old workflow", _DBI, "            handle = await DBOS.retrieve_workflow_async(run_id)\n            await handle.get_result()\n", "            handle = await DBOS.retrieve_workflow_async(run_id)\n            handle.get_status\n", "C26.R5"),
    Twin("R5 resume for any non-active state", _DBI, "            if result == RunLifecycleState.released:\n", "            if result != RunLifecycleState.active:\n", "C26.R5"),
    Twin("R5 benign: reversed comparison", _DBI, "            if result == RunLifecycleState.released:\n", "            if RunLifecycleState.released == result:\n", None),
    Twin("R5 benign: positive-form re-check", _SRV, "    async def _ensure_active_run_locked(self, run_id: str) -> None:\n        if run_id in self._active_run_ids:\n            return\n", "    async def _ensure_active_run_locked(self, run_id: str) -> None:\n        already = run_id in self._active_run_ids\n        if already:\n            return\n", None),
    # ---- R2 (the pinned tree violates R2; the pair below becomes active on the repaired tree proposed in the report)
    Twin("R2 (repaired tree) hook no longer clears the marker", _SRV, "            await self._store.update_handler_status(self.run_id, idle_since=None)\n\n\nclass IdleReleaseExternalRunAdapter", "            pass\n\n\nclass IdleReleaseExternalRunAdapter", "C26.R2"),
    Twin("R2 (repaired tree) hook renamed so that the runner never calls it", _SRV, "    async def on_tick(self, tick: WorkflowTick) -> None:\n        await super().on_tick(tick)\n        if self._marked_idle:", "    async def on_any_tick(self, tick: WorkflowTick) -> None:\n        if self._marked_idle:", "C26.R2"),
    Twin("R2 benign (repair): per-tick hook clears the marker", _SRV, "        if isinstance(event, WorkflowIdleEvent):\n            self._runtime._spawn_task(self._runtime._deferred_release(self.run_id))\n",
         "        if isinstance(event, WorkflowIdleEvent):\n            self._runtime._spawn_task(self._runtime._deferred_release(self.run_id))\n\n    @override\n    async def on_tick(self, tick: WorkflowTick) -> None:\n        await super().on_tick(tick)\n        await self._store.update_handler_status(self.run_id, idle_since=None)\n", None),
]
